(* Model/Process.v - the process-level resource a Simulation takes by default: its
   output directory.  `mkdtemp` is an oracle that returns a name never handed out
   before; the default argument of Simulation.__init__ is either an expression
   evaluated once at import (shared by every instance) or evaluated per call. *)
From Coq Require Import List Arith Lia.
Import ListNotations.

Record proc := { used : list nat }.
Definition fresh_name (p : proc) : nat := S (fold_right Nat.max 0 (used p)).
Definition mkdtemp (p : proc) : nat * proc :=
  let n := fresh_name p in (n, {| used := n :: used p |}).

Inductive default_shape := AtImport | PerCall.

(* creating a simulation: returns its output directory *)
Definition new_sim (shape : default_shape) (import_dir : nat) (explicit : option nat) (p : proc)
  : nat * proc :=
  match explicit with
  | Some d => (d, p)
  | None => match shape with
            | AtImport => (import_dir, p)
            | PerCall => mkdtemp p
            end
  end.

(* a sequence of default-argument constructions *)
Fixpoint new_sims (shape : default_shape) (import_dir : nat) (k : nat) (p : proc) : list nat * proc :=
  match k with
  | O => ([], p)
  | S k' => let '(d, p1) := new_sim shape import_dir None p in
            let '(ds, p2) := new_sims shape import_dir k' p1 in (d :: ds, p2)
  end.
