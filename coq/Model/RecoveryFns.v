(* Model/RecoveryFns.v - the built-in recovery curves whose values are rational
   (boario/utils/recovery_functions.py): linear, convexe, convexe scaled.
   The concave curve has an irrational exponent and is not modelled here. *)
Require Import Boario.Base.QcLib Boario.Base.Vec.
Open Scope Qc_scope.

Definition qnat (n : nat) : Qc := Qc_of_Z (Z.of_nat n).
Fixpoint qpow (b : Qc) (n : nat) : Qc := match n with O => 1 | S k => b * qpow b k end.

(* init * max(0, 1 - e / tau)   (floored at zero since fix 3f13629) *)
Definition linear_rec (tau e : nat) (init : vec) : vec :=
  map (fun x => x * qpos (1 - qnat e / qnat tau)) init.
(* init * (1 - 1/tau)^e *)
Definition convexe_rec (tau e : nat) (init : vec) : vec :=
  map (fun x => x * qpow (1 - 1 / qnat tau) e) init.
(* init * (1 - 1/tau)^(4 e) *)
Definition convexe_scaled_rec (tau e : nat) (init : vec) : vec :=
  map (fun x => x * qpow (1 - 1 / qnat tau) (4 * e)) init.
