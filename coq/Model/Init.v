(* Model/Init.v - construction of the model from a (lexicographically sorted)
   table and a configuration: ARIOBaseModel.__init__ / ARIOPsiModel.__init__
   (boario/model_base.py:137-363, boario/extended_models.py:32-141).
   Definitions only. *)
Require Import Boario.Base.QcLib Boario.Base.Vec Boario.Model.Econ.
Open Scope Qc_scope.

(* the table as pymrio holds it, in sorted label order, yearly values *)
Record table := {
  t_nR : nat; t_nS : nat; t_nC : nat;
  t_Z : mat;      (* N x N *)
  t_Y : mat;      (* N x F *)
  t_x : vec;      (* N *)
  t_A : mat       (* N x N *)
}.

Inductive capital_spec :=
| CapDefault                      (* 4 x value added *)
| CapRatio (ratios : list Qc)     (* per sector, sorted sector order *)
| CapVector (k : vec).            (* per industry, sorted industry order *)

Record config := {
  c_psi_class : bool;             (* ARIOPsiModel (true) or ARIOBaseModel *)
  c_alt : bool;
  c_dt : Qc;                      (* n_temporal_units_by_step *)
  c_year : Qc;                    (* iotable_year_to_temporal_unit_factor *)
  c_inv : list (option Qc);       (* per sector, in temporal units; None = infinite *)
  c_psi : Qc;
  c_rest_tau : list Qc;           (* per sector inventory restoration tau (temporal units) *)
  c_a_base : Qc; c_a_max : Qc; c_a_tau : Qc;
  c_capital : capital_spec
}.

Definition TECH_THRESHOLD : Qc := of_frac 1 100000.

Section Init.
Variable T : table.
Variable C : config.
Let nr := t_nR T.
Let ns := t_nS T.
Let N := (nr * ns)%nat.
Let F := (nr * t_nC T)%nat.
Let steply : Qc := c_dt C / c_year C.

Definition ZC_year (p j : nat) : Qc := sumn nr (fun r => get (t_Z T) (r * ns + p) j).
Definition i_Z0 : mat := tab2 N N (fun i j => get (t_Z T) i j * steply).
Definition i_Y0 : mat := tab2 N F (fun i c => get (t_Y T) i c * steply).
Definition i_X0 : vec := tab N (fun i => getv (t_x T) i * steply).
(* _divide_arrays_ignore with the documented convention x/0 := 0 *)
Definition i_zdist : mat :=
  tab2 N N (fun i j => let c := ZC_year (i mod ns) j in
                       if Qceqb c 0 then 0 else get (t_Z T) i j / c).
Definition i_tech : mat := tab2 ns N (fun p j => sumn nr (fun r => get (t_A T) (r * ns + p) j)).
Definition i_VA : vec :=
  tab N (fun j => qpos (getv (t_x T) j - sumn N (fun i => get (t_Z T) i j))).
(* threshold_not_input: Z_C (yearly) > X_0 (per step) * TECHNOLOGY_THRESHOLD *)
Definition i_mask : list (list bool) :=
  tab2 ns N (fun p j => Qcltb (getv i_X0 j * TECH_THRESHOLD) (ZC_year p j)).
(* inv_duration = inventories / dt ; <= 1 is replaced by 2 *)
Definition i_invd : list (option Qc) :=
  tab ns (fun p => match nth p (c_inv C) None with
                   | None => None
                   | Some d => let s := d / c_dt C in Some (if Qcleb s 1 then (Qc_of_Z 2) else s)
                   end).
Definition i_rho : list Qc :=
  tab ns (fun p => if c_psi_class C then c_dt C / nth p (c_rest_tau C) 1 else 1).
Definition i_K : vec :=
  match c_capital C with
  | CapDefault => tab N (fun j => getv i_VA j * Qc_of_Z 4)
  | CapRatio rs => tab N (fun j => getv i_VA j * nth (j mod ns) rs 0)
  | CapVector k => tab N (fun j => getv k j)
  end.

Definition init_params : params := {|
  nR := nr; nS := ns; nC := t_nC T;
  X0 := i_X0; Z0 := i_Z0; Y0 := i_Y0; tech := i_tech;
  invd := i_invd;
  psi := if c_psi_class C then c_psi C else 1;
  rho := i_rho;
  alt := c_alt C; zdist := i_zdist; mask := i_mask;
  a_base := c_a_base C; a_max := c_a_max C; a_rate := c_dt C / c_a_tau C;
  K := i_K |}.

(* initial inventories: X0 . tech . s  (rows of infinite inputs are not used) *)
Definition i_stock0 : mat :=
  tab2 ns N (fun p f => getv i_X0 f * get i_tech p f * invq init_params p).
(* initial demand matrix [orders | final demand] *)
Definition i_dem0 : mat :=
  tab2 N (N + F) (fun i j => if Nat.ltb j N then get i_Z0 i j else get i_Y0 i (j - N)).
Definition i_alpha0 : vec := tab N (fun _ => c_a_base C).

End Init.
