(* Model/Ctor.v - building an event's per-industry impact from a scalar
   (Event.distribute_impact_industries, _level_distrib, _distribute_impact,
   _from_scalar_regions_sectors, _from_series; boario/event.py:444-722).
   The affected set is a list of n positions (its labels are handled by the
   harness); a weight is None when the supplied Series does not cover the position. *)
Require Import Boario.Base.QcLib Boario.Base.Vec Boario.Model.RecoveryFns.
Open Scope Qc_scope.

Inductive cerr := NullImpact | EmptySelection | UncoveredIndex | NotNormalised | NegativeEntry | EmptyImpact.
Inductive cres := CErr (e : cerr) | COk (v : list Qc).

Definition sumq (l : list Qc) : Qc := fold_right Qcplus 0 l.
Definition is_none {A} (o : option A) : bool := match o with None => true | Some _ => false end.
Definition oget (o : option Qc) : Qc := match o with Some x => x | None => 0 end.

(* _level_distrib: weights restricted to the affected set, normalised by their sum *)
Definition level_distrib (n : nat) (ws : option (list (option Qc))) : cres :=
  match ws with
  | None => COk (repeat (1 / qnat n) n)
  | Some l =>
      if existsb is_none l then CErr UncoveredIndex
      else let w := map oget l in
           let s := sumq w in
           if Qceqb s 0 then CErr NotNormalised else COk (map (fun x => x / s) w)
  end.

(* distribute_impact_industries *)
Definition distribute_scalar (I : Qc) (n : nat) (ws : option (list (option Qc))) : cres :=
  if Qcleb I 0 then CErr NullImpact
  else if Nat.eqb n 0 then CErr EmptySelection
  else match level_distrib n ws with
       | CErr e => CErr e
       | COk d => COk (map (fun x => I * x) d)
       end.

(* regions x sectors: the industry weights are the outer product of the two
   normalised level distributions (regions major) *)
Definition outer (a b : list Qc) : list Qc := flat_map (fun x => map (fun y => x * y) b) a.
Definition distribute_regions_sectors (I : Qc) (nr ns : nat)
    (wr ws : option (list (option Qc))) : cres :=
  if Nat.eqb nr 0 || Nat.eqb ns 0 then CErr EmptySelection else
  match level_distrib nr wr, level_distrib ns ws with
  | CErr e, _ => CErr e
  | _, CErr e => CErr e
  | COk dr, COk ds => distribute_scalar I (nr * ns) (Some (map Some (outer dr ds)))
  end.

(* _from_series: zero entries are dropped, any remaining non-positive entry is rejected *)
Definition from_series (v : list Qc) : cres :=
  match v with
  | [] => CErr EmptyImpact
  | _ => let v' := filter (fun x => negb (Qceqb x 0)) v in
         if existsb (fun x => Qcleb x 0) v' then CErr NegativeEntry else COk v'
  end.

(* ------------------------------------------------------------------ *)
(* labelled front ends (Event._build_industries_idx, distribute_impact_industries):
   labels are numbered by the harness; a label listed several times counts once, the
   first occurrence is kept (pandas Index.drop_duplicates); the weights are looked up
   by label in the supplied Series. *)
Fixpoint dedup (l : list nat) : list nat :=
  match l with
  | [] => []
  | x :: r => x :: filter (fun y => negb (Nat.eqb x y)) (dedup r)
  end.
Definition lookupw (w : list (nat * Qc)) (k : nat) : option Qc :=
  match find (fun p => Nat.eqb (fst p) k) w with Some p => Some (snd p) | None => None end.
Definition weights_on (w : option (list (nat * Qc))) (lbls : list nat) : option (list (option Qc)) :=
  match w with None => None | Some l => Some (map (lookupw l) lbls) end.
Definition scalar_labelled (I : Qc) (aff : list nat) (w : option (list (nat * Qc))) : list nat * cres :=
  let a := dedup aff in (a, distribute_scalar I (length a) (weights_on w a)).
Definition regsec_labelled (I : Qc) (regs secs : list nat) (wr ws : option (list (nat * Qc)))
  : list (nat * nat) * cres :=
  let r := dedup regs in
  let s := dedup secs in
  (list_prod r s, distribute_regions_sectors I (length r) (length s) (weights_on wr r) (weights_on ws s)).
