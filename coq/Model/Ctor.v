(* Model/Ctor.v - building an event's per-industry impact from a scalar
   (Event.distribute_impact_industries, _level_distrib, _distribute_impact,
   _from_scalar_regions_sectors, _from_series; boario/event.py:444-722).
   The affected set is a list of n positions (its labels are handled by the
   harness); a weight is None when the supplied Series does not cover the position. *)
Require Import Boario.Base.QcLib Boario.Base.Vec Boario.Model.RecoveryFns.
Open Scope Qc_scope.

Inductive cerr := NullImpact | EmptySelection | UncoveredIndex | NotNormalised | NegativeEntry | EmptyImpact.
Inductive cres := CErr (e : cerr) | COk (v : list Qc).

Definition sumq (l : list Qc) : Qc := fold_right Qcplus 0 l.
Definition is_none {A} (o : option A) : bool := match o with None => true | Some _ => false end.
Definition oget (o : option Qc) : Qc := match o with Some x => x | None => 0 end.

(* _level_distrib: weights restricted to the affected set, normalised by their sum *)
Definition level_distrib (n : nat) (ws : option (list (option Qc))) : cres :=
  match ws with
  | None => COk (repeat (1 / qnat n) n)
  | Some l =>
      if existsb is_none l then CErr UncoveredIndex
      else let w := map oget l in
           let s := sumq w in
           if Qceqb s 0 then CErr NotNormalised else COk (map (fun x => x / s) w)
  end.

(* distribute_impact_industries *)
Definition distribute_scalar (I : Qc) (n : nat) (ws : option (list (option Qc))) : cres :=
  if Qcleb I 0 then CErr NullImpact
  else if Nat.eqb n 0 then CErr EmptySelection
  else match level_distrib n ws with
       | CErr e => CErr e
       | COk d => COk (map (fun x => I * x) d)
       end.

(* regions x sectors: the industry weights are the outer product of the two
   normalised level distributions (regions major) *)
Definition outer (a b : list Qc) : list Qc := flat_map (fun x => map (fun y => x * y) b) a.
Definition distribute_regions_sectors (I : Qc) (nr ns : nat)
    (wr ws : option (list (option Qc))) : cres :=
  if Nat.eqb nr 0 || Nat.eqb ns 0 then CErr EmptySelection else
  match level_distrib nr wr, level_distrib ns ws with
  | CErr e, _ => CErr e
  | _, CErr e => CErr e
  | COk dr, COk ds => distribute_scalar I (nr * ns) (Some (map Some (outer dr ds)))
  end.

(* _from_series: zero entries are dropped, any remaining non-positive entry is rejected *)
Definition from_series (v : list Qc) : cres :=
  match v with
  | [] => CErr EmptyImpact
  | _ => let v' := filter (fun x => negb (Qceqb x 0)) v in
         if existsb (fun x => Qcleb x 0) v' then CErr NegativeEntry else COk v'
  end.
