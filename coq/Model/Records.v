(* Model/Records.v - the record arrays of a Simulation (boario/simulation.py,
   _init_records and the _write_* methods): one row per temporal unit, filled with a
   fill value at creation; step number i (clock t = i * dt) writes row t.  Whether an
   array lives in memory or in a file does not appear in the model: both are the same
   array (the guards of next_step test both containers, Gen/FactsRecords.v). *)
Require Import Boario.Base.QcLib Boario.Base.Vec Boario.Model.Econ Boario.Model.Events Boario.Model.Sim.

Section Rec.
Context {A : Type}.
(* None = the fill value (NaN, or -1 for limiting_inputs) *)
Definition rec_array := list (option A).
Definition fresh_array (n : nat) : rec_array := tab n (fun _ => None).
Definition write_row (t : nat) (v : A) (a : rec_array) : rec_array :=
  tab (length a) (fun k => if Nat.eqb k t then Some v else nth k a None).

(* what the loop does to one record: the i-th observation (if it carries a value for this
   record) is written at row i * dt *)
Fixpoint write_all (dt : nat) (i : nat) (vals : list (option A)) (a : rec_array) : rec_array :=
  match vals with
  | [] => a
  | None :: r => write_all dt (S i) r a
  | Some v :: r => write_all dt (S i) r (write_row (i * dt) v a)
  end.
Definition recorded (n dt : nat) (vals : list (option A)) : rec_array :=
  write_all dt 0 vals (fresh_array n).
End Rec.

(* the eleven records as projections of the observation of a step *)
Definition rec_production (o : obs) : option vec := Some (o_prod o).
Definition rec_capacity (o : obs) : option vec := Some (o_cap o).
Definition rec_overproduction (o : obs) : option vec := Some (o_alpha o).
Definition rec_final_demand (o : obs) : option vec := Some (o_fd o).
Definition rec_intermediate_demand (o : obs) : option vec := Some (o_io o).
Definition rec_rebuild_demand (o : obs) : option vec := Some (o_rebdem o).
Definition rec_capital_to_recover (o : obs) : option vec := Some (o_klost o).
Definition rec_unmet (o : obs) : option vec := o_unmet o.
Definition rec_rebuild_prod (o : obs) : option vec := o_rprod o.
Definition rec_stocks (o : obs) : option mat := Some (o_stocks o).
Definition rec_limiting (o : obs) : option (list (list bool)) := Some (o_limiting o).
