(* Model/Sim.v - Simulation.next_step / loop as a composition of the phases
   (boario/simulation.py:328-570), and what each record row observes.
   Definitions only. *)
Require Import Boario.Base.QcLib Boario.Base.Vec Boario.Model.Econ Boario.Model.Events.
Open Scope Qc_scope.

Record econ := {
  alpha : vec;                (* N *)
  stock : mat;                (* nS x N ; rows of infinite inputs unused *)
  dem : mat;                  (* N x WW P nE : [orders | final | rebuilding] *)
  nE : nat;                   (* _n_rebuilding_events *)
  prod : vec;                 (* N *)
  delta : vec;                (* N : prod_cap_delta_tot *)
  klost : vec;                (* N : productive_capital_lost *)
  unmetv : vec;               (* N *)
  rprod : mat                 (* N x nE*(N+F) *)
}.

Record sim := {
  eco : econ;
  trs : list tracker;
  now : nat                   (* current_temporal_unit *)
}.

(* static environment of a run *)
Record env := {
  P : params;
  dt : nat;                   (* n_temporal_units_by_step (positive integer) *)
  prec : Z                    (* ledger rounding precision: int(log10(monetary_factor)) + 1 *)
}.

Inductive err := CapitalExceeded | NegativeCapacity | NegativeOrders | NoRebuildId.
Inductive outcome :=
| Ok (s : sim)
| Crash (s : sim)             (* next_step returned 1 *)
| Error (e : err) (s : sim).  (* next_step raised *)

(* the rows a step writes (record name -> value); rows after the distribution
   are absent when the step crashed *)
Record obs := {
  o_stocks : mat; o_alpha : vec; o_rebdem : vec; o_fd : vec; o_io : vec;
  o_limiting : list (list bool); o_prod : vec; o_cap : vec; o_klost : vec;
  o_unmet : option vec; o_rprod : option vec
}.

Definition dtq (e : env) : Qc := Qc_of_Z (Z.of_nat (dt e)).

Section Step.
Variable e : env.
Let Pm := P e.
Let N := NN Pm.
Let F := FF Pm.

Definition dtot_of (E : nat) (d : mat) : vec := tab N (fun f => rowtot (WW Pm E) d f).

(* phase E : events *)
Definition events_phase (s : sim) : option (sim * bool) :=
  let t := now s in
  let ec := eco s in
  let trs1 := map (activate (dt e) t) (trs s) in
  let '(trs2, E2) := start t trs1 (nE ec) in
  let kl := klost_of N trs2 in
  if capital_exceeded Pm kl then None else
  let ar := arb_of N trs2 in
  let resized := negb (Nat.eqb E2 (nE ec)) in
  let d2 := dem_events Pm (dtq e) resized E2 trs2 (dem ec) in
  Some ({| eco := {| alpha := alpha ec; stock := stock ec; dem := d2; nE := E2; prod := prod ec;
                     delta := delta_of Pm kl ar; klost := kl; unmetv := unmetv ec; rprod := rprod ec |};
           trs := trs2; now := t |}, resized).

(* set the intermediate block of the demand matrix *)
Definition set_orders (E : nat) (d o : mat) : mat :=
  tab2 N (WW Pm E) (fun f j => if Nat.ltb j N then get o f j else get d f j).
(* subtract the deliveries from the rebuilding block *)
Definition sub_rebuild (E : nat) (d del : mat) : mat :=
  tab2 N (WW Pm E) (fun f j => if Nat.ltb j (N + F) then get d f j else get d f j - get del f j).
Definition blocksum (d : mat) (f lo n : nat) : Qc := sumn n (fun j => get d f (lo + j)).

Definition step (s : sim) : outcome * option obs :=
  match events_phase s with
  | None => (Error CapitalExceeded s, None)
  | Some (s1, _) =>
    let t := now s1 in
    let ec := eco s1 in
    let E := nE ec in
    let W := WW Pm E in
    let d1 := dem ec in
    (* 0) overproduction, only after the first two steps *)
    let a1 := if Nat.ltb 1 t then overprod Pm (alpha ec) (dtot_of E d1) (prod ec) else alpha ec in
    (* 1) production *)
    let dtot := dtot_of E d1 in
    let capv := cap Pm a1 (delta ec) in
    if cap_negative Pm capv then (Error NegativeCapacity s1, None) else
    let optv := opt Pm dtot capv in
    let x := production Pm (stock ec) optv in
    let lim := limiting Pm (stock ec) optv in
    let o := {| o_stocks := stock ec; o_alpha := a1;
                o_rebdem := tab N (fun f => blocksum d1 f (N + F) (W - N - F));
                o_fd := tab N (fun f => blocksum d1 f N F);
                o_io := tab N (fun f => blocksum d1 f 0 N);
                o_limiting := lim; o_prod := x; o_cap := capv; o_klost := klost ec;
                o_unmet := None; o_rprod := None |} in
    (* 2) distribution *)
    let del := deliver Pm W d1 x in
    let use := stock_use Pm x in
    let add := stock_add Pm del in
    let mk st' d' u r trs' := {| eco := {| alpha := a1; stock := st'; dem := d'; nE := nE ec; prod := x;
                                          delta := delta ec; klost := klost ec; unmetv := u; rprod := r |};
                                 trs := trs'; now := t |} in
    if distribute_crash Pm (stock ec) add use
    then (Crash (mk (stock_update Pm (stock ec) add use) d1 (unmetv ec) (rprod ec) (trs s1)), Some o)
    else
    let st2 := stock_update Pm (stock ec) add use in
    let u := unmet Pm d1 del in
    let rp := rebuild_prod Pm W del in
    let d2 := sub_rebuild E d1 del in
    let o2 := {| o_stocks := o_stocks o; o_alpha := o_alpha o; o_rebdem := o_rebdem o; o_fd := o_fd o;
                 o_io := o_io o; o_limiting := lim; o_prod := x; o_cap := capv; o_klost := klost ec;
                 o_unmet := Some u;
                 o_rprod := Some (tab N (fun f => sumn (W - N - F) (fun j => get rp f j))) |} in
    (* L) ledgers *)
    if existsb (fun tr => is_rebuilding tr && match rid tr with None => true | Some _ => false end) (trs s1)
    then (Error NoRebuildId (mk st2 d2 u rp (trs s1)), Some o2) else
    let trs3 := rebuild_ledgers Pm (prec e) E rp (trs s1) in
    let nfin := (count_rebuilding (trs s1) - count_rebuilding trs3)%nat in
    let trs4 := if Nat.eqb nfin 0 then trs3 else compact_ids (trs s1) trs3 in
    let E' := (E - nfin)%nat in
    let d3 := if Nat.eqb nfin 0 then d2
              else tab2 N (WW Pm E') (fun f j =>
                     if Nat.ltb j (N + F) then get d2 f j
                     else moved_cell Pm E E' (kept_ids E trs3) d2 f (j - (N + F))) in
    let trs5 := recover_ledgers (prec e) t trs4 in
    (* 3) orders *)
    let optv' := opt Pm (dtot_of E' d3) capv in
    let ords := orders Pm st2 optv' x capv in
    if any_negative N N ords then (Error NegativeOrders (mk st2 d3 u rp trs5), Some o2) else
    (Ok {| eco := {| alpha := a1; stock := st2; dem := set_orders E' d3 ords; nE := E'; prod := x;
                     delta := delta ec; klost := klost ec; unmetv := u; rprod := rp |};
           trs := trs5; now := (t + dt e)%nat |}, Some o2)
  end.

(* loop: iterate [step] while it returns Ok; stop at the first Crash / Error *)
Fixpoint run (k : nat) (s : sim) : outcome * list obs :=
  match k with
  | O => (Ok s, [])
  | S k' =>
      match step s with
      | (Ok s', Some o) => let '(r, os) := run k' s' in (r, o :: os)
      | (Ok s', None) => run k' s'
      | (r, Some o) => (r, [o])
      | (r, None) => (r, [])
      end
  end.

(* Simulation.add_event / add_events between two steps: the trackers of the new events are
   appended in the order given; the economy, the clock and the trackers already registered
   are untouched *)
Definition register (s : sim) (new : list tracker) : sim :=
  {| eco := eco s; trs := trs s ++ new; now := now s |}.

(* a session: steps interleaved with registrations, stopping at the first Crash / Error *)
Inductive op := OStep | OAdd (new : list tracker).
Fixpoint session (ops : list op) (s : sim) : outcome :=
  match ops with
  | [] => Ok s
  | OStep :: r => match fst (step s) with Ok s' => session r s' | o => o end
  | OAdd new :: r => session r (register s new)
  end.

End Step.
