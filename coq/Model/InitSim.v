(* Model/InitSim.v - the initial simulation state (equilibrium) and validity of inputs. *)
Require Import Boario.Base.QcLib Boario.Base.Vec Boario.Model.Econ Boario.Model.Init
  Boario.Model.Events Boario.Model.Sim Boario.Model.RecoveryFns.
Open Scope Qc_scope.

Definition zeros (n : nat) : vec := tab n (fun _ => 0).

Definition init_eco (T : table) (C : config) : econ :=
  let N := (t_nR T * t_nS T)%nat in
  {| alpha := i_alpha0 T C; stock := i_stock0 T C; dem := i_dem0 T C; nE := 0%nat;
     prod := i_X0 T C; delta := zeros N; klost := zeros N; unmetv := zeros N;
     rprod := tab N (fun _ => []) |}.
Definition init_sim (T : table) (C : config) (l : list tracker) : sim :=
  {| eco := init_eco T C; trs := l; now := 0%nat |}.

(* a balanced, non-negative table whose technical coefficients are Z / x (0 where x = 0),
   as pymrio.calc_A gives, with non-negative value added *)
Record valid_table (T : table) : Prop := {
  vt_Z : forall i j, (i < t_nR T * t_nS T)%nat -> (j < t_nR T * t_nS T)%nat -> 0 <= get (t_Z T) i j;
  vt_Y : forall i c, (i < t_nR T * t_nS T)%nat -> (c < t_nR T * t_nC T)%nat -> 0 <= get (t_Y T) i c;
  vt_x : forall i, (i < t_nR T * t_nS T)%nat ->
           getv (t_x T) i = sumn (t_nR T * t_nS T) (fun j => get (t_Z T) i j)
                            + sumn (t_nR T * t_nC T) (fun c => get (t_Y T) i c);
  vt_A : forall i j, (i < t_nR T * t_nS T)%nat -> (j < t_nR T * t_nS T)%nat ->
           get (t_A T) i j = if Qceqb (getv (t_x T) j) 0 then 0 else get (t_Z T) i j / getv (t_x T) j;
  vt_VA : forall j, (j < t_nR T * t_nS T)%nat ->
           sumn (t_nR T * t_nS T) (fun i => get (t_Z T) i j) <= getv (t_x T) j
}.

(* the documented parameter domain *)
Record valid_cfg (T : table) (C : config) : Prop := {
  vc_dt : 0 < c_dt C;
  vc_year : 0 < c_year C;
  vc_inv : forall p d, nth p (c_inv C) None = Some d -> 0 < d;
  vc_psi : 0 <= c_psi C /\ c_psi C <= 1;
  vc_rest : forall p, (p < t_nS T)%nat -> 0 < nth p (c_rest_tau C) 1;
  vc_alpha : 1 <= c_a_base C /\ c_a_base C <= c_a_max C /\ 0 < c_a_tau C;
  vc_capital : match c_capital C with
               | CapDefault => True
               | CapRatio rs => forall p, 0 <= nth p rs 0
               | CapVector k => forall j, 0 <= getv k j
               end
}.
