(* Model/Econ.v - the economic phases of one BoARIO step, as total computable
   functions over exact rationals.  Definitions only (proofs live in Proofs/).

   Source anchors (boario/model_base.py, boario/extended_models.py):
     cap          production_cap                      model_base.py:579-601
     opt          production_opt                      model_base.py:874-881
     constraints  calc_inventory_constraints          model_base.py:945-968, extended_models.py:160-189
     production   calc_production                     model_base.py:894-943
     deliver ...  distribute_production               model_base.py:970-1093
     orders       calc_orders, calc_matrix_stock_gap  model_base.py:1095-1178, extended_models.py:191-193
     overprod     calc_overproduction                 model_base.py:1180-1202
   The base class is the psi class with psi = 1 and rho = 1 (C18 proves this is
   what the two Python classes compute). *)
Require Import Boario.Base.QcLib Boario.Base.Vec.
Open Scope Qc_scope.

Record params := {
  nR : nat; nS : nat; nC : nat;
  X0 : vec;                       (* N *)
  Z0 : mat;                       (* N x N, per step *)
  Y0 : mat;                       (* N x F, per step *)
  tech : mat;                     (* nS x N : I_sum . A *)
  invd : list (option Qc);        (* nS : inventory duration in steps; None = infinite *)
  psi : Qc;
  rho : list Qc;                  (* nS : dt / tau_inv (1 for the base class) *)
  alt : bool;                     (* order variant *)
  zdist : mat;                    (* N x N : Z / Z_C, x/0 := 0 *)
  mask : list (list bool);        (* nS x N : threshold_not_input *)
  a_base : Qc; a_max : Qc; a_rate : Qc;   (* a_rate = dt / tau_alpha *)
  K : vec                         (* N : productive capital *)
}.

Definition NN (P : params) : nat := nR P * nS P.
Definition FF (P : params) : nat := nR P * nC P.
(* width of the demand matrix with E rebuilding events *)
Definition WW (P : params) (E : nat) : nat := NN P + FF P + E * (NN P + FF P).

Definition isinf (P : params) (p : nat) : bool :=
  match nth p (invd P) None with None => true | Some _ => false end.
(* np.nan_to_num(inv_duration, posinf=0.) *)
Definition invq (P : params) (p : nat) : Qc :=
  match nth p (invd P) None with None => 0 | Some s => s end.

Definition atol : Qc := of_frac 1 100000000.     (* 1e-8, numpy.allclose default *)
Definition rtol : Qc := of_frac 1 100000.        (* 1e-5 *)
Definition close (a b : Qc) : bool := Qcleb (qabs (a - b)) (atol + rtol * qabs b).

Section Phases.
Variable P : params.
Let N := NN P.
Let F := FF P.

(* ---- capacity, optimal production ---- *)
Definition cap (alpha delta : vec) : vec :=
  tab N (fun f => getv (X0 P) f * (1 - getv delta f) * getv alpha f).
Definition cap_negative (capv : vec) : bool :=
  anyn N (fun f => Qcltb (getv capv f) 0).
Definition opt (dtot capv : vec) : vec :=
  tab N (fun f => qmin (getv dtot f) (getv capv f)).

(* ---- inventory constraints ---- *)
Definition constraints (xv : vec) : mat :=
  tab2 (nS P) N (fun p f => getv xv f * get (tech P) p f * psi P * invq P p).

(* ---- realised production ---- *)
Definition short_cell (stock cons : mat) (p f : nat) : bool :=
  getb (mask P) p f && negb (isinf P p) && Qcltb (get stock p f) (get cons p f).
Definition any_short (stock cons : mat) : bool :=
  anyn (nS P) (fun p => anyn N (fun f => short_cell stock cons p f)).
Definition ratio (stock cons : mat) (p f : nat) : Qc :=
  if getb (mask P) p f && negb (isinf P p) && negb (Qceqb (get cons p f) 0)
  then qmin 1 (get stock p f / get cons p f) else 1.
Definition prod_min (stock cons : mat) (optv : vec) (f : nat) : Qc :=
  minn (nS P) (fun p => getv optv f * ratio stock cons p f) (getv optv f).
Definition production (stock : mat) (optv : vec) : vec :=
  let cons := constraints optv in
  if any_short stock cons
  then tab N (fun f => prod_min stock cons optv f)
  else optv.
Definition limiting (stock : mat) (optv : vec) : list (list bool) :=
  let cons := constraints optv in
  tab2 (nS P) N (fun p f => short_cell stock cons p f).

(* ---- distribution (proportional rationing) ---- *)
Definition rowtot (W : nat) (dem : mat) (f : nat) : Qc := sumn W (fun j => get dem f j).
Definition deliver (W : nat) (dem : mat) (prodv : vec) : mat :=
  tab N (fun f =>
    let t := rowtot W dem f in
    let x := getv prodv f in
    tab W (fun j => if Qceqb t 0 then 0 else get dem f j / t * x)).
Definition stock_use (prodv : vec) : mat :=
  tab2 (nS P) N (fun p f => getv prodv f * get (tech P) p f).
Definition stock_add (del : mat) : mat :=
  tab2 (nS P) N (fun p f => sumn (nR P) (fun r => get del (r * nS P + p) f)).
Definition add_use_close (add use : mat) : bool :=
  alln (nS P) (fun p => alln N (fun f => close (get add p f) (get use p f))).
Definition any_negative (n m : nat) (a : mat) : bool :=
  anyn n (fun i => anyn m (fun j => Qcltb (get a i j) 0)).
Definition stock_update (stock add use : mat) : mat :=
  if add_use_close add use then stock
  else tab2 (nS P) N (fun p f => get stock p f - get use p f + get add p f).
Definition stock_negative (stock : mat) : bool :=
  anyn (nS P) (fun p => negb (isinf P p) && anyn N (fun f => Qcltb (get stock p f) 0)).
(* the three RuntimeErrors of distribute_production => step returns 1 *)
Definition distribute_crash (stock add use : mat) : bool :=
  any_negative (nS P) N use || any_negative (nS P) N add ||
  (negb (add_use_close add use) && stock_negative (stock_update stock add use)).
Definition unmet (dem del : mat) : vec :=
  tab N (fun f => sumn F (fun c => get dem f (N + c) - get del f (N + c))).
Definition rebuild_prod (W : nat) (del : mat) : mat :=
  tab2 N (W - N - F) (fun f j => get del f (N + F + j)).

(* ---- orders ---- *)
Definition goal (optv : vec) (p f : nat) : Qc := getv optv f * get (tech P) p f * invq P p.
(* np.allclose over the inputs that have a (finite) goal: rows of infinite inventories are skipped *)
Definition goal_close (stock : mat) (optv : vec) : bool :=
  alln (nS P) (fun p => alln N (fun f =>
    if isinf P p then true
    else close (get stock p f) (goal optv p f))).
Definition gap (gc : bool) (stock : mat) (optv : vec) (p f : nat) : Qc :=
  if gc then 0
  else if isinf P p then 0
  else nth p (rho P) 0 * qpos (goal optv p f - get stock p f).
Definition need (gc : bool) (stock : mat) (optv prodv : vec) (p f : nat) : Qc :=
  gap gc stock optv p f + getv prodv f * get (tech P) p f.
Definition cap_ratio (capv : vec) (i : nat) : Qc :=
  if Qceqb (getv (X0 P) i) 0 then 1 else getv capv i / getv (X0 P) i.
Definition zprod (capv : vec) (i j : nat) : Qc := get (Z0 P) i j * cap_ratio capv i.
Definition zcprod (capv : vec) (p j : nat) : Qc :=
  sumn (nR P) (fun r => zprod capv (r * nS P + p) j).
Definition share_alt (capv : vec) (i j : nat) : Qc :=
  let c := zcprod capv (i mod nS P) j in
  if Qceqb c 0 then 0 else zprod capv i j / c.
Definition share (capv : vec) (i j : nat) : Qc :=
  if alt P then share_alt capv i j else get (zdist P) i j.
(* needs are computed once per (input, client) and then split among suppliers *)
Definition needs (stock : mat) (optv prodv : vec) : mat :=
  let gc := goal_close stock optv in
  tab2 (nS P) N (fun p f => need gc stock optv prodv p f).
Definition orders (stock : mat) (optv prodv capv : vec) : mat :=
  let nd := needs stock optv prodv in
  tab2 N N (fun i j => get nd (i mod nS P) j * share capv i j).

(* ---- overproduction ---- *)
Definition scarcity (dtot prodv : vec) (f : nat) : Qc :=
  if Qceqb (getv dtot f) 0 then 0 else (getv dtot f - getv prodv f) / getv dtot f.
Definition overprod1 (a z : Qc) : Qc :=
  let chg := (a_max P - a) * z * a_rate P
             + (if Qceqb z 0 then (a_base P - a) * a_rate P else 0) in
  qmin (a_max P) (qmax 1 (a + chg)).
Definition overprod (alpha dtot prodv : vec) : vec :=
  tab N (fun f => overprod1 (getv alpha f) (scarcity dtot prodv f)).

End Phases.
