(* Model/Ingest.v - canonicalisation of labelled inputs: every labelled datum
   (table axes, capital vector, dictionaries, impact series, shares, weights) is
   sorted by label before use (lexico_reindex, sort_index, sorted(dict)).
   Labels are modelled by their rank in the lexicographic order (a nat key). *)
Require Import Boario.Base.QcLib Boario.Base.Vec.
From Coq Require Import Permutation Sorting.Sorted.

Section Canon.
Context {A : Type}.
Fixpoint insert_k (k : nat) (v : A) (l : list (nat * A)) : list (nat * A) :=
  match l with
  | [] => [(k, v)]
  | (k', v') :: r => if Nat.leb k k' then (k, v) :: l else (k', v') :: insert_k k v r
  end.
Definition sort_k (l : list (nat * A)) : list (nat * A) :=
  fold_right (fun p acc => insert_k (fst p) (snd p) acc) [] l.
(* the values in label order *)
Definition canon (l : list (nat * A)) : list A := map snd (sort_k l).
End Canon.

(* a labelled matrix: rows keyed, each row a keyed list of cells *)
Definition canon_mat {A} (m : list (nat * list (nat * A))) : list (list A) :=
  map (fun r => canon r) (canon m).
