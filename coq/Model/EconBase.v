(* Model/EconBase.v - the two methods of ARIOBaseModel that ARIOPsiModel overrides
   (calc_inventory_constraints, calc_matrix_stock_gap), transcribed separately:
   no psi, no restoration time (boario/model_base.py:945-968, 1095-1138).
   C18 proves the psi-class phases with psi = 1 and rho = 1 are these. *)
Require Import Boario.Base.QcLib Boario.Base.Vec Boario.Model.Econ.
Open Scope Qc_scope.

Section Base.
Variable P : params.
Let N := NN P.

Definition constraints_base (xv : vec) : mat :=
  tab2 (nS P) N (fun p f => getv xv f * get (tech P) p f * invq P p).
Definition production_base (stock : mat) (optv : vec) : vec :=
  let cons := constraints_base optv in
  if any_short P stock cons
  then tab N (fun f => prod_min P stock cons optv f)
  else optv.
Definition gap_base (gc : bool) (stock : mat) (optv : vec) (p f : nat) : Qc :=
  if gc then 0
  else if isinf P p then 0
  else qpos (goal P optv p f - get stock p f).
Definition needs_base (stock : mat) (optv prodv : vec) : mat :=
  let gc := goal_close P stock optv in
  tab2 (nS P) N (fun p f => gap_base gc stock optv p f + getv prodv f * get (tech P) p f).
Definition orders_base (stock : mat) (optv prodv capv : vec) : mat :=
  let nd := needs_base stock optv prodv in
  tab2 N N (fun i j => get nd (i mod nS P) j * share P capv i j).
End Base.
