(* Model/Tracker.v - EventTracker.__init__ (boario/simulation.py): conversion of the
   event's impacts to the model's monetary unit and creation of the distributed
   reconstruction demand.  Definitions only. *)
Require Import Boario.Base.QcLib Boario.Base.Vec Boario.Model.Econ Boario.Model.Events.
Open Scope Qc_scope.

(* impact (event units, factor eps) -> model units (factor mu) *)
Definition conv (eps mu : Qc) (v : vec) : vec := map (fun x => x * (eps / mu)) v.

(* declared share of sector k (0 if it is not a rebuilding sector) *)
Definition share_of (shares : list (nat * Qc)) (k : nat) : Qc :=
  fold_right (fun p acc => if Nat.eqb (fst p) k then snd p + acc else acc) 0 shares.

Section Create.
Variables (nr ns : nat).
Let N := (nr * ns)%nat.
(* flows used as distribution key: Z (industries) or Y (households), yearly, sorted *)
Variable flows : mat.          (* N x W *)
Variable W : nat.

Definition colsec (k j : nat) : Qc := sumn nr (fun r => get flows (r * ns + k) j).
(* a rebuilding sector that supplies nothing to an affected client: the demand
   cannot be distributed (the constructor rejects the event) *)
Definition no_supplier (shares : list (nat * Qc)) (imp : vec) : bool :=
  existsb (fun p => anyn W (fun j => negb (Qceqb (getv imp j) 0) && Qceqb (colsec (fst p) j) 0)) shares.
(* remaining reconstruction demand at creation: (supplier industry, client) *)
Definition mk_rem (shares : list (nat * Qc)) (phi : Qc) (imp : vec) : option mat :=
  if no_supplier shares imp then None else
  Some (tab2 N W (fun i j =>
    let k := (i mod ns)%nat in
    let c := colsec k j in
    if Qceqb (getv imp j) 0 then 0
    else share_of shares k * getv imp j * phi * (get flows i j / c))).
End Create.
