(* Model/Events.v - event trackers: schedule, aggregation of capacity losses,
   reconstruction demand blocks, ledgers.  Mirrors Simulation._check_happening_events,
   update_*, rebuild_events, recover_events and EventTracker.receive_* / recover
   (boario/simulation.py).  Definitions only. *)
Require Import Boario.Base.QcLib Boario.Base.Vec Boario.Model.Econ.
Open Scope Qc_scope.

Inductive status := Pending | Happening | Rebuilding | Recovering | Finished.
Inductive ekind := KRebuild | KRecover | KArb.

Definition status_eqb (a b : status) : bool :=
  match a, b with
  | Pending, Pending | Happening, Happening | Rebuilding, Rebuilding
  | Recovering, Recovering | Finished, Finished => true
  | _, _ => false
  end.
Definition rank (s : status) : nat :=
  match s with Pending => 0 | Happening => 1 | Rebuilding => 2 | Recovering => 2 | Finished => 3 end.

Record tracker := {
  kind : ekind;
  occ : nat; dur : nat;              (* temporal units *)
  tau : Qc;                          (* KRebuild: rebuilding time in force (the event's) *)
  phi : Qc;                          (* KRebuild: rebuilding factor *)
  rf : nat -> vec -> vec;            (* recovery function: elapsed -> initial -> current *)
  dmg0 : option vec;                 (* N : initial destroyed capital, model units *)
  hdmg0 : option vec;                (* F : initial household damage *)
  arb0 : option vec;                 (* N : initial arbitrary capacity loss *)
  st : status;
  rid : option nat;
  dmg : option vec; hdmg : option vec; arb : option vec;     (* ledgers *)
  rem_i : option mat;                (* N x N remaining reconstruction demand (supplier, client) *)
  rem_h : option mat                 (* N x F *)
}.

Definition set_st (tr : tracker) (s : status) : tracker :=
  {| kind := kind tr; occ := occ tr; dur := dur tr; tau := tau tr; phi := phi tr; rf := rf tr;
     dmg0 := dmg0 tr; hdmg0 := hdmg0 tr; arb0 := arb0 tr; st := s; rid := rid tr;
     dmg := dmg tr; hdmg := hdmg tr; arb := arb tr; rem_i := rem_i tr; rem_h := rem_h tr |}.
Definition set_rid (tr : tracker) (r : option nat) : tracker :=
  {| kind := kind tr; occ := occ tr; dur := dur tr; tau := tau tr; phi := phi tr; rf := rf tr;
     dmg0 := dmg0 tr; hdmg0 := hdmg0 tr; arb0 := arb0 tr; st := st tr; rid := r;
     dmg := dmg tr; hdmg := hdmg tr; arb := arb tr; rem_i := rem_i tr; rem_h := rem_h tr |}.
Definition set_ledgers (tr : tracker) (d h a : option vec) (ri rh : option mat) : tracker :=
  {| kind := kind tr; occ := occ tr; dur := dur tr; tau := tau tr; phi := phi tr; rf := rf tr;
     dmg0 := dmg0 tr; hdmg0 := hdmg0 tr; arb0 := arb0 tr; st := st tr; rid := rid tr;
     dmg := d; hdmg := h; arb := a; rem_i := ri; rem_h := rh |}.

(* ------------------------------------------------------------------ *)
(* schedule *)

(* pending -> happening when  t - dt <= occ <= t *)
Definition activate (dt t : nat) (tr : tracker) : tracker :=
  match st tr with
  | Pending => if Nat.leb (t - dt) (occ tr) && Nat.leb (occ tr) t then set_st tr Happening else tr
  | _ => tr
  end.
(* happening -> rebuilding / recovering when  t >= occ + dur ; rebuilding events take the next id *)
Fixpoint start (t : nat) (trs : list tracker) (n : nat) : list tracker * nat :=
  match trs with
  | [] => ([], n)
  | tr :: rest =>
      match st tr with
      | Happening =>
          if Nat.leb (occ tr + dur tr) t then
            match kind tr with
            | KRebuild =>
                let '(rest', n') := start t rest (S n) in
                (set_rid (set_st tr Rebuilding) (Some n) :: rest', n')
            | _ =>
                let '(rest', n') := start t rest n in
                (set_st tr Recovering :: rest', n')
            end
          else let '(rest', n') := start t rest n in (tr :: rest', n')
      | _ => let '(rest', n') := start t rest n in (tr :: rest', n')
      end
  end.

(* ------------------------------------------------------------------ *)
(* aggregation of capacity losses *)

Definition active_capital (tr : tracker) : bool :=
  match st tr with Happening | Rebuilding | Recovering => true | _ => false end.
Definition active_arb (tr : tracker) : bool :=
  match st tr with Happening | Recovering => true | _ => false end.

Definition klost_of (N : nat) (trs : list tracker) : vec :=
  tab N (fun f => fold_right (fun tr acc =>
      match (if active_capital tr then dmg tr else None) with
      | Some v => getv v f + acc | None => acc end) 0 trs).
Definition arb_of (N : nat) (trs : list tracker) : vec :=
  tab N (fun f => fold_right (fun tr acc =>
      match (if active_arb tr then arb tr else None) with
      | Some v => qmax (getv v f) acc | None => acc end) 0 trs).
Definition capital_exceeded (P : params) (kl : vec) : bool :=
  anyn (NN P) (fun f => Qcltb (getv (K P) f) (getv kl f)).
Definition delta_of (P : params) (kl ar : vec) : vec :=
  tab (NN P) (fun f =>
    let dk := if Qceqb (getv (K P) f) 0 then 0 else getv kl f / getv (K P) f in
    qmax dk (getv ar f)).

(* ------------------------------------------------------------------ *)
(* reconstruction demand blocks *)

Definition any_rebuilding (trs : list tracker) : bool :=
  existsb (fun tr => status_eqb (st tr) Rebuilding) trs.

(* value presented in column j of the rebuilding part of the demand matrix
   (layout: E blocks of N industry columns, then E blocks of F household columns);
   a later tracker with the same id overwrites an earlier one, as the loop does *)
Definition reb_cell (P : params) (dtq : Qc) (E : nat) (trs : list tracker) (f j : nat) : Qc :=
  let N := NN P in let F := FF P in
  fold_left (fun acc tr =>
    match rid tr with
    | None => acc
    | Some id =>
        if Nat.ltb j (N * E) then
          if Nat.eqb (j / N) id then
            match rem_i tr with Some m => get m f (j mod N) * (dtq / tau tr) | None => acc end
          else acc
        else
          if Nat.eqb ((j - N * E) / F) id then
            match rem_h tr, hdmg tr with
            | Some m, Some _ => get m f ((j - N * E) mod F) * (dtq / tau tr)
            | _, _ => acc end
          else acc
    end) trs 0.

(* the demand matrix after the events phase: [orders | final] kept, rebuilding part rewritten *)
Definition dem_events (P : params) (dtq : Qc) (resized : bool) (E : nat)
    (trs : list tracker) (dem : mat) : mat :=
  let N := NN P in let F := FF P in
  if any_rebuilding trs then
    tab2 N (WW P E) (fun f j => if Nat.ltb j (N + F) then get dem f j
                                else reb_cell P dtq E trs f (j - (N + F)))
  else if resized then
    tab2 N (WW P E) (fun f j => if Nat.ltb j (N + F) then get dem f j else 0)
  else dem.

(* ------------------------------------------------------------------ *)
(* ledgers *)

Definition all_zero_v (v : vec) : bool := forallb (fun x => Qceqb x 0) v.
Definition all_zero_m (m : mat) : bool := forallb all_zero_v m.
Definition clip0 (x : Qc) : Qc := if Qcltb x 0 then 0 else x.

(* remaining' = max(0, round_p(remaining - delivered)) *)
Definition ledger_cell (prec : Z) (remaining delivered : Qc) : Qc :=
  clip0 (round_dec prec (remaining - delivered)).
Definition colsum (n m : nat) (a : mat) : vec := tab m (fun j => sumn n (fun i => get a i j)).

(* block of rebuild_prod credited to tracker id: industries [N*id, N*(id+1)),
   households [N*E + F*id, N*E + F*(id+1)) *)
Definition receive (P : params) (prec : Z) (E : nat) (rprod : mat) (tr : tracker) : tracker :=
  let N := NN P in let F := FF P in
  match rid tr with
  | None => tr
  | Some id =>
      let '(ri, d) :=
        match rem_i tr with
        | None => (None, dmg tr)
        | Some m =>
            let m' := tab2 N N (fun f j => ledger_cell prec (get m f j) (get rprod f (N * id + j))) in
            if all_zero_m m' then (None, None)
            else (Some m', Some (tab N (fun j => getv (colsum N N m') j / phi tr)))
        end in
      let '(rh, h) :=
        match rem_h tr with
        | None => (None, hdmg tr)
        | Some m =>
            let m' := tab2 N F (fun f j => ledger_cell prec (get m f j) (get rprod f (N * E + F * id + j))) in
            if all_zero_m m' then (None, None)
            else (Some m', Some (tab F (fun j => getv (colsum N F m') j / phi tr)))
        end in
      let tr' := set_ledgers tr d h (arb tr) ri rh in
      match d, h with
      | None, None => set_st tr' Finished
      | _, _ => tr'
      end
  end.

Definition is_rebuilding (tr : tracker) : bool := status_eqb (st tr) Rebuilding.

Definition rebuild_ledgers (P : params) (prec : Z) (E : nat) (rprod : mat) (trs : list tracker)
  : list tracker :=
  map (fun tr => if is_rebuilding tr then receive P prec E rprod tr else tr) trs.

(* ids of trackers that are still rebuilding are compacted (order preserved);
   every other tracker holds no id *)
Definition removed_below (old : list tracker) (new : list tracker) (id : nat) : nat :=
  length (filter (fun p => match rid (fst p) with
                           | Some k => Nat.ltb k id && is_rebuilding (fst p) && negb (is_rebuilding (snd p))
                           | None => false end) (combine old new)).
Definition compact_ids (old new : list tracker) : list tracker :=
  map (fun tr => if is_rebuilding tr
                 then match rid tr with
                      | Some id => set_rid tr (Some (Nat.sub id (removed_below old new id)))
                      | None => tr end
                 else set_rid tr None) new.
Definition count_rebuilding (trs : list tracker) : nat := length (filter is_rebuilding trs).

(* When events finish, the demand blocks of the events that keep rebuilding are carried
   over to their new positions.  [kept_ids E l]: the (old) ids still held by a rebuilding
   tracker of [l], ascending; the block with new id k comes from old id [nth k kept 0]. *)
Definition holds_id (l : list tracker) (i : nat) : bool :=
  existsb (fun tr => is_rebuilding tr && match rid tr with Some k => Nat.eqb k i | None => false end) l.
Definition kept_ids (E : nat) (l : list tracker) : list nat := filter (holds_id l) (seq 0 E).
(* column j of the rebuilding part of the new matrix (E' events) read from the old one (E events) *)
Definition moved_cell (P : params) (E E' : nat) (kept : list nat) (d : mat) (f j : nat) : Qc :=
  let N := NN P in let F := FF P in
  if Nat.ltb j (N * E') then get d f (N + F + N * nth (j / N) kept 0%nat + j mod N)
  else get d f (N + F + N * E + F * nth ((j - N * E') / F) kept 0%nat + (j - N * E') mod F).

(* recovery *)
Definition round_v (prec : Z) (v : vec) : option vec :=
  let v' := map (round_dec prec) v in if all_zero_v v' then None else Some v'.
Definition recover1 (prec : Z) (t : nat) (tr : tracker) : tracker :=
  let e := (t - (occ tr + dur tr))%nat in
  let d := match kind tr, dmg tr, dmg0 tr with
           | KRecover, Some _, Some i => round_v prec (rf tr e i)
           | _, x, _ => x end in
  let h := match kind tr, hdmg tr, hdmg0 tr with
           | KRecover, Some _, Some i => round_v prec (rf tr e i)
           | _, x, _ => x end in
  let a := match arb tr, arb0 tr with
           | Some _, Some i => round_v 6 (rf tr e i)
           | x, _ => x end in
  let tr' := set_ledgers tr d h a (rem_i tr) (rem_h tr) in
  match d, h, a with
  | None, None, None => set_st tr' Finished
  | _, _, _ => tr'
  end.
Definition recover_ledgers (prec : Z) (t : nat) (trs : list tracker) : list tracker :=
  map (fun tr => if status_eqb (st tr) Recovering then recover1 prec t tr else tr) trs.
