(* Model/Create.v - EventTracker.__init__ as a whole (boario/simulation.py): from the
   description of an event (as the user gave it, industries and households by position)
   to the tracker registered in the simulation.  Definitions only. *)
Require Import Boario.Base.QcLib Boario.Base.Vec Boario.Model.Econ Boario.Model.Events
  Boario.Model.Tracker.
Open Scope Qc_scope.

Record evspec := {
  v_kind : ekind;
  v_occ : nat; v_dur : nat;
  v_tau : Qc;                      (* rebuilding time in force (KRebuild) / recovery time *)
  v_phi : Qc;                      (* rebuilding factor (KRebuild) *)
  v_rf : nat -> vec -> vec;        (* recovery function (KRecover, KArb) *)
  v_eps : Qc;                      (* the event's monetary factor *)
  v_impact : vec;                  (* N : destroyed capital in event units; KArb: share of capacity lost *)
  v_house : option vec;            (* F : household damage in event units *)
  v_shares : list (nat * Qc)       (* KRebuild: (sector, share) of the rebuilding sectors *)
}.

Section CreateTracker.
Variables (nr ns nc : nat).
Variables (Zy Yy : mat).           (* the sorted yearly table *)
Variable mu : Qc.                  (* the model's monetary factor *)
Let N := (nr * ns)%nat.
Let F := (nr * nc)%nat.

Definition base_tracker (v : evspec) : tracker :=
  {| kind := v_kind v; occ := v_occ v; dur := v_dur v; tau := v_tau v; phi := v_phi v; rf := v_rf v;
     dmg0 := None; hdmg0 := None; arb0 := None; st := Pending; rid := None;
     dmg := None; hdmg := None; arb := None; rem_i := None; rem_h := None |}.

Definition with_damage (tr : tracker) (d : vec) (h : option vec) (ri rh : option mat) : tracker :=
  {| kind := kind tr; occ := occ tr; dur := dur tr; tau := tau tr; phi := phi tr; rf := rf tr;
     dmg0 := Some d; hdmg0 := h; arb0 := None; st := Pending; rid := None;
     dmg := Some d; hdmg := h; arb := None; rem_i := ri; rem_h := rh |}.

(* None: the constructor raises (a rebuilding sector supplies nothing to an affected client) *)
Definition create (v : evspec) : option tracker :=
  let b := base_tracker v in
  match v_kind v with
  | KArb =>
      Some {| kind := kind b; occ := occ b; dur := dur b; tau := tau b; phi := phi b; rf := rf b;
              dmg0 := None; hdmg0 := None; arb0 := Some (v_impact v); st := Pending; rid := None;
              dmg := None; hdmg := None; arb := Some (v_impact v); rem_i := None; rem_h := None |}
  | KRecover =>
      let d := conv (v_eps v) mu (v_impact v) in
      let h := match v_house v with Some x => Some (conv (v_eps v) mu x) | None => None end in
      Some (with_damage b d h None None)
  | KRebuild =>
      let d := conv (v_eps v) mu (v_impact v) in
      let h := match v_house v with Some x => Some (conv (v_eps v) mu x) | None => None end in
      match mk_rem nr ns Zy N (v_shares v) (v_phi v) d with
      | None => None
      | Some mi =>
          match h with
          | None => Some (with_damage b d None (Some mi) None)
          | Some hh =>
              match mk_rem nr ns Yy F (v_shares v) (v_phi v) hh with
              | None => None
              | Some mh => Some (with_damage b d (Some hh) (Some mi) (Some mh))
              end
          end
      end
  end.

(* Simulation(model, events_list=...) / add_events: all or nothing, in the order given *)
Fixpoint create_all (l : list evspec) : option (list tracker) :=
  match l with
  | [] => Some []
  | v :: r => match create v, create_all r with
              | Some t, Some ts => Some (t :: ts)
              | _, _ => None
              end
  end.
End CreateTracker.
