(* Gen/FactsLayout.v - theorems over the slice expressions regenerated from the
   source (Gen/Facts.v): the blocks written for event id < E and the blocks read
   back for the same id coincide, are disjoint for distinct ids, lie inside the
   allocated width, and equal the canonical layout the hand-written model uses
   (Events.reb_cell, Events.receive, Econ.unmet, Econ.rebuild_prod). All sizes. *)
From Coq Require Import List String Arith Lia.
Require Import Boario.Gen.Facts.
Open Scope nat_scope.

Theorem layout_extracted : layout_extraction_ok = true.
Proof. reflexivity. Qed.

Section Layout.
Variables nR nS nC E id : nat.
Let N := nR * nS.
Let F := nR * nC.

Theorem getters_canonical :
  g_intermediate_lo nR nS nC E id = 0 /\ g_intermediate_hi nR nS nC E id = Some N /\
  g_final_lo nR nS nC E id = N /\ g_final_hi nR nS nC E id = Some (N + F) /\
  g_rebuild_lo nR nS nC E id = N + F /\ g_rebuild_hi nR nS nC E id = None /\
  g_rebuild_indus_lo nR nS nC E id = N + F /\ g_rebuild_indus_hi nR nS nC E id = Some (N + F + N * E) /\
  g_rebuild_house_lo nR nS nC E id = N + F + N * E /\ g_rebuild_house_hi nR nS nC E id = None.
Proof.
  unfold g_intermediate_lo, g_intermediate_hi, g_final_lo, g_final_hi, g_rebuild_lo, g_rebuild_hi,
    g_rebuild_indus_lo, g_rebuild_indus_hi, g_rebuild_house_lo, g_rebuild_house_hi, N, F.
  repeat split; try reflexivity; try (f_equal; lia).
Qed.

Theorem deliveries_canonical :
  d_intermediate_lo nR nS nC E id = 0 /\ d_intermediate_hi nR nS nC E id = Some N /\
  d_final_lo nR nS nC E id = N /\ d_final_hi nR nS nC E id = Some (N + F) /\
  d_rebuild_lo nR nS nC E id = N + F /\ d_rebuild_hi nR nS nC E id = None.
Proof.
  unfold d_intermediate_lo, d_intermediate_hi, d_final_lo, d_final_hi, d_rebuild_lo, d_rebuild_hi, N, F.
  repeat split; try reflexivity; try (f_equal; lia); lia.
Qed.

(* written block (relative to the rebuilding part) = canonical = block read back *)
Theorem indus_block_written_is_read :
  w_indus_lo nR nS nC E id = N * id /\ w_indus_hi nR nS nC E id = Some (N * (id + 1)) /\
  g_rprod_indus_lo nR nS nC E id + g_rprod_indus_event_lo nR nS nC E id = N * id /\
  g_rprod_indus_event_hi nR nS nC E id = Some (N * (id + 1)).
Proof.
  unfold w_indus_lo, w_indus_hi, g_rprod_indus_lo, g_rprod_indus_event_lo, g_rprod_indus_event_hi, N.
  repeat split; try reflexivity; try (f_equal; lia).
Qed.

Theorem house_block_written_is_read :
  w_house_lo nR nS nC E id = N * E + F * id /\
  w_house_hi nR nS nC E id = Some (N * E + F * (id + 1)) /\
  g_rprod_house_lo nR nS nC E id + g_rprod_house_event_lo nR nS nC E id = N * E + F * id /\
  g_rprod_house_lo nR nS nC E id = N * E /\
  g_rprod_house_event_hi nR nS nC E id = Some (F * (id + 1)).
Proof.
  unfold w_house_lo, w_house_hi, g_rprod_house_lo, g_rprod_house_event_lo, g_rprod_house_event_hi, N, F.
  repeat split; try reflexivity; try (f_equal; lia); lia.
Qed.

Theorem blocks_in_range :
  id < E ->
  N * (id + 1) <= N * E /\ N * E + F * (id + 1) <= upd_width nR nS nC E id /\
  chg_width nR nS nC E id = N + F + upd_width nR nS nC E id /\
  upd_width nR nS nC E id = E * (N + F).
Proof.
  unfold upd_width, chg_width, N, F. intro H. repeat split; nia.
Qed.

Theorem blocks_disjoint : forall id', id < id' ->
  N * (id + 1) <= N * id' /\ N * E + F * (id + 1) <= N * E + F * id'.
Proof. intros id' H. unfold N, F. split; nia. Qed.
End Layout.
