(* Gen/FactsArb.v - the arbitrary capacity loss is installed through the setter
   that recomputes the total capacity loss (so it is in force in the same step). *)
From Coq Require Import List String.
Require Import Boario.Gen.Facts.
Import ListNotations.
Open Scope string_scope.
Theorem arbitrary_loss_goes_through_setter :
  consts_extraction_ok = true /\ arb_update_targets = ["model.prod_cap_delta_arbitrary"].
Proof. split; reflexivity. Qed.
