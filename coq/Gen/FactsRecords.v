(* Gen/FactsRecords.v - the record-writing table of next_step regenerated from
   the source: every guard tests the same array name in both containers, its
   writer stores that array at row current_temporal_unit from the model attribute
   the hand-written Sim.obs reads, and every possible record has a guarded writer. *)
From Coq Require Import List String Arith Bool.
Require Import Boario.Gen.Facts.
Import ListNotations.
Open Scope string_scope.

Theorem records_extracted : records_extraction_ok = true.
Proof. reflexivity. Qed.

Theorem guards_test_one_name_in_both_containers :
  forallb (fun g => match g with (a, b, c, d, _) =>
     String.eqb a c && String.eqb b "self._files_to_record" && String.eqb d "self._vars_to_record" end)
    record_guards = true.
Proof. vm_compute. reflexivity. Qed.

Theorem guard_writer_writes_that_array_at_current_row :
  forallb (fun g => match g with (a, _, _, _, w) =>
     existsb (fun wr => match wr with (w', arr, idx, _) =>
        String.eqb w w' && String.eqb arr a && String.eqb idx "current_temporal_unit" end) record_writers end)
    record_guards = true.
Proof. vm_compute. reflexivity. Qed.

Theorem every_record_has_a_guarded_writer :
  possible_records = map (fun s => match s with (r, _, _, _, _) => r end) record_specs /\
  forallb (fun s => match s with (_, _, attr, _, _) =>
     existsb (fun g => match g with (a, _, _, _, _) => String.eqb a attr end) record_guards end)
    record_specs = true /\
  List.length record_guards = List.length record_specs.
Proof. repeat split; vm_compute; reflexivity. Qed.

(* the model attribute each writer stores (what Sim.obs observes) *)
Definition expected_sources : list (string * string) := [
  ("_write_final_demand", "model.final_demand_tot");
  ("_write_final_demand_unmet", "model.final_demand_not_met");
  ("_write_io_demand", "model.intermediate_demand_tot");
  ("_write_limiting_stocks", "limiting_stock");
  ("_write_overproduction", "model.overprod");
  ("_write_production", "model.production");
  ("_write_production_max", "model.production_cap");
  ("_write_productive_capital_lost", "model.productive_capital_lost");
  ("_write_rebuild_demand", "r_dem");
  ("_write_rebuild_prod", "model.rebuild_prod_tot");
  ("_write_stocks", "model.inputs_stock") ].
Theorem writers_store_the_observed_attribute :
  map (fun wr => match wr with (w, _, _, v) => (w, v) end) record_writers = expected_sources.
Proof. vm_compute. reflexivity. Qed.

Theorem fill_values :
  forallb (fun s => match s with (r, dt, _, _, fill) =>
     if String.eqb r "limiting_inputs" then String.eqb dt "byte" && String.eqb fill "-1"
     else String.eqb dt "float64" && String.eqb fill "np.nan" end) record_specs = true.
Proof. vm_compute. reflexivity. Qed.
