(* Gen/FactsCtor.v - the horizon is known before events passed at construction are checked
   (Simulation.__init__ sets n_temporal_units_to_sim before add_events). *)
From Coq Require Import List String.
Require Import Boario.Gen.Facts.
Import ListNotations.
Open Scope string_scope.
Theorem horizon_set_before_events_are_added :
  consts_extraction_ok = true /\ ctor_order = ["set_horizon"; "add_events"].
Proof. split; reflexivity. Qed.
