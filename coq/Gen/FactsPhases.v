(* Gen/FactsPhases.v - the phase order of next_step regenerated from the source
   equals the composition Model/Sim.v's [step] implements. *)
From Coq Require Import List String.
Require Import Boario.Gen.Facts.
Import ListNotations.
Open Scope string_scope.

Theorem phases_extracted : phases_extraction_ok = true.
Proof. reflexivity. Qed.
Theorem phase_order :
  phase_calls = ["_check_happening_events"; "model.calc_overproduction"; "model.calc_production";
                 "model.distribute_production"; "rebuild_events"; "recover_events"; "model.calc_orders"].
Proof. reflexivity. Qed.
Theorem overproduction_guard : overprod_guard = "current_temporal_unit > 1".
Proof. reflexivity. Qed.
Theorem crash_region_is_distribution_and_ledgers :
  crash_region = ["model.distribute_production"; "rebuild_events"; "recover_events"].
Proof. reflexivity. Qed.
Theorem clock : clock_increment = "model.n_temporal_units_by_step".
Proof. reflexivity. Qed.
