(* Gen/FactsDivide.v - _divide_arrays_ignore applies the documented convention
   x/0 := 0 (the result of nan_to_num is the value returned). *)
From Coq Require Import String.
Require Import Boario.Gen.Facts.
Theorem division_convention_applied :
  consts_extraction_ok = true /\ divide_uses_nan_to_num = true.
Proof. split; reflexivity. Qed.
