(* Gen/FactsDefaults.v - default arguments of Simulation.__init__ are not evaluated
   once at import (a call expression as default is shared by every instance), and
   the horizon is known before events passed at construction are checked. *)
From Coq Require Import List String Bool.
Require Import Boario.Gen.Facts.
Import ListNotations.
Open Scope string_scope.
Definition is_call (k : string) : bool := String.prefix "call:" k.
Theorem no_default_evaluated_at_import :
  consts_extraction_ok = true /\
  forallb (fun a => negb (is_call (snd a))) sim_default_args = true.
Proof. split; vm_compute; reflexivity. Qed.
Theorem fresh_directory_per_instance : sim_init_makes_fresh_dir = true.
Proof. reflexivity. Qed.
