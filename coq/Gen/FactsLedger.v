(* Gen/FactsLedger.v - the rounding quantum of every ledger depends on the model's
   monetary unit only (C13, C08, C09). *)
From Coq Require Import List String.
Require Import Boario.Gen.Facts.
Import ListNotations.
Open Scope string_scope.
Theorem ledger_precision_reads_the_model_factor :
  consts_extraction_ok = true /\
  ledger_precision =
    [("receive_indus_rebuilding", "int(math.log10(sim.model.monetary_factor)) + 1");
     ("receive_house_rebuilding", "int(math.log10(sim.model.monetary_factor)) + 1");
     ("recover", "int(math.log10(sim.model.monetary_factor)) + 1")].
Proof. split; reflexivity. Qed.
