(* Gen/FactsConsts.v - constants and class structure regenerated from the source. *)
From Coq Require Import List String.
Require Import Boario.Gen.Facts.
Import ListNotations.
Open Scope string_scope.
Theorem consts_extracted : consts_extraction_ok = true.
Proof. reflexivity. Qed.
Theorem thresholds : const_TECHNOLOGY_THRESHOLD = "1e-05" /\ const_INV_THRESHOLD = "0".
Proof. split; reflexivity. Qed.
(* ARIOPsiModel differs from the base class only by the inventory-constraint rule
   and the stock-gap rule (calc_production merely delegates) *)
Theorem psi_class_overrides :
  psi_overrides = ["__init__"; "calc_inventory_constraints"; "calc_matrix_stock_gap"; "calc_production";
                   "inventory_constraints_act"; "inventory_constraints_opt"] /\
  psi_calc_production_delegates = true.
Proof. split; reflexivity. Qed.
Theorem arbitrary_rounding : arbitrary_round_decimals = ["6"].
Proof. reflexivity. Qed.
