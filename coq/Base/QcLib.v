(* Base/QcLib.v - canonical rationals: bridge to Q for order reasoning,
   min/max/abs, rounding.  No axioms. *)
From Coq Require Export QArith Qcanon ZArith List Bool Lia Lqa.
From Coq Require Import Qround Qabs.
Export ListNotations.
Open Scope Qc_scope.

(* ------------------------------------------------------------------ *)
(* Bridge: [this] is a ring/field morphism up to Qeq. *)

Lemma this_plus a b : (this (a + b) == this a + this b)%Q.
Proof. unfold Qcplus, Q2Qc; cbn [this]; apply Qred_correct. Qed.
Lemma this_mult a b : (this (a * b) == this a * this b)%Q.
Proof. unfold Qcmult, Q2Qc; cbn [this]; apply Qred_correct. Qed.
Lemma this_opp a : (this (- a) == - this a)%Q.
Proof. unfold Qcopp, Q2Qc; cbn [this]; apply Qred_correct. Qed.
Lemma this_minus a b : (this (a - b) == this a - this b)%Q.
Proof. unfold Qcminus. rewrite this_plus, this_opp. reflexivity. Qed.
Lemma this_inv a : (this (/ a) == / this a)%Q.
Proof. unfold Qcinv, Q2Qc; cbn [this]; apply Qred_correct. Qed.
Lemma this_div a b : (this (a / b) == this a / this b)%Q.
Proof. unfold Qcdiv. rewrite this_mult, this_inv. reflexivity. Qed.
Lemma this_0 : (this 0 == 0)%Q. Proof. reflexivity. Qed.
Lemma this_1 : (this 1 == 1)%Q. Proof. reflexivity. Qed.

Lemma Qc_eq_this a b : a = b <-> (this a == this b)%Q.
Proof. split; [intros ->; reflexivity | apply Qc_is_canon]. Qed.
Lemma Qc_le_this a b : a <= b <-> (this a <= this b)%Q.
Proof. reflexivity. Qed.
Lemma Qc_lt_this a b : a < b <-> (this a < this b)%Q.
Proof. reflexivity. Qed.
Lemma Qc_neq_this a b : a <> b <-> ~ (this a == this b)%Q.
Proof. rewrite Qc_eq_this. reflexivity. Qed.

Lemma this_Q2Qc q : (this (Q2Qc q) == q)%Q.
Proof. unfold Q2Qc; cbn [this]; apply Qred_correct. Qed.

(* Push [this] through the arithmetic of the goal and of every hypothesis, so
   that [lra]/[nra] (over Q) can finish. *)
Ltac qc_norm_hyp H :=
  repeat first [ rewrite this_plus in H | rewrite this_minus in H | rewrite this_mult in H
               | rewrite this_opp in H | rewrite this_div in H | rewrite this_inv in H
               | rewrite this_Q2Qc in H ].
Ltac qc_norm_goal :=
  repeat first [ rewrite this_plus | rewrite this_minus | rewrite this_mult
               | rewrite this_opp | rewrite this_div | rewrite this_inv
               | rewrite this_Q2Qc ].
Ltac qc2q :=
  unfold Qcle, Qclt in *;
  repeat match goal with
  | H : @eq Qc _ _ |- _ => apply Qc_eq_this in H
  | H : ~ (@eq Qc _ _) |- _ => apply Qc_neq_this in H
  | |- @eq Qc _ _ => apply Qc_eq_this
  | |- ~ (@eq Qc _ _) => apply Qc_neq_this
  end;
  repeat match goal with
  | H : context [this] |- _ => progress (qc_norm_hyp H)
  end;
  qc_norm_goal.

(* ------------------------------------------------------------------ *)
(* Decidable comparisons as booleans. *)

Definition Qcleb (a b : Qc) : bool := Qle_bool (this a) (this b).
Definition Qcltb (a b : Qc) : bool := negb (Qle_bool (this b) (this a)).
Definition Qceqb (a b : Qc) : bool := Qeq_bool (this a) (this b).

Lemma Qcleb_spec a b : reflect (a <= b) (Qcleb a b).
Proof.
  unfold Qcleb. destruct (Qle_bool (this a) (this b)) eqn:E; constructor.
  - apply Qle_bool_iff in E. exact E.
  - intro H. apply Qle_bool_iff in H. congruence.
Qed.
Lemma Qcltb_spec a b : reflect (a < b) (Qcltb a b).
Proof.
  unfold Qcltb. destruct (Qle_bool (this b) (this a)) eqn:E; cbn; constructor.
  - apply Qle_bool_iff in E. apply Qle_not_lt. exact E.
  - apply Qnot_le_lt. intro H. apply Qle_bool_iff in H. congruence.
Qed.
Lemma Qceqb_spec a b : reflect (a = b) (Qceqb a b).
Proof.
  unfold Qceqb. destruct (Qeq_bool (this a) (this b)) eqn:E; constructor.
  - apply Qeq_bool_iff in E. apply Qc_is_canon. exact E.
  - intro H. subst. rewrite (proj2 (Qeq_bool_iff _ _)) in E; [discriminate|reflexivity].
Qed.

Definition qmin (a b : Qc) : Qc := if Qcleb a b then a else b.
Definition qmax (a b : Qc) : Qc := if Qcleb a b then b else a.
Definition qabs (a : Qc) : Qc := if Qcleb 0 a then a else - a.
Definition qpos (a : Qc) : Qc := qmax 0 a.        (* positive part *)

Lemma qmin_l a b : qmin a b <= a.
Proof. unfold qmin. destruct (Qcleb_spec a b) as [H|H]; [apply Qcle_refl|].
  apply Qcnot_le_lt in H. apply Qclt_le_weak. exact H. Qed.
Lemma qmin_r a b : qmin a b <= b.
Proof. unfold qmin. destruct (Qcleb_spec a b) as [H|H]; [exact H|apply Qcle_refl]. Qed.
Lemma qmin_glb a b c : c <= a -> c <= b -> c <= qmin a b.
Proof. unfold qmin. destruct (Qcleb a b); auto. Qed.
Lemma qmin_cases a b : qmin a b = a \/ qmin a b = b.
Proof. unfold qmin. destruct (Qcleb a b); auto. Qed.
Lemma qmin_le_l a b : a <= b -> qmin a b = a.
Proof. unfold qmin. destruct (Qcleb_spec a b); tauto. Qed.
Lemma qmin_le_r a b : b <= a -> qmin a b = b.
Proof. unfold qmin. destruct (Qcleb_spec a b) as [H|H]; [|reflexivity].
  intro H'. apply Qcle_antisym; assumption. Qed.
Lemma qmax_l a b : a <= qmax a b.
Proof. unfold qmax. destruct (Qcleb_spec a b) as [H|H]; [exact H|apply Qcle_refl]. Qed.
Lemma qmax_r a b : b <= qmax a b.
Proof. unfold qmax. destruct (Qcleb_spec a b) as [H|H]; [apply Qcle_refl|].
  apply Qcnot_le_lt in H. apply Qclt_le_weak. exact H. Qed.
Lemma qmax_lub a b c : a <= c -> b <= c -> qmax a b <= c.
Proof. unfold qmax. destruct (Qcleb a b); auto. Qed.
Lemma qmax_cases a b : qmax a b = a \/ qmax a b = b.
Proof. unfold qmax. destruct (Qcleb a b); auto. Qed.
Lemma qabs_nonneg a : 0 <= qabs a.
Proof. unfold qabs. destruct (Qcleb_spec 0 a) as [H|H]; [exact H|].
  apply Qcnot_le_lt in H. qc2q. lra. Qed.
Lemma qpos_nonneg a : 0 <= qpos a.
Proof. apply qmax_l. Qed.

(* ------------------------------------------------------------------ *)
(* Handy order facts (closed by translation to Q). *)

Lemma Qc_mul_nonneg a b : 0 <= a -> 0 <= b -> 0 <= a * b.
Proof. intros Ha Hb. qc2q. nra. Qed.
Lemma Qc_add_nonneg a b : 0 <= a -> 0 <= b -> 0 <= a + b.
Proof. intros Ha Hb. qc2q. lra. Qed.
Lemma Qc_inv_pos a : 0 < a -> 0 < / a.
Proof. intro H. unfold Qclt. rewrite this_inv. apply Qinv_lt_0_compat. exact H. Qed.
Lemma Qc_inv_nonneg a : 0 <= a -> 0 <= / a.
Proof. intro H. unfold Qcle. rewrite this_inv. apply Qinv_le_0_compat. exact H. Qed.
Lemma Qc_div_nonneg a b : 0 <= a -> 0 <= b -> 0 <= a / b.
Proof. intros Ha Hb. unfold Qcdiv. apply Qc_mul_nonneg; [exact Ha|apply Qc_inv_nonneg; exact Hb]. Qed.
Lemma Qc_pos_neq0 a : 0 < a -> a <> 0.
Proof. intros H E. subst. revert H. apply Qlt_irrefl. Qed.
Lemma Qc_div_le_1 a b : 0 <= a -> a <= b -> 0 < b -> a / b <= 1.
Proof.
  intros Ha Hab Hb. unfold Qcdiv.
  assert (Hi : 0 < / b) by (apply Qc_inv_pos; exact Hb).
  assert (E : b * / b = 1) by (apply Qcmult_inv_r, Qc_pos_neq0; exact Hb).
  set (i := / b) in *. clearbody i. qc2q. nra.
Qed.

(* ------------------------------------------------------------------ *)
(* Numerals used by the models: dyadic (mantissa * 2^exponent) and decimal. *)

Definition Qc_of_Z (z : Z) : Qc := Q2Qc (inject_Z z).
Definition pow2 (e : Z) : Qc :=
  match e with
  | Z0 => 1
  | Zpos p => Q2Qc (inject_Z (Z.pow_pos 2 p))
  | Zneg p => Q2Qc (1 # (Pos.pow 2 p))
  end.
(* exact value of a binary64 number given as integer mantissa and exponent *)
Definition of_me (m e : Z) : Qc := Qc_of_Z m * pow2 e.
Definition of_frac (n : Z) (d : positive) : Qc := Q2Qc (n # d).

(* round half to even to a multiple of 10^-d (d may be negative),
   as numpy.round / DataFrame.round do on the real value *)
Definition pow10 (d : Z) : Qc :=
  match d with
  | Z0 => 1
  | Zpos p => Q2Qc (inject_Z (Z.pow_pos 10 p))
  | Zneg p => Q2Qc (1 # (Pos.pow 10 p))
  end.
Definition rint_half_even (q : Qc) : Z :=
  let f := Qfloor (this q) in
  let r := q - Qc_of_Z f in            (* 0 <= r < 1 *)
  let half := Q2Qc (1 # 2) in
  if Qcltb r half then f
  else if Qcltb half r then (f + 1)%Z
  else if Z.even f then f else (f + 1)%Z.
Definition round_dec (d : Z) (q : Qc) : Qc :=
  Qc_of_Z (rint_half_even (q * pow10 d)) * pow10 (- d).
