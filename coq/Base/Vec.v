(* Base/Vec.v - vectors as lists of Qc, matrices as lists of rows,
   tabulation, finite sums.  Definitions and their algebra; no axioms. *)
Require Import Boario.Base.QcLib.
Open Scope Qc_scope.

Definition vec := list Qc.
Definition mat := list (list Qc).

Definition tab {A} (n : nat) (f : nat -> A) : list A := map f (seq 0 n).
Definition getv (v : vec) (i : nat) : Qc := nth i v 0.
Definition get (m : mat) (i j : nat) : Qc := nth j (nth i m []) 0.
Definition getb (m : list (list bool)) (i j : nat) : bool := nth j (nth i m []) false.
Definition tab2 {A} (n m : nat) (f : nat -> nat -> A) : list (list A) :=
  tab n (fun i => tab m (f i)).

Fixpoint sumn (n : nat) (f : nat -> Qc) : Qc :=
  match n with O => 0 | S k => sumn k f + f k end.
Fixpoint minn (n : nat) (f : nat -> Qc) (d : Qc) : Qc :=
  match n with O => d | S k => qmin (minn k f d) (f k) end.
Fixpoint alln (n : nat) (f : nat -> bool) : bool :=
  match n with O => true | S k => alln k f && f k end.
Fixpoint anyn (n : nat) (f : nat -> bool) : bool :=
  match n with O => false | S k => anyn k f || f k end.

Lemma tab_length {A} n (f : nat -> A) : length (tab n f) = n.
Proof. unfold tab. rewrite map_length, seq_length. reflexivity. Qed.
Lemma nth_tab {A} n (f : nat -> A) i d : (i < n)%nat -> nth i (tab n f) d = f i.
Proof.
  intro H. unfold tab.
  rewrite (nth_indep _ d (f O)) by (rewrite map_length, seq_length; exact H).
  rewrite map_nth. rewrite seq_nth by exact H. reflexivity.
Qed.
Lemma tab_ext {A} n (f g : nat -> A) :
  (forall i, (i < n)%nat -> f i = g i) -> tab n f = tab n g.
Proof.
  intro H. unfold tab. apply map_ext_in. intros i Hi.
  apply in_seq in Hi. apply H. lia.
Qed.
Lemma getv_tab n f i : (i < n)%nat -> getv (tab n f) i = f i.
Proof. apply nth_tab. Qed.
Lemma get_tab2 n m f i j : (i < n)%nat -> (j < m)%nat -> get (tab2 n m f) i j = f i j.
Proof. intros Hi Hj. unfold get, tab2. rewrite nth_tab by exact Hi. apply nth_tab. exact Hj. Qed.
Lemma getb_tab2 n m f i j : (i < n)%nat -> (j < m)%nat -> getb (tab2 n m f) i j = f i j.
Proof. intros Hi Hj. unfold getb, tab2. rewrite nth_tab by exact Hi. apply nth_tab. exact Hj. Qed.
Lemma tab2_ext {A} n m (f g : nat -> nat -> A) :
  (forall i j, (i < n)%nat -> (j < m)%nat -> f i j = g i j) -> tab2 n m f = tab2 n m g.
Proof. intro H. unfold tab2. apply tab_ext. intros i Hi. apply tab_ext. intros j Hj. auto. Qed.

(* ---- sums ---- *)
Lemma sumn_ext n f g : (forall i, (i < n)%nat -> f i = g i) -> sumn n f = sumn n g.
Proof.
  induction n as [|n IH]; intro H; cbn [sumn]; [reflexivity|].
  rewrite IH by (intros; apply H; lia). rewrite H by lia. reflexivity.
Qed.
Lemma sumn_0 n : sumn n (fun _ => 0) = 0.
Proof. induction n as [|n IH]; cbn [sumn]; [reflexivity|]. rewrite IH. ring. Qed.
Lemma sumn_zero n f : (forall i, (i < n)%nat -> f i = 0) -> sumn n f = 0.
Proof. intro H. rewrite (sumn_ext n f (fun _ => 0)) by exact H. apply sumn_0. Qed.
Lemma sumn_scale_r n f c : sumn n (fun i => f i * c) = sumn n f * c.
Proof. induction n as [|n IH]; cbn [sumn]; [ring|]. rewrite IH. ring. Qed.
Lemma sumn_scale_l n f c : sumn n (fun i => c * f i) = c * sumn n f.
Proof. induction n as [|n IH]; cbn [sumn]; [ring|]. rewrite IH. ring. Qed.
Lemma sumn_add n f g : sumn n (fun i => f i + g i) = sumn n f + sumn n g.
Proof. induction n as [|n IH]; cbn [sumn]; [ring|]. rewrite IH. ring. Qed.
Lemma sumn_sub n f g : sumn n (fun i => f i - g i) = sumn n f - sumn n g.
Proof. induction n as [|n IH]; cbn [sumn]; [ring|]. rewrite IH. ring. Qed.
Lemma sumn_nonneg n f : (forall i, (i < n)%nat -> 0 <= f i) -> 0 <= sumn n f.
Proof.
  induction n as [|n IH]; intro H; cbn [sumn]; [apply Qcle_refl|].
  apply Qc_add_nonneg; [apply IH; intros; apply H; lia | apply H; lia].
Qed.
Lemma sumn_le n f g : (forall i, (i < n)%nat -> f i <= g i) -> sumn n f <= sumn n g.
Proof.
  induction n as [|n IH]; intro H; cbn [sumn]; [apply Qcle_refl|].
  apply Qcplus_le_compat; [apply IH; intros; apply H; lia | apply H; lia].
Qed.
Lemma sumn_term_le n f i :
  (forall k, (k < n)%nat -> 0 <= f k) -> (i < n)%nat -> f i <= sumn n f.
Proof.
  induction n as [|n IH]; intros H Hi; [lia|]. cbn [sumn].
  destruct (Nat.eq_dec i n) as [->|Hne].
  - assert (0 <= sumn n f) by (apply sumn_nonneg; intros; apply H; lia).
    set (s := sumn n f) in *. clearbody s. qc2q. lra.
  - assert (f i <= sumn n f) by (apply IH; [intros; apply H; lia | lia]).
    assert (0 <= f n) by (apply H; lia).
    set (s := sumn n f) in *. clearbody s. qc2q. lra.
Qed.
Lemma sumn_zero_inv n f :
  (forall k, (k < n)%nat -> 0 <= f k) -> sumn n f = 0 -> forall i, (i < n)%nat -> f i = 0.
Proof.
  intros H E i Hi. apply Qcle_antisym; [|apply H; exact Hi].
  rewrite <- E. apply sumn_term_le; assumption.
Qed.
(* a sum over a product index splits into a double sum *)
Lemma sumn_prod n m f :
  sumn (n * m) f = sumn n (fun r => sumn m (fun s => f (r * m + s)%nat)).
Proof.
  induction n as [|n IH]; [reflexivity|].
  cbn [sumn]. rewrite <- IH. clear IH.
  replace (S n * m)%nat with (n * m + m)%nat by lia.
  generalize (n * m)%nat as b. intro b.
  induction m as [|m IHm]; cbn [sumn].
  - rewrite Nat.add_0_r. ring.
  - replace (b + S m)%nat with (S (b + m)) by lia. cbn [sumn]. rewrite IHm. ring.
Qed.
Lemma sumn_swap n m f :
  sumn n (fun i => sumn m (fun j => f i j)) = sumn m (fun j => sumn n (fun i => f i j)).
Proof.
  induction n as [|n IH]; cbn [sumn].
  - symmetry. apply sumn_0.
  - rewrite IH. rewrite <- sumn_add. reflexivity.
Qed.

(* ---- minima ---- *)
Lemma minn_le_d n f d : minn n f d <= d.
Proof. induction n as [|n IH]; cbn [minn]; [apply Qcle_refl|].
  eapply Qcle_trans; [apply qmin_l|exact IH]. Qed.
Lemma minn_le n f d i : (i < n)%nat -> minn n f d <= f i.
Proof.
  induction n as [|n IH]; intro Hi; [lia|]. cbn [minn].
  destruct (Nat.eq_dec i n) as [->|Hne]; [apply qmin_r|].
  eapply Qcle_trans; [apply qmin_l|apply IH; lia].
Qed.
Lemma minn_glb n f d c : c <= d -> (forall i, (i < n)%nat -> c <= f i) -> c <= minn n f d.
Proof.
  induction n as [|n IH]; intros Hd H; cbn [minn]; [exact Hd|].
  apply qmin_glb; [apply IH; [exact Hd|intros; apply H; lia] | apply H; lia].
Qed.
Lemma minn_attained n f d : minn n f d = d \/ exists i, (i < n)%nat /\ minn n f d = f i.
Proof.
  induction n as [|n IH]; cbn [minn]; [left; reflexivity|].
  destruct (qmin_cases (minn n f d) (f n)) as [E|E]; rewrite E.
  - destruct IH as [IH|[i [Hi IH]]]; [left; exact IH|right; exists i; split; [lia|exact IH]].
  - right. exists n. split; [lia|reflexivity].
Qed.
Lemma minn_ext n f g d : (forall i, (i < n)%nat -> f i = g i) -> minn n f d = minn n g d.
Proof. induction n as [|n IH]; intro H; cbn [minn]; [reflexivity|].
  rewrite IH by (intros; apply H; lia). rewrite H by lia. reflexivity. Qed.
Lemma minn_const n d : minn n (fun _ => d) d = d.
Proof. induction n as [|n IH]; cbn [minn]; [reflexivity|]. rewrite IH. apply qmin_le_l, Qcle_refl. Qed.

(* ---- boolean quantifiers ---- *)
Lemma alln_spec n f : alln n f = true <-> forall i, (i < n)%nat -> f i = true.
Proof.
  induction n as [|n IH]; cbn [alln]; [split; [intros _ i Hi; lia|reflexivity]|].
  rewrite andb_true_iff, IH. split.
  - intros [H1 H2] i Hi. destruct (Nat.eq_dec i n) as [->|Hne]; [exact H2|apply H1; lia].
  - intro H. split; [intros; apply H; lia|apply H; lia].
Qed.
Lemma anyn_spec n f : anyn n f = true <-> exists i, (i < n)%nat /\ f i = true.
Proof.
  induction n as [|n IH]; cbn [anyn]; [split; [discriminate|intros [i [Hi _]]; lia]|].
  rewrite orb_true_iff, IH. split.
  - intros [[i [Hi H]]|H]; [exists i; split; [lia|exact H]|exists n; split; [lia|exact H]].
  - intros [i [Hi H]]. destruct (Nat.eq_dec i n) as [->|Hne]; [right; exact H|left; exists i; split; [lia|exact H]].
Qed.
Lemma anyn_false n f : anyn n f = false <-> forall i, (i < n)%nat -> f i = false.
Proof.
  split.
  - intros H i Hi. destruct (f i) eqn:E; [|reflexivity].
    assert (anyn n f = true) by (apply anyn_spec; exists i; split; assumption). congruence.
  - intro H. destruct (anyn n f) eqn:E; [|reflexivity].
    apply anyn_spec in E. destruct E as [i [Hi E]]. rewrite H in E by exact Hi. discriminate.
Qed.
Lemma alln_ext n f g : (forall i, (i < n)%nat -> f i = g i) -> alln n f = alln n g.
Proof. induction n as [|n IH]; intro H; cbn [alln]; [reflexivity|].
  rewrite IH by (intros; apply H; lia). rewrite H by lia. reflexivity. Qed.
Lemma anyn_ext n f g : (forall i, (i < n)%nat -> f i = g i) -> anyn n f = anyn n g.
Proof. induction n as [|n IH]; intro H; cbn [anyn]; [reflexivity|].
  rewrite IH by (intros; apply H; lia). rewrite H by lia. reflexivity. Qed.
