(* Corr/CheckIO.v - correspondence obligations for the event constructors (ctor.scalar). *)
Require Import Boario.Base.QcLib Boario.Base.Vec Boario.Model.Econ Boario.Model.RecoveryFns
  Boario.Model.Ctor Boario.Corr.Check.
Open Scope Qc_scope.

(* impl = None: the constructor raised; Some v: the impact it produced, in the order of the affected list *)
Definition chk_scalar (I : Qc) (n : nat) (ws : option (list (option Qc))) (impl : option (list Qc)) : nat :=
  match distribute_scalar I n ws, impl with
  | CErr _, None => 0%nat
  | COk v, Some w =>
      match from_series v with
      | COk v' => vcmp (length v') z1 v' w
      | CErr _ => 3%nat
      end
  | COk v, None => match from_series v with CErr _ => 0%nat | COk _ => 3%nat end
  | CErr _, Some _ => 3%nat
  end.
Definition chk_regsec (I : Qc) (nr ns : nat) (wr ws : option (list (option Qc))) (impl : option (list Qc)) : nat :=
  match distribute_regions_sectors I nr ns wr ws, impl with
  | CErr _, None => 0%nat
  | COk v, Some w =>
      match from_series v with
      | COk v' => vcmp (length v') z1 v' w
      | CErr _ => 3%nat
      end
  | COk v, None => match from_series v with CErr _ => 0%nat | COk _ => 3%nat end
  | CErr _, Some _ => 3%nat
  end.

(* rec.curves : the rational built-in recovery curves vs the Python functions *)
Definition chk_curve (which tau e : nat) (init impl : vec) : nat :=
  let m := match which with
           | 0%nat => linear_rec tau e init
           | 1%nat => convexe_rec tau e init
           | _ => convexe_scaled_rec tau e init
           end in
  vcmp (length init) (fun j => qabs (getv init j)) m impl.

(* ctor.labelled : the constructors called with label lists (possibly listing a label several
   times) and label-indexed weights.  impl = None: raised; Some l: the impact entries in the
   order of the produced index, each with the number of its label. *)
Definition chk_labelled_res (lbls : list nat) (r : cres) (impl : option (list (nat * Qc))) : nat :=
  match r, impl with
  | CErr _, None => 0%nat
  | CErr _, Some _ => 3%nat
  | COk v, None => match from_series v with CErr _ => 0%nat | COk _ => 3%nat end
  | COk v, Some iw =>
      let kept := filter (fun p => negb (Qceqb (snd p) 0)) (combine lbls v) in
      if existsb (fun p => Qcleb (snd p) 0) kept then 3%nat
      else if negb (Nat.eqb (length kept) (length iw)) then 2%nat
      else vcmp (length kept) z1 (map snd kept) (map (fun p => oget (lookupw iw (fst p))) kept)
  end.
Definition chk_scalar_lbl (I : Qc) (aff : list nat) (w : option (list (nat * Qc)))
    (impl : option (list (nat * Qc))) : nat :=
  let '(lbls, r) := scalar_labelled I aff w in chk_labelled_res lbls r impl.
(* industry (r, s) is numbered r * 1000 + s *)
Definition chk_regsec_lbl (I : Qc) (regs secs : list nat) (wr ws : option (list (nat * Qc)))
    (impl : option (list (nat * Qc))) : nat :=
  let '(lbls, r) := regsec_labelled I regs secs wr ws in
  chk_labelled_res (map (fun p => (fst p * 1000 + snd p)%nat) lbls) r impl.
