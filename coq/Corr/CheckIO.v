(* Corr/CheckIO.v - correspondence obligations for the event constructors (ctor.scalar). *)
Require Import Boario.Base.QcLib Boario.Base.Vec Boario.Model.Econ Boario.Model.RecoveryFns
  Boario.Model.Ctor Boario.Corr.Check.
Open Scope Qc_scope.

(* impl = None: the constructor raised; Some v: the impact it produced, in the order of the affected list *)
Definition chk_scalar (I : Qc) (n : nat) (ws : option (list (option Qc))) (impl : option (list Qc)) : nat :=
  match distribute_scalar I n ws, impl with
  | CErr _, None => 0%nat
  | COk v, Some w =>
      match from_series v with
      | COk v' => vcmp (length v') z1 v' w
      | CErr _ => 3%nat
      end
  | COk v, None => match from_series v with CErr _ => 0%nat | COk _ => 3%nat end
  | CErr _, Some _ => 3%nat
  end.
Definition chk_regsec (I : Qc) (nr ns : nat) (wr ws : option (list (option Qc))) (impl : option (list Qc)) : nat :=
  match distribute_regions_sectors I nr ns wr ws, impl with
  | CErr _, None => 0%nat
  | COk v, Some w =>
      match from_series v with
      | COk v' => vcmp (length v') z1 v' w
      | CErr _ => 3%nat
      end
  | COk v, None => match from_series v with CErr _ => 0%nat | COk _ => 3%nat end
  | CErr _, Some _ => 3%nat
  end.

(* rec.curves : the rational built-in recovery curves vs the Python functions *)
Definition chk_curve (which tau e : nat) (init impl : vec) : nat :=
  let m := match which with
           | 0%nat => linear_rec tau e init
           | 1%nat => convexe_rec tau e init
           | _ => convexe_scaled_rec tau e init
           end in
  vcmp (length init) (fun j => qabs (getv init j)) m impl.
