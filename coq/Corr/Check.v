(* Corr/Check.v - the comparison used by the correspondence check: the model's
   phase functions are evaluated on the implementation's own pre-state (every
   binary64 value converted exactly to a rational) and compared with the
   implementation's post-state.  Verdict codes: 0 = agree, 1 = value mismatch,
   2 = shape mismatch, 3 = control-flow (crash / error flag) mismatch.
   Relative tolerance 1e-9 with a per-cell scale that accounts for cancellation. *)
Require Import Boario.Base.QcLib Boario.Base.Vec Boario.Model.Econ.
Open Scope Qc_scope.

Notation "m @ e" := (of_me m%Z e%Z) (at level 5, only parsing).

Definition tol : Qc := of_frac 1 1000000000.
Definition okc (s a b : Qc) : bool :=
  Qcleb (qabs (a - b)) (tol * qmax s (qmax (qabs a) (qabs b))).

Definition vshape (n : nat) (v : vec) : bool := Nat.eqb (length v) n.
Definition mshape {A} (n m : nat) (a : list (list A)) : bool :=
  Nat.eqb (length a) n && forallb (fun r => Nat.eqb (length r) m) a.

Definition vcmp (n : nat) (s : nat -> Qc) (a b : vec) : nat :=
  if negb (vshape n a && vshape n b) then 2%nat
  else if alln n (fun i => okc (s i) (getv a i) (getv b i)) then 0%nat else 1%nat.
Definition mcmp (n m : nat) (s : nat -> nat -> Qc) (a b : mat) : nat :=
  if negb (mshape n m a && mshape n m b) then 2%nat
  else if alln n (fun i => alln m (fun j => okc (s i j) (get a i j) (get b i j)))
       then 0%nat else 1%nat.
Definition bmcmp (n m : nat) (a b : list (list bool)) : nat :=
  if negb (mshape n m a && mshape n m b) then 2%nat
  else if alln n (fun i => alln m (fun j => Bool.eqb (getb a i j) (getb b i j)))
       then 0%nat else 1%nat.
Definition bcmp (a b : bool) : nat := if Bool.eqb a b then 0%nat else 3%nat.

Definition z1 (_ : nat) : Qc := 0.
Definition z2 (_ _ : nat) : Qc := 0.

Section Checks.
Variable P : params.
Let N := NN P.
Let F := FF P.

Definition chk_cap (alpha delta icap : vec) : nat :=
  vcmp N (fun f => getv (X0 P) f * getv alpha f) (cap P alpha delta) icap.
Definition chk_opt (dtot capv iopt : vec) : nat :=
  vcmp N z1 (opt P dtot capv) iopt.
Definition chk_cons (xv : vec) (icons : mat) : nat :=
  mcmp (nS P) N z2 (constraints P xv) icons.
Definition chk_prod (stock : mat) (optv iprod : vec) : nat :=
  vcmp N z1 (production P stock optv) iprod.
(* the limiting-input mask is a strict comparison: cells within tolerance of
   the threshold are exempt *)
Definition chk_limiting (stock : mat) (optv : vec) (ilim : list (list bool)) : nat :=
  let cons := constraints P optv in
  if negb (mshape (nS P) N ilim) then 2%nat
  else if alln (nS P) (fun p => alln N (fun f =>
            Bool.eqb (short_cell P stock cons p f) (getb ilim p f)
            || okc 0 (get stock p f) (get cons p f)))
       then 0%nat else 1%nat.
Definition chk_deliver (W : nat) (dem : mat) (prodv : vec) (idel : mat) : nat :=
  mcmp N W z2 (deliver P W dem prodv) idel.
Definition chk_stock (W : nat) (stock dem : mat) (prodv : vec) (istock : mat) : nat :=
  let del := deliver P W dem prodv in
  let use := stock_use P prodv in
  let add := stock_add P del in
  mcmp (nS P) N (fun p f => if isinf P p then 0 else
                   qabs (get stock p f) + qabs (get use p f) + qabs (get add p f))
       (tab2 (nS P) N (fun p f => if isinf P p then 0
                                  else get (stock_update P stock add use) p f)) istock.
Definition chk_crash (W : nat) (stock dem : mat) (prodv : vec) (icrash : bool) : nat :=
  let del := deliver P W dem prodv in
  bcmp (distribute_crash P stock (stock_add P del) (stock_use P prodv)) icrash.
Definition chk_unmet (W : nat) (dem : mat) (prodv iunmet : vec) : nat :=
  vcmp N (fun f => sumn F (fun c => qabs (get dem f (N + c))))
       (unmet P dem (deliver P W dem prodv)) iunmet.
Definition chk_rprod (W : nat) (dem : mat) (prodv : vec) (irprod : mat) : nat :=
  mcmp N (W - N - F) z2 (rebuild_prod P W (deliver P W dem prodv)) irprod.
(* all obligations of distribute_production at once (deliveries computed once):
   [stock.crash; deliver.matrix; stock.update; deliver.unmet; deliver.rebuild_prod];
   components the harness could not observe are passed as None *)
Definition chk_dist (W : nat) (stock dem : mat) (prodv : vec) (icrash : bool)
    (idel : option mat) (istock : option mat) (iunmet : option vec) (irprod : option mat)
    : list nat :=
  let del := deliver P W dem prodv in
  let use := stock_use P prodv in
  let add := stock_add P del in
  [ bcmp (distribute_crash P stock add use) icrash;
    match idel with None => 0%nat | Some d => mcmp N W z2 del d end;
    match istock with None => 0%nat | Some s' =>
      mcmp (nS P) N (fun p f => if isinf P p then 0 else
                   qabs (get stock p f) + qabs (get use p f) + qabs (get add p f))
           (tab2 (nS P) N (fun p f => if isinf P p then 0
                                      else get (stock_update P stock add use) p f)) s' end;
    match iunmet with None => 0%nat | Some u =>
      vcmp N (fun f => sumn F (fun c => qabs (get dem f (N + c)))) (unmet P dem del) u end;
    match irprod with None => 0%nat | Some r =>
      mcmp N (W - N - F) z2 (rebuild_prod P W del) r end ].
Definition chk_orders (stock : mat) (dtot prodv alpha delta : vec) (iord : mat) : nat :=
  let capv := cap P alpha delta in
  let optv := opt P dtot capv in
  mcmp N N (fun i j =>
      (qabs (goal P optv (i mod nS P) j) + qabs (get stock (i mod nS P) j)
       + qabs (getv prodv j * get (tech P) (i mod nS P) j)) * qabs (share P capv i j))
    (orders P stock optv prodv capv) iord.
Definition chk_overprod (alpha dtot prodv ialpha : vec) : nat :=
  vcmp N (fun _ => 1) (overprod P alpha dtot prodv) ialpha.

End Checks.
