(* Corr/CheckInit.v - correspondence obligations for construction:
   init.derived (Model/Init.v vs ARIOBaseModel/ARIOPsiModel.__init__),
   reb.create (Model/Tracker.v vs EventTracker.__init__),
   ingest.canon (Model/Ingest.v vs lexico_reindex / sort_index). *)
Require Import Boario.Base.QcLib Boario.Base.Vec Boario.Model.Econ Boario.Model.Init
  Boario.Model.Events Boario.Model.Tracker Boario.Model.Ingest Boario.Corr.Check Boario.Corr.CheckEv.
Open Scope Qc_scope.

Definition oqcmp (a b : option Qc) : nat :=
  match a, b with
  | None, None => 0%nat
  | Some x, Some y => if okc 0 x y then 0%nat else 1%nat
  | _, _ => 3%nat
  end.

(* [X0; Z0; Y0; tech; zdist; mask; inv_duration; rho; K; stock0; psi/alpha parameters] *)
Definition chk_init (T : table) (C : config)
    (iX0 : vec) (iZ0 iY0 itech izdist : mat) (imask : list (list bool))
    (iinvd : list (option Qc)) (irho iK : vec) (istock0 : mat)
    (ipsi ia_base ia_max ia_rate : Qc) : list nat :=
  let P := init_params T C in
  let N := NN P in let F := FF P in let ns := nS P in
  [ vcmp N z1 (X0 P) iX0;
    mcmp N N z2 (Z0 P) iZ0;
    mcmp N F z2 (Y0 P) iY0;
    mcmp ns N z2 (tech P) itech;
    mcmp N N z2 (zdist P) izdist;
    bmcmp ns N (mask P) imask;
    (if negb (Nat.eqb (length iinvd) ns) then 2%nat
     else worst (map (fun p => oqcmp (nth p (invd P) None) (nth p iinvd None)) (seq 0 ns)));
    vcmp ns z1 (rho P) irho;
    vcmp N (fun j => qabs (getv (t_x T) j)) (K P) iK;
    mcmp ns N z2 (i_stock0 T C) istock0;
    worst [ (if okc 0 (psi P) ipsi then 0 else 1)%nat; (if okc 0 (a_base P) ia_base then 0 else 1)%nat;
            (if okc 0 (a_max P) ia_max then 0 else 1)%nat; (if okc 0 (a_rate P) ia_rate then 0 else 1)%nat ] ].

(* reb.create : [accept/reject flag; industries; households] *)
Definition chk_create (nr ns nc : nat) (Zy Yy : mat) (shares : list (nat * Qc)) (phi : Qc)
    (imp : vec) (himp : option vec) (rejected : bool) (irem_i : option mat) (irem_h : option mat) : list nat :=
  let N := (nr * ns)%nat in let F := (nr * nc)%nat in
  let mi := mk_rem nr ns Zy N shares phi imp in
  let mh := match himp with Some h => mk_rem nr ns Yy F shares phi h | None => Some [] end in
  let rej := match mi, mh with Some _, Some _ => false | _, _ => true end in
  [ bcmp rej rejected;
    (if rejected then 0 else omcmp N N 0 mi irem_i)%nat;
    (if rejected then 0 else match himp with None => 0 | Some _ => omcmp N F 0 mh irem_h end)%nat ].

(* ingest.canon : the implementation's arrays in sorted label order are the model's
   canonical form of the labelled input, cell for cell (no arithmetic involved) *)
Definition qeq_list (a b : list Qc) : bool :=
  Nat.eqb (length a) (length b) && forallb (fun p => Qceqb (fst p) (snd p)) (combine a b).
Definition chk_canon_mat (inp : list (nat * list (nat * Qc))) (impl : mat) : nat :=
  let c := canon_mat inp in
  if Nat.eqb (length c) (length impl) && forallb (fun p => qeq_list (fst p) (snd p)) (combine c impl)
  then 0%nat else 1%nat.
Definition chk_canon_vec (inp : list (nat * Qc)) (impl : vec) : nat :=
  if qeq_list (canon inp) impl then 0%nat else 1%nat.
