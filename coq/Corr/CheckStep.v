(* Corr/CheckStep.v - correspondence obligation step.compose: the model's whole [Sim.step]
   (the function the run-level theorems talk about), evaluated on the implementation's state at
   the beginning of a real next_step(), gives the implementation's state at its end: same
   outcome (normal / crash flag / exception), same economy, same books. *)
Require Import Boario.Base.QcLib Boario.Base.Vec Boario.Model.Econ Boario.Model.Events
  Boario.Model.Sim Boario.Corr.Check Boario.Corr.CheckEv.
Open Scope Qc_scope.

Definition out_code (o : outcome) : nat :=
  match o with Ok _ => 0 | Crash _ => 1 | Error _ _ => 2 end%nat.
Definition out_sim (o : outcome) : sim :=
  match o with Ok s => s | Crash s => s | Error _ s => s end.

(* icode: 0 = next_step returned 0, 1 = returned 1 (crash flag), 2 = raised.
   [outcome; alpha; stock; demand matrix; nE; production; unmet; clock] ++ the seven tracker fields.
   After a crash or an exception only the outcome is compared. *)
Definition chk_step (e : env) (s : sim) (icode : nat) (iend : econ) (itrs : list tracker) (inow : nat)
  : list nat :=
  let Pm := P e in
  let N := NN Pm in
  let r := fst (step e s) in
  let s' := out_sim r in
  let ec := eco s' in
  if negb (Nat.eqb (out_code r) icode) then [3; 0; 0; 0; 0; 0; 0; 0; 0; 0; 0; 0; 0; 0; 0]%nat
  else if negb (Nat.eqb icode 0) then [0; 0; 0; 0; 0; 0; 0; 0; 0; 0; 0; 0; 0; 0; 0]%nat
  else
  let W := WW Pm (nE ec) in
  [ 0%nat;
    vcmp N (fun _ => 1) (alpha ec) (alpha iend);
    mcmp (nS Pm) N (fun p f => if isinf Pm p then 0 else
                      qabs (get (stock (eco s)) p f) + getv (X0 Pm) f * get (tech Pm) p f)
         (tab2 (nS Pm) N (fun p f => if isinf Pm p then 0 else get (stock ec) p f)) (stock iend);
    (if Nat.eqb (nE ec) (nE iend)
     then mcmp N W (fun f j => getv (X0 Pm) f + qabs (get (dem (eco s)) f j)) (dem ec) (dem iend) else 3%nat);
    (if Nat.eqb (nE ec) (nE iend) then 0 else 3)%nat;
    vcmp N (fun f => getv (X0 Pm) f) (prod ec) (prod iend);
    vcmp N (fun f => getv (X0 Pm) f) (unmetv ec) (unmetv iend);
    (if Nat.eqb (now s') inow then 0 else 3)%nat ]
  ++ cmp_trackers Pm (pow10 (- prec e)) (trs s') itrs.
