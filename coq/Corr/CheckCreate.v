(* Corr/CheckCreate.v - correspondence obligation create.tracker: the tracker the implementation
   registers for an event (EventTracker.__init__, observed just after registration) is the one
   Create.create builds from the description of the event as the user gave it. *)
Require Import Boario.Base.QcLib Boario.Base.Vec Boario.Model.Econ Boario.Model.Events
  Boario.Model.Tracker Boario.Model.Create Boario.Corr.Check Boario.Corr.CheckEv.
Open Scope Qc_scope.

Definition ekind_eqb (a b : ekind) : bool :=
  match a, b with KRebuild, KRebuild | KRecover, KRecover | KArb, KArb => true | _, _ => false end.

(* impl = None: the registration raised "Cannot distribute the rebuilding demand".
   [created?; kind/schedule; status; rid; dmg; hdmg; arb; rem_i; rem_h; dmg0; hdmg0; arb0] *)
Definition chk_create_tracker (P : params) (Zy Yy : mat) (mu : Qc) (v : evspec)
    (impl : option tracker) : list nat :=
  match create (nR P) (nS P) (nC P) Zy Yy mu v, impl with
  | None, None => [0; 0; 0; 0; 0; 0; 0; 0; 0; 0; 0; 0]%nat
  | Some _, None | None, Some _ => [3; 0; 0; 0; 0; 0; 0; 0; 0; 0; 0; 0]%nat
  | Some m, Some i =>
      [0%nat;
       (if ekind_eqb (kind m) (kind i) && Nat.eqb (occ m) (occ i) && Nat.eqb (dur m) (dur i) then 0 else 3)%nat]
      ++ cmp_trackers P 0 [m] [i]
      ++ [ ovcmp (NN P) 0 (dmg0 m) (dmg0 i); ovcmp (FF P) 0 (hdmg0 m) (hdmg0 i);
           ovcmp (NN P) (of_frac 1 1000000) (arb0 m) (arb0 i) ]
  end.

(* phase.overprod : the overproduction module runs exactly when the model's step says so (after the
   first two steps: 1 < t), and when it does not run the factors reach the production module unchanged *)
Definition chk_phase_overprod (P : params) (t : nat) (called : bool) (a_before a_prod : vec) : list nat :=
  [ bcmp (Nat.ltb 1 t) called;
    (if called then 0 else vcmp (NN P) z1 a_before a_prod)%nat ].
