Require Import Boario.Base.QcLib Boario.Base.Vec Boario.Model.Econ Boario.Model.Events Boario.Corr.Check.
