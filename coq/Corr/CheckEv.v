(* Corr/CheckEv.v - correspondence obligations of the event life-cycle:
   schedule, aggregation of capacity losses, reconstruction-demand blocks, ledgers. *)
Require Import Boario.Base.QcLib Boario.Base.Vec Boario.Model.Econ Boario.Model.Events
  Boario.Model.Sim Boario.Corr.Check.
Open Scope Qc_scope.

Definition veqb (a b : vec) : bool :=
  Nat.eqb (length a) (length b) && forallb (fun p => Qceqb (fst p) (snd p)) (combine a b).

(* oracle recovery function: the values the real callable returned for each ledger *)
Definition rf_oracle (d0 h0 a0 : option vec) (vd vh va : vec) : nat -> vec -> vec :=
  fun _ init =>
    match d0 with Some i => if veqb init i then vd else
      match h0 with Some i' => if veqb init i' then vh else va | None => va end
    | None =>
      match a0 with Some i => if veqb init i then va else
        match h0 with Some i' => if veqb init i' then vh else va | None => va end
      | None => va end
    end.

Definition ovcmp (n : nat) (s : Qc) (a b : option vec) : nat :=
  match a, b with
  | None, None => 0%nat
  | Some x, Some y => vcmp n (fun _ => s) x y
  | _, _ => 3%nat
  end.
Definition omcmp (n m : nat) (s : Qc) (a b : option mat) : nat :=
  match a, b with
  | None, None => 0%nat
  | Some x, Some y => mcmp n m (fun _ _ => s) x y
  | _, _ => 3%nat
  end.
Definition onat_eqb (a b : option nat) : bool :=
  match a, b with
  | None, None => true | Some x, Some y => Nat.eqb x y | _, _ => false end.

Fixpoint worst (l : list nat) : nat :=
  match l with [] => 0%nat | x :: r => Nat.max x (worst r) end.

Section EvChecks.
Variable P : params.
Let N := NN P.
Let F := FF P.

(* componentwise comparison of two tracker lists:
   [status; rid; dmg; hdmg; arb; rem_i; rem_h], scale = the quantum of the ledgers *)
Definition cmp_trackers (quantum : Qc) (a b : list tracker) : list nat :=
  if negb (Nat.eqb (length a) (length b)) then [2;2;2;2;2;2;2]%nat else
  let ps := combine a b in
  [ worst (map (fun p => if status_eqb (st (fst p)) (st (snd p)) then 0 else 3)%nat ps);
    worst (map (fun p => if onat_eqb (rid (fst p)) (rid (snd p)) then 0 else 3)%nat ps);
    worst (map (fun p => ovcmp N quantum (dmg (fst p)) (dmg (snd p))) ps);
    worst (map (fun p => ovcmp F quantum (hdmg (fst p)) (hdmg (snd p))) ps);
    worst (map (fun p => ovcmp N (of_frac 1 1000000) (arb (fst p)) (arb (snd p))) ps);
    worst (map (fun p => omcmp N N quantum (rem_i (fst p)) (rem_i (snd p))) ps);
    worst (map (fun p => omcmp N F quantum (rem_h (fst p)) (rem_h (snd p))) ps) ].

(* sched.status : [status; rid; nE] *)
Definition chk_sched (dt t E : nat) (pre post : list tracker) (E' : nat) : list nat :=
  let '(m, Em) := start t (map (activate dt t) pre) E in
  let c := cmp_trackers 0 m post in
  [ nth 0 c 9; nth 1 c 9; if Nat.eqb Em E' then 0 else 3 ]%nat.

(* delta.* : [capital exceeded flag; klost; arb; delta] *)
Definition chk_delta (post : list tracker) (iexceeded : bool) (ikl iar idelta : option vec) : list nat :=
  let kl := klost_of N post in
  let ar := arb_of N post in
  [ bcmp (capital_exceeded P kl) iexceeded;
    match ikl with None => 0%nat | Some v => vcmp N z1 kl v end;
    match iar with None => 0%nat | Some v => vcmp N z1 ar v end;
    match idelta with None => 0%nat | Some v => vcmp N z1 (delta_of P kl ar) v end ].

(* reb.blocks : the demand matrix after the events phase *)
Definition chk_blocks (dtq : Qc) (resized : bool) (E : nat) (post : list tracker)
    (dem idem : mat) : nat :=
  mcmp N (WW P E) z2 (dem_events P dtq resized E post dem) idem.

(* reb.ledger : ledgers after rebuild_events, ids compacted, number of events *)
Definition chk_rebuild (prec : Z) (E : nat) (rprod : mat) (pre post : list tracker) (E' : nat)
  : list nat :=
  let l := rebuild_ledgers P prec E rprod pre in
  let nfin := (count_rebuilding pre - count_rebuilding l)%nat in
  let l' := if Nat.eqb nfin 0 then l else compact_ids pre l in
  cmp_trackers (pow10 (- prec)) l' post ++ [ if Nat.eqb (E - nfin) E' then 0 else 3 ]%nat.

(* reb.carry : the demand matrix after the ledgers (finished events release their block, the
   blocks of the events that keep rebuilding are carried over) *)
Definition chk_carry (prec : Z) (E : nat) (rprod : mat) (pre : list tracker) (d2 idem : mat) : nat :=
  let l := rebuild_ledgers P prec E rprod pre in
  let nfin := (count_rebuilding pre - count_rebuilding l)%nat in
  let E' := (E - nfin)%nat in
  let d3 := if Nat.eqb nfin 0 then d2
            else tab2 N (WW P E') (fun f j =>
                   if Nat.ltb j (N + F) then get d2 f j
                   else moved_cell P E E' (kept_ids E l) d2 f (j - (N + F))) in
  mcmp N (WW P E') z2 d3 idem.

(* dtot.coherent : the cached total demand the phases read is the row sum of the demand matrix *)
Definition chk_dtot (W : nat) (dem : mat) (idtot : vec) : nat :=
  vcmp N (fun f => sumn W (fun j => qabs (get dem f j))) (tab N (fun f => rowtot W dem f)) idtot.

(* reg.append : add_event / add_events between two steps (Sim.register): the trackers already
   registered are untouched (every field), the new ones come last, pending, without id, their
   books open at the initial damage: [status; rid; dmg; hdmg; arb; rem_i; rem_h; new trackers fresh] *)
Definition oveqb (a b : option vec) : bool :=
  match a, b with None, None => true | Some x, Some y => veqb x y | _, _ => false end.
Definition is_fresh (tr : tracker) : bool :=
  status_eqb (st tr) Pending && onat_eqb (rid tr) None &&
  oveqb (dmg tr) (dmg0 tr) && oveqb (hdmg tr) (hdmg0 tr) && oveqb (arb tr) (arb0 tr).
Definition chk_register (pre post : list tracker) : list nat :=
  let k := length pre in
  cmp_trackers 0 pre (firstn k post) ++
  [ if Nat.leb k (length post) && forallb is_fresh (skipn k post) then 0 else 3 ]%nat.

(* rec.ledger *)
Definition chk_recover (prec : Z) (t : nat) (pre post : list tracker) : list nat :=
  cmp_trackers (pow10 (- prec)) (recover_ledgers prec t pre) post.

End EvChecks.
