(* Props/C03.v - property theorems of C03: statements come from Spec/Statements.v,
   proofs from Proofs/C03Proofs.v.  Nothing else lives here. *)
Require Import Boario.Spec.Statements Boario.Proofs.C03Proofs.
Theorem C03_statement_holds : C03_statement. Proof. exact c03. Qed.
Print Assumptions C03_statement_holds.
