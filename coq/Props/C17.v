(* Props/C17.v - what is provable about C17: the step is a function of its arguments
   (determinism of the model is by construction), trackers are built from the event
   without modifying it (the constructor is a function), and default output directories
   are pairwise distinct exactly when the default is created per call. *)
Require Import Boario.Model.Process Boario.Proofs.C17Proofs.
From Coq Require Import List.
Theorem C17_paths : forall imp k p ds p', new_sims PerCall imp k p = (ds, p') -> NoDup ds.
Proof. exact c17_paths_percall. Qed.
Print Assumptions C17_paths.
Theorem C17_shared_default_refuted : forall imp p,
  exists ds p', new_sims AtImport imp 2 p = (ds, p') /\ ~ NoDup ds.
Proof. exact c17_paths_atimport_refuted. Qed.
Print Assumptions C17_shared_default_refuted.
