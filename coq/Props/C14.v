(* Props/C14.v - property theorems of C14: statements come from Spec/Statements.v,
   proofs from Proofs/C14Proofs.v.  Nothing else lives here. *)
Require Import Boario.Spec.Statements Boario.Proofs.C14Proofs.
Theorem C14_bounds_holds : C14_bounds. Proof. exact c14_bounds. Qed.
Print Assumptions C14_bounds_holds.
Theorem C14_rise_holds : C14_rise. Proof. exact c14_rise. Qed.
Print Assumptions C14_rise_holds.
Theorem C14_scarcity_holds : C14_scarcity. Proof. exact c14_scarcity. Qed.
Print Assumptions C14_scarcity_holds.
(* bounds along every history (Spec/StatementsWF.v) *)
Require Import Boario.Spec.StatementsWF Boario.Proofs.C20Proofs.
Theorem C14_invariant_holds : C14_invariant. Proof. exact c14_invariant. Qed.
Print Assumptions C14_invariant_holds.
