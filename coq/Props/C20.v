(* Props/C20.v - property theorems of C20: statements from Spec/StatementsWF.v. *)
Require Import Boario.Spec.StatementsWF Boario.Proofs.C20Proofs.
Theorem C20_wf_step_holds : C20_wf_step. Proof. exact c20_wf_step. Qed.
Print Assumptions C20_wf_step_holds.
Theorem C20_wf_run_holds : C20_wf_run. Proof. exact c20_wf_run. Qed.
Print Assumptions C20_wf_run_holds.
Theorem C20_obs_holds : C20_obs. Proof. exact c20_obs. Qed.
Print Assumptions C20_obs_holds.
(* first link of the chain: what the constructors accept is well-formed (Spec/StatementsInit.v) *)
Require Import Boario.Spec.StatementsInit Boario.Proofs.C20InitProofs.
Theorem C20_wf_create_holds : C20_wf_create. Proof. exact c20_wf_create. Qed.
Print Assumptions C20_wf_create_holds.
Theorem C20_wf_create_all_holds : C20_wf_create_all. Proof. exact c20_wf_create_all. Qed.
Print Assumptions C20_wf_create_all_holds.
Theorem C20_wf_init_holds : C20_wf_init. Proof. exact c20_wf_init. Qed.
Print Assumptions C20_wf_init_holds.
Theorem C20_builtin_rf_holds : C20_builtin_rf. Proof. exact c20_builtin_rf. Qed.
Print Assumptions C20_builtin_rf_holds.
Theorem C20_accepted_run_holds : C20_accepted_run. Proof. exact c20_accepted_run. Qed.
Print Assumptions C20_accepted_run_holds.
