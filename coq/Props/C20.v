(* Props/C20.v - property theorems of C20: statements from Spec/StatementsWF.v. *)
Require Import Boario.Spec.StatementsWF Boario.Proofs.C20Proofs.
Theorem C20_wf_step_holds : C20_wf_step. Proof. exact c20_wf_step. Qed.
Print Assumptions C20_wf_step_holds.
Theorem C20_wf_run_holds : C20_wf_run. Proof. exact c20_wf_run. Qed.
Print Assumptions C20_wf_run_holds.
Theorem C20_obs_holds : C20_obs. Proof. exact c20_obs. Qed.
Print Assumptions C20_obs_holds.
