(* Props/C13.v - property theorems of C13 (unit conversion part). *)
Require Import Boario.Spec.StatementsEv Boario.Proofs.C08Proofs.
Theorem C13_conversion_holds : C13_conversion. Proof. exact c13_conversion. Qed.
Print Assumptions C13_conversion_holds.
