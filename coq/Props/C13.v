(* Props/C13.v - property theorems of C13 (unit conversion part). *)
Require Import Boario.Spec.StatementsEv Boario.Proofs.C08Proofs.
Theorem C13_conversion_holds : C13_conversion. Proof. exact c13_conversion. Qed.
Print Assumptions C13_conversion_holds.
(* scale invariance of the phases (Spec/StatementsScale.v) *)
Require Import Boario.Spec.StatementsScale Boario.Proofs.C13ScaleProofs.
Theorem C13_scale_cap_holds : C13_scale_cap. Proof. exact c13_scale_cap. Qed.
Print Assumptions C13_scale_cap_holds.
Theorem C13_scale_opt_holds : C13_scale_opt. Proof. exact c13_scale_opt. Qed.
Print Assumptions C13_scale_opt_holds.
Theorem C13_scale_production_holds : C13_scale_production. Proof. exact c13_scale_production. Qed.
Print Assumptions C13_scale_production_holds.
Theorem C13_scale_deliver_holds : C13_scale_deliver. Proof. exact c13_scale_deliver. Qed.
Print Assumptions C13_scale_deliver_holds.
Theorem C13_scale_overprod_holds : C13_scale_overprod. Proof. exact c13_scale_overprod. Qed.
Print Assumptions C13_scale_overprod_holds.
Theorem C13_scale_stock_holds : C13_scale_stock. Proof. exact c13_scale_stock. Qed.
Print Assumptions C13_scale_stock_holds.
Theorem C13_scale_orders_holds : C13_scale_orders. Proof. exact c13_scale_orders. Qed.
Print Assumptions C13_scale_orders_holds.
