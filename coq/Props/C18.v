(* Props/C18.v - property theorems of C18: statements come from Spec/Statements.v,
   proofs from Proofs/C18Proofs.v.  Nothing else lives here. *)
Require Import Boario.Spec.Statements Boario.Proofs.C18Proofs.
Theorem C18_psi1_holds : C18_psi1. Proof. exact c18_psi1. Qed.
Print Assumptions C18_psi1_holds.
Theorem C18_alt_noalt_holds : C18_alt_noalt. Proof. exact c18_alt_noalt. Qed.
Print Assumptions C18_alt_noalt_holds.
