(* Props/C11.v - property theorems of C11: statements from Spec/StatementsEv.v. *)
Require Import Boario.Spec.StatementsEv Boario.Proofs.C07Proofs Boario.Proofs.C11Proofs.
Theorem C11_ids_activate_holds : C11_ids_activate. Proof. exact c11_ids_activate. Qed.
Print Assumptions C11_ids_activate_holds.
Theorem C11_ids_start_holds : C11_ids_start. Proof. exact c11_ids_start. Qed.
Print Assumptions C11_ids_start_holds.
Theorem C11_ids_ledgers_holds : C11_ids_ledgers. Proof. exact c11_ids_ledgers. Qed.
Print Assumptions C11_ids_ledgers_holds.
Theorem C11_ids_step_holds : C11_ids_step. Proof. exact c11_ids_step. Qed.
Print Assumptions C11_ids_step_holds.
Theorem C11_no_internal_error_holds : C11_no_internal_error. Proof. exact c11_no_internal_error. Qed.
Print Assumptions C11_no_internal_error_holds.
(* the aggregates of capacity loss do not depend on the order in which events were added *)
Theorem C11_order_independent_aggregates : C07_perm. Proof. exact c07_perm. Qed.
Print Assumptions C11_order_independent_aggregates.
(* finishing events: the survivors find their own block under their new id (Spec/StatementsCarry.v) *)
Require Import Boario.Spec.StatementsCarry Boario.Proofs.C11CarryProofs.
Theorem C11_carry_ids_holds : C11_carry_ids. Proof. exact c11_carry_ids. Qed.
Print Assumptions C11_carry_ids_holds.
Theorem C11_carry_blocks_holds : C11_carry_blocks. Proof. exact c11_carry_blocks. Qed.
Print Assumptions C11_carry_blocks_holds.
