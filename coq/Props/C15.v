(* Props/C15.v - property theorems of C15: statements from Spec/StatementsIO.v. *)
Require Import Boario.Spec.StatementsIO Boario.Proofs.C15Proofs.
Theorem C15_canon_holds : C15_canon. Proof. exact c15_canon. Qed.
Print Assumptions C15_canon_holds.
Theorem C15_sorted_holds : C15_sorted. Proof. exact c15_sorted. Qed.
Print Assumptions C15_sorted_holds.
Theorem C15_canon_mat_rows_holds : C15_canon_mat_rows. Proof. exact c15_canon_mat_rows. Qed.
Print Assumptions C15_canon_mat_rows_holds.
Theorem C15_canon_mat_cols_holds : C15_canon_mat_cols. Proof. exact c15_canon_mat_cols. Qed.
Print Assumptions C15_canon_mat_cols_holds.
