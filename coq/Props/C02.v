(* Props/C02.v - property theorems of C02: statements from Spec/StatementsSpec.v
   (the specification itself is Spec/ArioSpec.v). *)
Require Import Boario.Spec.StatementsSpec Boario.Proofs.C02Proofs.
Theorem C02_refines_holds : C02_refines. Proof. exact c02_refines. Qed.
Print Assumptions C02_refines_holds.
Theorem C02_orders_holds : C02_orders. Proof. exact c02_orders. Qed.
Print Assumptions C02_orders_holds.
Theorem C02_compose_holds : C02_compose. Proof. exact c02_compose. Qed.
Print Assumptions C02_compose_holds.
