(* Props/C12.v - property theorems of C12: statements from Spec/StatementsIO.v. *)
Require Import Boario.Spec.StatementsIO Boario.Proofs.C12Proofs Boario.Proofs.C12LblProofs.
Theorem C12_total_holds : C12_total. Proof. exact c12_total. Qed.
Print Assumptions C12_total_holds.
Theorem C12_proportions_holds : C12_proportions. Proof. exact c12_proportions. Qed.
Print Assumptions C12_proportions_holds.
Theorem C12_positive_holds : C12_positive. Proof. exact c12_positive. Qed.
Print Assumptions C12_positive_holds.
Theorem C12_product_holds : C12_product. Proof. exact c12_product. Qed.
Print Assumptions C12_product_holds.
Theorem C12_reject_holds : C12_reject. Proof. exact c12_reject. Qed.
Print Assumptions C12_reject_holds.
Theorem C12_labelled_holds : C12_labelled. Proof. exact c12_labelled. Qed.
Print Assumptions C12_labelled_holds.
