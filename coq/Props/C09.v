(* Props/C09.v - property theorems of C09: statements from Spec/StatementsEv.v. *)
Require Import Boario.Spec.StatementsEv Boario.Proofs.C08Proofs Boario.Proofs.C09Proofs.
Theorem C09_recover_holds : C09_recover. Proof. exact c09_recover. Qed.
Print Assumptions C09_recover_holds.
Theorem C09_rounding_holds : C09_rounding. Proof. exact c09_rounding. Qed.
Print Assumptions C09_rounding_holds.
Theorem C09_linear_shape_holds : C09_linear_shape. Proof. exact c09_linear_shape. Qed.
Print Assumptions C09_linear_shape_holds.
Theorem C09_convexe_shape_holds : C09_convexe_shape. Proof. exact c09_convexe_shape. Qed.
Print Assumptions C09_convexe_shape_holds.
