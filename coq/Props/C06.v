(* Props/C06.v - property theorems of C06: statements come from Spec/Statements.v,
   proofs from Proofs/C06Proofs.v.  Nothing else lives here. *)
Require Import Boario.Spec.Statements Boario.Proofs.C06Proofs.
Theorem C06_statement_holds : C06_statement. Proof. exact c06. Qed.
Print Assumptions C06_statement_holds.
