(* Props/C19.v - property theorems of C19: statements from Spec/StatementsShift.v. *)
Require Import Boario.Spec.StatementsShift Boario.Proofs.C19Proofs.
Theorem C19_step_equivariant_holds : C19_step_equivariant. Proof. exact c19_step_equivariant. Qed.
Print Assumptions C19_step_equivariant_holds.
Theorem C19_shift_holds : C19_shift. Proof. exact c19_shift. Qed.
Print Assumptions C19_shift_holds.
