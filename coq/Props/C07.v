(* Props/C07.v - property theorems of C07: statements from Spec/StatementsEv.v, proofs from Proofs/C07Proofs.v. *)
Require Import Boario.Spec.StatementsEv Boario.Proofs.C07Proofs.
Theorem C07_formula_holds : C07_formula. Proof. exact c07_formula. Qed.
Print Assumptions C07_formula_holds.
Theorem C07_range_holds : C07_range. Proof. exact c07_range. Qed.
Print Assumptions C07_range_holds.
Theorem C07_support_holds : C07_support. Proof. exact c07_support. Qed.
Print Assumptions C07_support_holds.
Theorem C07_reject_holds : C07_reject. Proof. exact c07_reject. Qed.
Print Assumptions C07_reject_holds.
Theorem C07_perm_holds : C07_perm. Proof. exact c07_perm. Qed.
Print Assumptions C07_perm_holds.
