(* Props/C04.v - property theorems of C04: statements come from Spec/Statements.v,
   proofs from Proofs/C04Proofs.v.  Nothing else lives here. *)
Require Import Boario.Spec.Statements Boario.Proofs.C04Proofs.
Theorem C04_statement_holds : C04_statement. Proof. exact c04. Qed.
Print Assumptions C04_statement_holds.
