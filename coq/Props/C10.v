(* Props/C10.v - property theorems of C10: statements from Spec/StatementsEv.v, proofs from Proofs/C10Proofs.v. *)
Require Import Boario.Spec.StatementsEv Boario.Proofs.C10Proofs Boario.Proofs.C10SessionProofs.
Theorem C10_activate_holds : C10_activate. Proof. exact c10_activate. Qed.
Print Assumptions C10_activate_holds.
Theorem C10_start_holds : C10_start. Proof. exact c10_start. Qed.
Print Assumptions C10_start_holds.
Theorem C10_ledgers_monotone_holds : C10_ledgers_monotone. Proof. exact c10_ledgers_monotone. Qed.
Print Assumptions C10_ledgers_monotone_holds.
Theorem C10_step_monotone_holds : C10_step_monotone. Proof. exact c10_step_monotone. Qed.
Print Assumptions C10_step_monotone_holds.
Theorem C10_prefix_holds : C10_prefix. Proof. exact c10_prefix. Qed.
Print Assumptions C10_prefix_holds.
Theorem C10_session_holds : C10_session. Proof. exact c10_session. Qed.
Print Assumptions C10_session_holds.
Theorem C10_late_registration_holds : C10_late_registration. Proof. exact c10_late_registration. Qed.
Print Assumptions C10_late_registration_holds.
Theorem C10_late_registration_any_id_refuted : ~ C10_late_registration_any_id. Proof. exact c10_late_registration_any_id_refuted. Qed.
Print Assumptions C10_late_registration_any_id_refuted.
(* run level (Spec/StatementsLate.v) *)
Require Import Boario.Spec.StatementsLate Boario.Proofs.C10LateRunProofs.
Theorem C10_late_run_holds : C10_late_run. Proof. exact c10_late_run. Qed.
Print Assumptions C10_late_run_holds.
Theorem C10_late_creation_holds : C10_late_creation. Proof. exact c10_late_creation. Qed.
Print Assumptions C10_late_creation_holds.
