(* Props/C01.v - property theorems of C01: statements from Spec/StatementsRun.v. *)
Require Import Boario.Spec.StatementsRun Boario.Proofs.C01Proofs.
Theorem C01_step_holds : C01_step. Proof. exact c01_step. Qed.
Print Assumptions C01_step_holds.
Theorem C01_run_holds : C01_run. Proof. exact c01_run. Qed.
Print Assumptions C01_run_holds.
Theorem C01_zdist_holds : C01_zdist. Proof. exact c01_zdist. Qed.
Print Assumptions C01_zdist_holds.
