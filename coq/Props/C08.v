(* Props/C08.v - property theorems of C08: statements from Spec/StatementsEv.v, proofs from Proofs/C08Proofs.v. *)
Require Import Boario.Spec.StatementsEv Boario.Proofs.C08Proofs.
Theorem C08_ledger_cell_holds : C08_ledger_cell. Proof. exact c08_ledger_cell. Qed.
Print Assumptions C08_ledger_cell_holds.
Theorem C08_ledger_monotone_holds : C08_ledger_monotone. Proof. exact c08_ledger_monotone. Qed.
Print Assumptions C08_ledger_monotone_holds.
Theorem C08_receive_holds : C08_receive. Proof. exact c08_receive. Qed.
Print Assumptions C08_receive_holds.
Theorem C08_presented_holds : C08_presented. Proof. exact c08_presented. Qed.
Print Assumptions C08_presented_holds.
Theorem C08_creation_holds : C08_creation. Proof. exact c08_creation. Qed.
Print Assumptions C08_creation_holds.
Theorem C08_creation_total_holds : C08_creation_total. Proof. exact c08_creation_total. Qed.
Print Assumptions C08_creation_total_holds.
Theorem C08_creation_rejects_holds : C08_creation_rejects. Proof. exact c08_creation_rejects. Qed.
Print Assumptions C08_creation_rejects_holds.
