(* Props/C16.v - property theorems of C16: statements from Spec/StatementsRun.v. *)
Require Import Boario.Spec.StatementsRun Boario.Proofs.C16Proofs.
Theorem C16_compose_holds : C16_compose. Proof. exact c16_compose. Qed.
Print Assumptions C16_compose_holds.
Theorem C16_prefix_holds : C16_prefix. Proof. exact c16_prefix. Qed.
Print Assumptions C16_prefix_holds.
Theorem C16_rows_holds : C16_rows. Proof. exact c16_rows. Qed.
Print Assumptions C16_rows_holds.
Theorem C16_length_holds : C16_length. Proof. exact c16_length. Qed.
Print Assumptions C16_length_holds.
(* the record arrays (Model/Records.v, Spec/StatementsRec.v) *)
Require Import Boario.Spec.StatementsRec Boario.Proofs.C16RecProofs.
Theorem C16_recorded_holds : C16_recorded. Proof. exact c16_recorded. Qed.
Print Assumptions C16_recorded_holds.
Theorem C16_recorded_length_holds : C16_recorded_length. Proof. exact c16_recorded_length. Qed.
Print Assumptions C16_recorded_length_holds.
Theorem C16_recorded_prefix_holds : C16_recorded_prefix. Proof. exact c16_recorded_prefix. Qed.
Print Assumptions C16_recorded_prefix_holds.
Theorem C16_run_records_holds : C16_run_records. Proof. exact c16_run_records. Qed.
Print Assumptions C16_run_records_holds.
