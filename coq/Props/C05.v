(* Props/C05.v - property theorems of C05: statements come from Spec/Statements.v,
   proofs from Proofs/C05Proofs.v.  Nothing else lives here. *)
Require Import Boario.Spec.Statements Boario.Proofs.C05Proofs.
Theorem C05_accounting_holds : C05_accounting. Proof. exact c05_accounting. Qed.
Print Assumptions C05_accounting_holds.
Theorem C05_crash_holds : C05_crash. Proof. exact c05_crash. Qed.
Print Assumptions C05_crash_holds.
Theorem C05_infinite_holds : C05_infinite. Proof. exact c05_infinite. Qed.
Print Assumptions C05_infinite_holds.
(* run-level clauses (Spec/StatementsRun.v) *)
Require Import Boario.Spec.StatementsRun Boario.Proofs.C16Proofs.
Theorem C05_nonneg_step_holds : C05_nonneg_step. Proof. exact c05_nonneg_step. Qed.
Print Assumptions C05_nonneg_step_holds.
Theorem C05_nonneg_run_holds : C05_nonneg_run. Proof. exact c05_nonneg_run. Qed.
Print Assumptions C05_nonneg_run_holds.
Theorem C05_stops_holds : C05_stops. Proof. exact c05_stops. Qed.
Print Assumptions C05_stops_holds.
