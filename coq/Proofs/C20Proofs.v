(* Proofs/C20Proofs.v - C20: well-formedness is an invariant of every Ok step and of
   every run; what a step records is non-negative and within bounds; C14 along
   every history. *)
Require Import Boario.Base.QcLib Boario.Base.Vec Boario.Model.Econ Boario.Model.EconBase
  Boario.Model.Events Boario.Model.Sim Boario.Model.Tracker Boario.Model.RecoveryFns
  Boario.Spec.Statements Boario.Spec.StatementsEv Boario.Spec.StatementsRun
  Boario.Spec.StatementsWF.
Require Import Boario.Proofs.C03Proofs Boario.Proofs.C04Proofs Boario.Proofs.C05Proofs
  Boario.Proofs.C07Proofs Boario.Proofs.C11Proofs Boario.Proofs.C14Proofs
  Boario.Proofs.C20Aux.
Open Scope Qc_scope.

(* ================================================================== *)
(* the step after the events phase, with every intermediate value named *)

Section Names.
Variable e : env.
Variable s1 : sim.

Definition c20_E : nat := nE (eco s1).
Definition c20_W : nat := WW (P e) c20_E.
Definition c20_d1 : mat := dem (eco s1).
Definition c20_dtot : vec := dtot_of e c20_E c20_d1.
Definition c20_a1 : vec :=
  if Nat.ltb 1 (now s1) then overprod (P e) (alpha (eco s1)) c20_dtot (prod (eco s1))
  else alpha (eco s1).
Definition c20_capv : vec := cap (P e) c20_a1 (delta (eco s1)).
Definition c20_optv : vec := opt (P e) c20_dtot c20_capv.
Definition c20_x : vec := production (P e) (stock (eco s1)) c20_optv.
Definition c20_lim : list (list bool) := limiting (P e) (stock (eco s1)) c20_optv.
Definition c20_o : obs :=
  {| o_stocks := stock (eco s1); o_alpha := c20_a1;
     o_rebdem := tab (NN (P e)) (fun f => blocksum c20_d1 f (NN (P e) + FF (P e))
                                            (c20_W - NN (P e) - FF (P e)));
     o_fd := tab (NN (P e)) (fun f => blocksum c20_d1 f (NN (P e)) (FF (P e)));
     o_io := tab (NN (P e)) (fun f => blocksum c20_d1 f 0 (NN (P e)));
     o_limiting := c20_lim; o_prod := c20_x; o_cap := c20_capv; o_klost := klost (eco s1);
     o_unmet := None; o_rprod := None |}.
Definition c20_del : mat := deliver (P e) c20_W c20_d1 c20_x.
Definition c20_use : mat := stock_use (P e) c20_x.
Definition c20_add : mat := stock_add (P e) c20_del.
Definition c20_mk (st' d' : mat) (u : vec) (r : mat) (trs' : list tracker) : sim :=
  {| eco := {| alpha := c20_a1; stock := st'; dem := d'; nE := nE (eco s1); prod := c20_x;
               delta := delta (eco s1); klost := klost (eco s1); unmetv := u; rprod := r |};
     trs := trs'; now := now s1 |}.
Definition c20_st2 : mat := stock_update (P e) (stock (eco s1)) c20_add c20_use.
Definition c20_u : vec := unmet (P e) c20_d1 c20_del.
Definition c20_rp : mat := rebuild_prod (P e) c20_W c20_del.
Definition c20_d2 : mat := sub_rebuild e c20_E c20_d1 c20_del.
Definition c20_o2 : obs :=
  {| o_stocks := o_stocks c20_o; o_alpha := o_alpha c20_o; o_rebdem := o_rebdem c20_o;
     o_fd := o_fd c20_o; o_io := o_io c20_o; o_limiting := c20_lim; o_prod := c20_x;
     o_cap := c20_capv; o_klost := klost (eco s1);
     o_unmet := Some c20_u;
     o_rprod := Some (tab (NN (P e)) (fun f => sumn (c20_W - NN (P e) - FF (P e))
                                                 (fun j => get c20_rp f j))) |}.
Definition c20_trs3 : list tracker := rebuild_ledgers (P e) (prec e) c20_E c20_rp (trs s1).
Definition c20_nfin : nat := (count_rebuilding (trs s1) - count_rebuilding c20_trs3)%nat.
Definition c20_trs4 : list tracker :=
  if Nat.eqb c20_nfin 0 then c20_trs3 else compact_ids (trs s1) c20_trs3.
Definition c20_E' : nat := (c20_E - c20_nfin)%nat.
Definition c20_d3 : mat :=
  if Nat.eqb c20_nfin 0 then c20_d2
  else tab2 (NN (P e)) (WW (P e) c20_E')
         (fun f j => if Nat.ltb j (NN (P e) + FF (P e)) then get c20_d2 f j
                     else moved_cell (P e) c20_E c20_E' (kept_ids c20_E c20_trs3) c20_d2 f
                            (j - (NN (P e) + FF (P e)))).
Definition c20_trs5 : list tracker := recover_ledgers (prec e) (now s1) c20_trs4.
Definition c20_optv' : vec := opt (P e) (dtot_of e c20_E' c20_d3) c20_capv.
Definition c20_ords : mat := orders (P e) c20_st2 c20_optv' c20_x c20_capv.
Definition c20_ok : sim :=
  {| eco := {| alpha := c20_a1; stock := c20_st2; dem := set_orders e c20_E' c20_d3 c20_ords;
               nE := c20_E'; prod := c20_x; delta := delta (eco s1); klost := klost (eco s1);
               unmetv := c20_u; rprod := c20_rp |};
     trs := c20_trs5; now := (now s1 + dt e)%nat |}.

Definition c20_tail : outcome * option obs :=
  if cap_negative (P e) c20_capv then (Error NegativeCapacity s1, None) else
  if distribute_crash (P e) (stock (eco s1)) c20_add c20_use
  then (Crash (c20_mk c20_st2 c20_d1 (unmetv (eco s1)) (rprod (eco s1)) (trs s1)), Some c20_o)
  else
  if existsb (fun tr => is_rebuilding tr && match rid tr with None => true | Some _ => false end)
       (trs s1)
  then (Error NoRebuildId (c20_mk c20_st2 c20_d2 c20_u c20_rp (trs s1)), Some c20_o2) else
  if any_negative (NN (P e)) (NN (P e)) c20_ords
  then (Error NegativeOrders (c20_mk c20_st2 c20_d3 c20_u c20_rp c20_trs5), Some c20_o2)
  else (Ok c20_ok, Some c20_o2).
End Names.

Lemma c20_step_eq e s :
  step e s = match events_phase e s with
             | None => (Error CapitalExceeded s, None)
             | Some (s1, _) => c20_tail e s1
             end.
Proof. reflexivity. Qed.

(* ================================================================== *)
(* small facts about the economic phases                               *)

Lemma c20_production_bounds P stock optv f :
  (forall p f, (p < nS P)%nat -> (f < NN P)%nat -> 0 <= get (tech P) p f) ->
  0 <= psi P -> (forall p, 0 <= invq P p) ->
  (forall p f, (p < nS P)%nat -> (f < NN P)%nat -> isinf P p = false -> 0 <= get stock p f) ->
  (f < NN P)%nat -> 0 <= getv optv f ->
  0 <= getv (production P stock optv) f /\ getv (production P stock optv) f <= getv optv f.
Proof.
  intros Htech Hpsi Hinv Hstock Hf Hopt. rewrite c03_production_unfold.
  destruct (any_short P stock (constraints P optv)); [|split; [exact Hopt|apply Qcle_refl]].
  rewrite getv_tab by exact Hf. rewrite c03_prod_min_unfold. split; [|apply minn_le_d].
  apply minn_glb; [exact Hopt|]. intros p Hp. apply Qc_mul_nonneg; [exact Hopt|].
  destruct (c03_ratio_cases P stock (constraints P optv) p f) as [E1|[_ [Hi [_ Eq]]]].
  - rewrite E1. apply c20_le_0_1.
  - rewrite Eq. apply qmin_glb; [apply c20_le_0_1|].
    apply Qc_div_nonneg; [apply Hstock; assumption|].
    rewrite c03_cons_get by assumption.
    apply Qc_mul_nonneg; [apply Qc_mul_nonneg; [apply Qc_mul_nonneg|]|].
    + exact Hopt.
    + apply Htech; assumption.
    + exact Hpsi.
    + apply Hinv.
Qed.

Lemma c20_cap_nonneg P capv :
  cap_negative P capv = false -> forall f, (f < NN P)%nat -> 0 <= getv capv f.
Proof.
  intros H f Hf. unfold cap_negative in H. rewrite anyn_false in H. specialize (H f Hf).
  cbv beta in H. destruct (Qcltb_spec (getv capv f) 0) as [L|L]; [discriminate H|].
  apply Qcnot_lt_le. exact L.
Qed.

Lemma c20_stock_update_nonneg P stock add use :
  (forall p f, (p < nS P)%nat -> (f < NN P)%nat -> isinf P p = false -> 0 <= get stock p f) ->
  distribute_crash P stock add use = false ->
  forall p f, (p < nS P)%nat -> (f < NN P)%nat -> isinf P p = false ->
    0 <= get (stock_update P stock add use) p f.
Proof.
  intros Hs Hc p f Hp Hf Hi. unfold distribute_crash in Hc.
  apply orb_false_iff in Hc. destruct Hc as [_ Hc].
  destruct (add_use_close P add use) eqn:Ecl.
  - unfold stock_update. rewrite Ecl. apply Hs; assumption.
  - cbn [negb andb] in Hc.
    destruct (Qclt_le_dec (get (stock_update P stock add use) p f) 0) as [L|L]; [|exact L].
    exfalso. assert (X : stock_negative P (stock_update P stock add use) = true).
    { apply c05_stock_negative_spec. exists p, f. repeat split; assumption. }
    rewrite X in Hc. discriminate Hc.
Qed.

(* ================================================================== *)
(* the step after a well-formed events phase                           *)

Section Mid.
Variable e : env.
Variable s1 : sim.
Hypothesis HP : WFP e.
Hypothesis HW : WF e s1.

Lemma c20_d1_nonneg f j : (f < NN (P e))%nat -> 0 <= get (c20_d1 s1) f j.
Proof. intro Hf. apply (wf_dem e s1 HW). exact Hf. Qed.

Lemma c20_dtot_get f : (f < NN (P e))%nat ->
  getv (c20_dtot e s1) f = rowtot (c20_W e s1) (c20_d1 s1) f.
Proof. intro Hf. unfold c20_dtot, dtot_of. rewrite getv_tab by exact Hf. reflexivity. Qed.

Lemma c20_dtot_nonneg f : (f < NN (P e))%nat -> 0 <= getv (c20_dtot e s1) f.
Proof.
  intro Hf. rewrite c20_dtot_get by exact Hf. unfold rowtot. apply sumn_nonneg.
  intros j _. apply c20_d1_nonneg. exact Hf.
Qed.

Lemma c20_a1_bounds f : (f < NN (P e))%nat ->
  1 <= getv (c20_a1 e s1) f /\ getv (c20_a1 e s1) f <= a_max (P e).
Proof.
  intro Hf. unfold c20_a1. destruct (Nat.ltb 1 (now s1)); [|apply (wf_alpha e s1 HW); exact Hf].
  unfold overprod. rewrite getv_tab by exact Hf.
  destruct (wf_alpha e s1 HW f Hf) as [A B].
  apply c14_bounds; [exact (wp_alpha e HP)|exact A|exact B|].
  apply c14_scarcity; [apply (wf_prod e s1 HW); exact Hf|apply c20_dtot_nonneg; exact Hf].
Qed.

Hypothesis Hcap : cap_negative (P e) (c20_capv e s1) = false.

Lemma c20_capv_nonneg f : (f < NN (P e))%nat -> 0 <= getv (c20_capv e s1) f.
Proof. apply c20_cap_nonneg. exact Hcap. Qed.

Lemma c20_optv_nonneg f : (f < NN (P e))%nat -> 0 <= getv (c20_optv e s1) f.
Proof.
  intro Hf. unfold c20_optv. rewrite c03_opt_get by exact Hf.
  apply qmin_glb; [apply c20_dtot_nonneg|apply c20_capv_nonneg]; exact Hf.
Qed.

Lemma c20_x_bounds f : (f < NN (P e))%nat ->
  0 <= getv (c20_x e s1) f /\ getv (c20_x e s1) f <= getv (c20_dtot e s1) f /\
  getv (c20_x e s1) f <= getv (c20_capv e s1) f.
Proof.
  intro Hf.
  destruct (c20_production_bounds (P e) (stock (eco s1)) (c20_optv e s1) f
              (wp_tech e HP) (wp_psi e HP) (wp_inv e HP) (wf_stock e s1 HW) Hf
              (c20_optv_nonneg f Hf)) as [A B].
  fold (c20_x e s1) in A, B. split; [exact A|].
  assert (Eo : getv (c20_optv e s1) f = qmin (getv (c20_dtot e s1) f) (getv (c20_capv e s1) f))
    by (apply c03_opt_get; exact Hf).
  split; (eapply Qcle_trans; [exact B|]); rewrite Eo; [apply qmin_l|apply qmin_r].
Qed.

(* deliveries *)
Lemma c20_del_facts f : (f < NN (P e))%nat ->
  (forall j, (j < c20_W e s1)%nat ->
     0 <= get (c20_del e s1) f j /\ get (c20_del e s1) f j <= get (c20_d1 s1) f j) /\
  0 <= getv (c20_u e s1) f.
Proof.
  intro Hf.
  pose proof (c04 (P e) (c20_E s1) (c20_d1 s1) (c20_x e s1)) as H. cbv zeta in H.
  assert (H1 : forall f j, (f < NN (P e))%nat -> (j < WW (P e) (c20_E s1))%nat ->
                 0 <= get (c20_d1 s1) f j) by (intros; apply c20_d1_nonneg; assumption).
  assert (H2 : forall f, (f < NN (P e))%nat ->
                 0 <= getv (c20_x e s1) f /\
                 getv (c20_x e s1) f <= rowtot (WW (P e) (c20_E s1)) (c20_d1 s1) f).
  { intros g Hg. destruct (c20_x_bounds g Hg) as [A [B _]]. split; [exact A|].
    rewrite c20_dtot_get in B by exact Hg. exact B. }
  specialize (H H1 H2 f Hf). destruct H as [_ [Hj [_ [Hu _]]]].
  split; [|exact Hu]. intros j Hj'. destruct (Hj j Hj') as [_ X]. exact X.
Qed.

Lemma c20_d2_nonneg f j : (f < NN (P e))%nat -> 0 <= get (c20_d2 e s1) f j.
Proof.
  intro Hf. unfold c20_d2, sub_rebuild. revert f j Hf. 
  assert (X : forall i j, 0 <= get (tab2 (NN (P e)) (WW (P e) (c20_E s1))
      (fun f j => if Nat.ltb j (NN (P e) + FF (P e)) then get (c20_d1 s1) f j
                  else get (c20_d1 s1) f j - get (c20_del e s1) f j)) i j).
  { apply c20_get_tab2_nonneg. intros i k Hi Hk.
    destruct (Nat.ltb _ _); [apply c20_d1_nonneg; exact Hi|].
    destruct (c20_del_facts i Hi) as [D _]. destruct (D k Hk) as [_ D2].
    qc2q. lra. }
  intros f j _. apply X.
Qed.

Lemma c20_d3_nonneg f j : (f < NN (P e))%nat -> 0 <= get (c20_d3 e s1) f j.
Proof.
  intro Hf. unfold c20_d3. destruct (Nat.eqb _ 0); [apply c20_d2_nonneg; exact Hf|].
  apply c20_get_tab2_nonneg. intros i k Hi Hk.
  destruct (Nat.ltb _ _); [apply c20_d2_nonneg; exact Hi|].
  unfold moved_cell. destruct (Nat.ltb _ _); apply c20_d2_nonneg; exact Hi.
Qed.

Lemma c20_rp_nonneg f j : (f < NN (P e))%nat -> 0 <= get (c20_rp e s1) f j.
Proof.
  intro Hf. unfold c20_rp, rebuild_prod. apply c20_get_tab2_nonneg. intros i k Hi Hk.
  destruct (c20_del_facts i Hi) as [D _]. apply D. lia.
Qed.

Lemma c20_trs5_ok : Forall tracker_ok (c20_trs5 e s1).
Proof.
  unfold c20_trs5. apply c20_recover_ledgers_ok. unfold c20_trs4.
  assert (H3 : Forall tracker_ok (c20_trs3 e s1)).
  { unfold c20_trs3. apply c20_rebuild_ledgers_ok. exact (wf_trs e s1 HW). }
  destruct (Nat.eqb _ 0); [exact H3|apply c20_compact_ok; exact H3].
Qed.

(* observations *)
Lemma c20_blocksum_nonneg f lo n : (f < NN (P e))%nat -> 0 <= blocksum (c20_d1 s1) f lo n.
Proof. intro Hf. unfold blocksum. apply sumn_nonneg. intros j _. apply c20_d1_nonneg. exact Hf. Qed.

Hypothesis Hkl : forall f, (f < NN (P e))%nat -> 0 <= getv (klost (eco s1)) f.

Lemma c20_o_facts f : (f < NN (P e))%nat ->
  0 <= getv (o_prod (c20_o e s1)) f /\ 0 <= getv (o_cap (c20_o e s1)) f /\
  getv (o_prod (c20_o e s1)) f <= getv (o_cap (c20_o e s1)) f /\
  1 <= getv (o_alpha (c20_o e s1)) f /\ getv (o_alpha (c20_o e s1)) f <= a_max (P e) /\
  0 <= getv (o_klost (c20_o e s1)) f /\ 0 <= getv (o_rebdem (c20_o e s1)) f /\
  0 <= getv (o_io (c20_o e s1)) f /\ 0 <= getv (o_fd (c20_o e s1)) f.
Proof.
  intro Hf. unfold c20_o. cbn [o_prod o_cap o_alpha o_klost o_rebdem o_io o_fd].
  destruct (c20_x_bounds f Hf) as [A [_ B]]. destruct (c20_a1_bounds f Hf) as [C D].
  rewrite !getv_tab by exact Hf.
  repeat split; try assumption; try (apply c20_blocksum_nonneg; exact Hf).
  - apply c20_capv_nonneg; exact Hf.
  - apply Hkl; exact Hf.
Qed.

Lemma c20_o2_unmet f : (f < NN (P e))%nat -> 0 <= getv (c20_u e s1) f.
Proof. intro Hf. apply (c20_del_facts f Hf). Qed.

Lemma c20_o2_rprod f : (f < NN (P e))%nat ->
  0 <= getv (tab (NN (P e)) (fun f => sumn (c20_W e s1 - NN (P e) - FF (P e))
                                        (fun j => get (c20_rp e s1) f j))) f.
Proof.
  intro Hf. rewrite getv_tab by exact Hf. apply sumn_nonneg. intros j _.
  apply c20_rp_nonneg. exact Hf.
Qed.

(* the state of an Ok step *)
Hypothesis Hcrash : distribute_crash (P e) (stock (eco s1)) (c20_add e s1) (c20_use e s1) = false.
Hypothesis Hneg : any_negative (NN (P e)) (NN (P e)) (c20_ords e s1) = false.
Hypothesis Hids : ids_ok (nE (eco (c20_ok e s1))) (trs (c20_ok e s1)).

Lemma c20_ok_wf : WF e (c20_ok e s1).
Proof.
  constructor.
  - intros f Hf. apply c20_a1_bounds. exact Hf.
  - intros p f Hp Hf Hi. unfold c20_ok. cbn [eco stock]. unfold c20_st2.
    apply c20_stock_update_nonneg; try assumption. exact (wf_stock e s1 HW).
  - intros f Hf. apply (c20_x_bounds f Hf).
  - unfold c20_ok. cbn [eco dem]. unfold set_orders.
    assert (X : forall i j, 0 <= get (tab2 (NN (P e)) (WW (P e) (c20_E' e s1))
       (fun f j => if Nat.ltb j (NN (P e)) then get (c20_ords e s1) f j
                   else get (c20_d3 e s1) f j)) i j).
    { apply c20_get_tab2_nonneg. intros i k Hi Hk.
      destruct (Nat.ltb_spec k (NN (P e))) as [L|L].
      - apply (c20_any_negative_false _ _ _ Hneg); assumption.
      - apply c20_d3_nonneg. exact Hi. }
    intros f j _. apply X.
  - exact (wf_delta e s1 HW).
  - exact c20_trs5_ok.
  - exact Hids.
Qed.

End Mid.

(* ================================================================== *)
(* the theorems                                                        *)

Definition c20_obs_ok (e : env) (o : obs) : Prop :=
  (forall f, (f < NN (P e))%nat ->
     0 <= getv (o_prod o) f /\ 0 <= getv (o_cap o) f /\
     getv (o_prod o) f <= getv (o_cap o) f /\
     1 <= getv (o_alpha o) f /\ getv (o_alpha o) f <= a_max (P e) /\
     0 <= getv (o_klost o) f /\ 0 <= getv (o_rebdem o) f /\
     0 <= getv (o_io o) f /\ 0 <= getv (o_fd o) f) /\
  (forall u, o_unmet o = Some u -> forall f, (f < NN (P e))%nat -> 0 <= getv u f) /\
  (forall u, o_rprod o = Some u -> forall f, (f < NN (P e))%nat -> 0 <= getv u f).

Lemma c20_obs_o e s1 :
  WFP e -> WF e s1 -> cap_negative (P e) (c20_capv e s1) = false ->
  (forall f, (f < NN (P e))%nat -> 0 <= getv (klost (eco s1)) f) ->
  c20_obs_ok e (c20_o e s1).
Proof.
  intros HP HW Hcap Hkl. split; [|split].
  - intros f Hf. apply c20_o_facts; assumption.
  - intros u X. discriminate X.
  - intros u X. discriminate X.
Qed.

Lemma c20_obs_o2 e s1 :
  WFP e -> WF e s1 -> cap_negative (P e) (c20_capv e s1) = false ->
  (forall f, (f < NN (P e))%nat -> 0 <= getv (klost (eco s1)) f) ->
  c20_obs_ok e (c20_o2 e s1).
Proof.
  intros HP HW Hcap Hkl. split; [|split].
  - intros f Hf. exact (c20_o_facts e s1 HP HW Hcap Hkl f Hf).
  - intros u X. unfold c20_o2 in X. cbn [o_unmet] in X. injection X as <-.
    intros f Hf. apply c20_o2_unmet; assumption.
  - intros u X. unfold c20_o2 in X. cbn [o_rprod] in X. injection X as <-.
    intros f Hf. apply c20_o2_rprod; assumption.
Qed.

Lemma c20_wf_step : C20_wf_step.
Proof.
  intros e s s' o HP HW H.
  pose proof (c11_ids_step e s s' o (wf_ids e s HW) H) as Hids.
  rewrite c20_step_eq in H.
  destruct (events_phase e s) as [[s1 r]|] eqn:Hev; [|discriminate H].
  destruct (c20_events_wf e s s1 r HP HW Hev) as [HW1 [_ Hkl]].
  unfold c20_tail in H.
  destruct (cap_negative (P e) (c20_capv e s1)) eqn:Hcap; [discriminate H|].
  destruct (distribute_crash (P e) (stock (eco s1)) (c20_add e s1) (c20_use e s1)) eqn:Hcrash;
    [discriminate H|].
  destruct (existsb _ (trs s1)); [discriminate H|].
  destruct (any_negative (NN (P e)) (NN (P e)) (c20_ords e s1)) eqn:Hneg; [discriminate H|].
  injection H as H _. subst s'.
  apply c20_ok_wf; assumption.
Qed.
Print Assumptions c20_wf_step.

Lemma c20_wf_run : C20_wf_run.
Proof.
  intros e k. induction k as [|k IH]; intros s s' os HP HW H.
  - cbn [run] in H. injection H as H _. subst s'. exact HW.
  - cbn [run] in H. destruct (step e s) as [r o] eqn:Hs.
    destruct r as [s2|s2|er s2]; destruct o as [o|]; try discriminate H.
    + destruct (run e k s2) as [r2 os2] eqn:Hr. injection H as H _. subst r2.
      apply (IH s2 s' os2 HP); [|exact Hr]. apply (c20_wf_step e s s2 (Some o) HP HW Hs).
    + apply (IH s2 s' os HP); [|exact H]. apply (c20_wf_step e s s2 None HP HW Hs).
Qed.
Print Assumptions c20_wf_run.

Lemma c20_obs : C20_obs.
Proof.
  intros e s r o HP HW H. change (c20_obs_ok e o).
  rewrite c20_step_eq in H.
  destruct (events_phase e s) as [[s1 r1]|] eqn:Hev; [|discriminate H].
  destruct (c20_events_wf e s s1 r1 HP HW Hev) as [HW1 [_ Hkl]].
  unfold c20_tail in H.
  destruct (cap_negative (P e) (c20_capv e s1)) eqn:Hcap; [discriminate H|].
  destruct (distribute_crash _ _ _ _).
  { injection H as _ H. subst o. apply c20_obs_o; assumption. }
  destruct (existsb _ (trs s1)).
  { injection H as _ H. subst o. apply c20_obs_o2; assumption. }
  destruct (any_negative _ _ _); injection H as _ H; subst o; apply c20_obs_o2; assumption.
Qed.
Print Assumptions c20_obs.

Lemma c14_invariant : C14_invariant.
Proof.
  intros e k s s' os HP HW H. exact (wf_alpha e s' (c20_wf_run e k s s' os HP HW H)).
Qed.
Print Assumptions c14_invariant.
