(* Proofs/C11Proofs.v - rebuild ids stay a bijection onto 0..E-1. *)
Require Import Boario.Base.QcLib Boario.Base.Vec Boario.Model.Econ Boario.Model.Events Boario.Model.Sim Boario.Model.Tracker Boario.Model.RecoveryFns Boario.Spec.StatementsEv.
From Coq Require Import Permutation.
Open Scope nat_scope.

(* ================================================================== *)
(* vocabulary                                                          *)

Definition c11_ol (o : option nat) : list nat := match o with Some i => [i] | None => [] end.
Definition c11_ids1 (tr : tracker) : list nat := if is_rebuilding tr then c11_ol (rid tr) else [].
Definition c11_okp (tr : tracker) : Prop :=
  if is_rebuilding tr then rid tr <> None else rid tr = None.
(* weak half: a rebuilding tracker holds an id *)
Definition c11_okw (tr : tracker) : Prop := is_rebuilding tr = true -> rid tr <> None.

Lemma c11_reb_ids_cons tr l : reb_ids (tr :: l) = c11_ids1 tr ++ reb_ids l.
Proof. reflexivity. Qed.
Lemma c11_reb_ids_nil : reb_ids [] = [].
Proof. reflexivity. Qed.
Lemma c11_ids_ok_eq E l :
  ids_ok E l <-> (Permutation (reb_ids l) (seq 0 E) /\ Forall c11_okp l).
Proof. reflexivity. Qed.

Lemma c11_okp_okw tr : c11_okp tr -> c11_okw tr.
Proof. unfold c11_okp, c11_okw. intros H E. rewrite E in H. exact H. Qed.

Lemma c11_is_reb_set_rid tr r : is_rebuilding (set_rid tr r) = is_rebuilding tr.
Proof. reflexivity. Qed.

(* a map that preserves the status test and the id preserves the invariant *)
Lemma c11_map_pres (f : tracker -> tracker) l :
  (forall tr, is_rebuilding (f tr) = is_rebuilding tr /\ rid (f tr) = rid tr) ->
  reb_ids (map f l) = reb_ids l /\ (Forall c11_okp l -> Forall c11_okp (map f l)).
Proof.
  intro Hf. induction l as [|a l [IH1 IH2]]; cbn [map].
  - split; [reflexivity|intro; constructor].
  - rewrite !c11_reb_ids_cons. destruct (Hf a) as [Ha1 Ha2]. split.
    + unfold c11_ids1. rewrite Ha1, Ha2, IH1. reflexivity.
    + intro H. inversion H as [|x y Hx Hy]; subst. constructor.
      * unfold c11_okp in *. rewrite Ha1, Ha2. exact Hx.
      * apply IH2. exact Hy.
Qed.

Lemma c11_ids_ok_map (f : tracker -> tracker) E l :
  (forall tr, is_rebuilding (f tr) = is_rebuilding tr /\ rid (f tr) = rid tr) ->
  ids_ok E l -> ids_ok E (map f l).
Proof.
  intros Hf [H1 H2]. destruct (c11_map_pres f l Hf) as [E1 E2].
  split; [rewrite E1; exact H1|apply E2; exact H2].
Qed.

(* ================================================================== *)
(* activate                                                            *)

Lemma c11_activate_pres dt t tr :
  is_rebuilding (activate dt t tr) = is_rebuilding tr /\ rid (activate dt t tr) = rid tr.
Proof.
  unfold activate. destruct (st tr) eqn:Hst; try (split; reflexivity).
  destruct (_ && _); [|split; reflexivity].
  unfold is_rebuilding. rewrite Hst. cbn. split; reflexivity.
Qed.

Lemma c11_ids_activate : C11_ids_activate.
Proof.
  intros dt t E l H. apply c11_ids_ok_map; [|exact H].
  intro tr. apply c11_activate_pres.
Qed.
Print Assumptions c11_ids_activate.

(* ================================================================== *)
(* start                                                               *)

Lemma c11_start_spec t l : forall n, Forall c11_okp l ->
  n <= snd (start t l n) /\
  Permutation (reb_ids (fst (start t l n))) (reb_ids l ++ seq n (snd (start t l n) - n)) /\
  Forall c11_okp (fst (start t l n)).
Proof.
  induction l as [|tr rest IH]; intros n Hok.
  - cbn. rewrite Nat.sub_diag. cbn. repeat split; auto.
  - inversion Hok as [|x y Hx Hy]; subst.
    assert (Hkeep : forall tr', c11_ids1 tr' = c11_ids1 tr -> c11_okp tr' ->
      forall R, R = (let '(rest', n') := start t rest n in (tr' :: rest', n')) ->
      n <= snd R /\
      Permutation (reb_ids (fst R)) (reb_ids (tr :: rest) ++ seq n (snd R - n)) /\
      Forall c11_okp (fst R)).
    { intros tr' Hid Hok' R ->. destruct (IH n Hy) as [I1 [I2 I3]].
      destruct (start t rest n) as [rest' n']. cbn [fst snd] in *.
      split; [exact I1|split].
      - rewrite !c11_reb_ids_cons, Hid, <- app_assoc. apply Permutation_app_head. exact I2.
      - constructor; assumption. }
    cbn [start].
    destruct (st tr) eqn:Hst; try (apply (Hkeep tr eq_refl Hx); reflexivity).
    destruct (Nat.leb (occ tr + dur tr) t); [|apply (Hkeep tr eq_refl Hx); reflexivity].
    assert (Hnr : is_rebuilding tr = false) by (unfold is_rebuilding; rewrite Hst; reflexivity).
    assert (Hid0 : c11_ids1 tr = []) by (unfold c11_ids1; rewrite Hnr; reflexivity).
    assert (Hrid : rid tr = None) by (unfold c11_okp in Hx; rewrite Hnr in Hx; exact Hx).
    destruct (kind tr).
    + destruct (IH (S n) Hy) as [I1 [I2 I3]].
      destruct (start t rest (S n)) as [rest' n']. cbn [fst snd] in *.
      split; [lia|split].
      * rewrite !c11_reb_ids_cons, Hid0. cbn [app].
        replace (n' - n) with (S (n' - S n)) by lia. cbn [seq].
        change (c11_ids1 (set_rid (set_st tr Rebuilding) (Some n))) with [n]. cbn [app].
        eapply Permutation_trans; [apply perm_skip; exact I2|]. apply Permutation_middle.
      * constructor; [|exact I3]. unfold c11_okp. cbn. discriminate.
    + apply (Hkeep (set_st tr Recovering)).
      * rewrite Hid0. reflexivity.
      * unfold c11_okp. cbn. exact Hrid.
      * reflexivity.
    + apply (Hkeep (set_st tr Recovering)).
      * rewrite Hid0. reflexivity.
      * unfold c11_okp. cbn. exact Hrid.
      * reflexivity.
Qed.

Lemma c11_ids_start : C11_ids_start.
Proof.
  intros t l E [H1 H2]. destruct (c11_start_spec t l E H2) as [S1 [S2 S3]].
  split; [|exact S3].
  eapply Permutation_trans; [exact S2|].
  replace (seq 0 (snd (start t l E))) with (seq 0 E ++ seq E (snd (start t l E) - E)).
  - apply Permutation_app_tail. exact H1.
  - change (seq E) with (seq (0 + E)). rewrite <- seq_app. f_equal. lia.
Qed.
Print Assumptions c11_ids_start.

(* ================================================================== *)
(* compaction: the arithmetic core                                     *)

Definition c11_below (R : list nat) (i : nat) : nat := length (filter (fun k => Nat.ltb k i) R).
Definition c11_phi (R : list nat) (i : nat) : nat := i - c11_below R i.

Lemma c11_below_all R i : (forall r, In r R -> r < i) -> c11_below R i = length R.
Proof.
  unfold c11_below. induction R as [|a R IH]; intro H; [reflexivity|]. cbn [filter].
  assert (Ha : Nat.ltb a i = true) by (apply Nat.ltb_lt, H; left; reflexivity).
  rewrite Ha. cbn [length]. rewrite IH; [reflexivity|]. intros r Hr. apply H. right. exact Hr.
Qed.

Lemma c11_below_drop R1 R2 a i : i <= a -> c11_below (R1 ++ a :: R2) i = c11_below (R1 ++ R2) i.
Proof.
  intro H. unfold c11_below. rewrite !filter_app. cbn [filter].
  assert (Ha : Nat.ltb a i = false) by (apply Nat.ltb_ge; exact H).
  rewrite Ha. reflexivity.
Qed.

Lemma c11_compact_core E : forall S R,
  Permutation (S ++ R) (seq 0 E) ->
  Permutation (map (c11_phi R) S) (seq 0 (E - length R)).
Proof.
  induction E as [|E IH]; intros S R HP.
  - apply Permutation_sym, Permutation_nil in HP. apply app_eq_nil in HP.
    destruct HP as [-> ->]. constructor.
  - rewrite seq_S in HP. cbn [plus] in HP.
    assert (Hin : In E (S ++ R)).
    { eapply Permutation_in; [apply Permutation_sym; exact HP|]. apply in_or_app. right. left. reflexivity. }
    apply in_app_or in Hin. destruct Hin as [Hin|Hin].
    + (* the largest id survives *)
      apply in_split in Hin. destruct Hin as [S1 [S2 ->]].
      rewrite <- app_assoc in HP. cbn [app] in HP.
      apply Permutation_app_inv in HP. rewrite app_nil_r, app_assoc in HP.
      assert (HR : forall r, In r R -> r < E).
      { intros r Hr. assert (Hr' : In r (seq 0 E)).
        { eapply Permutation_in; [exact HP|]. apply in_or_app. right. exact Hr. }
        apply in_seq in Hr'. lia. }
      assert (Hlen : length (S1 ++ S2) + length R = E).
      { apply Permutation_length in HP. rewrite app_length, seq_length in HP. exact HP. }
      specialize (IH _ _ HP). rewrite map_app in IH.
      rewrite map_app. cbn [map].
      assert (Hphi : c11_phi R E = E - length R).
      { unfold c11_phi. rewrite c11_below_all by exact HR. reflexivity. }
      rewrite Hphi.
      replace (Datatypes.S E - length R) with (Datatypes.S (E - length R)) by lia.
      rewrite seq_S. cbn [plus].
      eapply Permutation_trans; [apply Permutation_sym, Permutation_middle|].
      eapply Permutation_trans; [apply perm_skip; exact IH|].
      apply Permutation_cons_append.
    + (* the largest id is removed *)
      apply in_split in Hin. destruct Hin as [R1 [R2 ->]].
      rewrite app_assoc in HP. apply Permutation_app_inv in HP.
      rewrite app_nil_r, <- app_assoc in HP.
      assert (HS : forall x, In x S -> x < E).
      { intros x Hx. assert (Hx' : In x (seq 0 E)).
        { eapply Permutation_in; [exact HP|]. apply in_or_app. left. exact Hx. }
        apply in_seq in Hx'. lia. }
      assert (Hlen : length S + length (R1 ++ R2) = E).
      { apply Permutation_length in HP. rewrite app_length, seq_length in HP. exact HP. }
      specialize (IH _ _ HP).
      replace (Datatypes.S E - length (R1 ++ E :: R2)) with (E - length (R1 ++ R2))
        by (rewrite !app_length in *; cbn [length]; lia).
      eapply Permutation_trans; [|exact IH].
      rewrite (map_ext_in (c11_phi (R1 ++ E :: R2)) (c11_phi (R1 ++ R2))); [apply Permutation_refl|].
      intros x Hx. unfold c11_phi. rewrite c11_below_drop; [reflexivity|].
      apply Nat.lt_le_incl, HS. exact Hx.
Qed.

(* ================================================================== *)
(* a ledger update [g] that keeps ids and can only leave Rebuilding     *)

Section Ledger.
Variable g : tracker -> tracker.
Hypothesis g_rid : forall tr, rid (g tr) = rid tr.
Hypothesis g_reb : forall tr, is_rebuilding (g tr) = true -> is_rebuilding tr = true.

(* ids of the trackers that stop rebuilding *)
Definition c11_rr (tr : tracker) : list nat :=
  if is_rebuilding tr && negb (is_rebuilding (g tr)) then c11_ol (rid tr) else [].
Definition c11_removed (l : list tracker) : list nat := flat_map c11_rr l.

Lemma c11_removed_cons tr l : c11_removed (tr :: l) = c11_rr tr ++ c11_removed l.
Proof. reflexivity. Qed.

Lemma c11_split_ids l :
  Permutation (reb_ids l) (reb_ids (map g l) ++ c11_removed l).
Proof.
  induction l as [|tr l IH]; [constructor|].
  cbn [map]. rewrite !c11_reb_ids_cons, c11_removed_cons.
  unfold c11_ids1, c11_rr. rewrite g_rid.
  destruct (is_rebuilding (g tr)) eqn:Hg.
  - rewrite (g_reb tr Hg). cbn [andb negb app]. rewrite <- app_assoc.
    apply Permutation_app_head. exact IH.
  - destruct (is_rebuilding tr); cbn [andb negb app].
    + eapply Permutation_trans; [apply Permutation_app_head; exact IH|].
      apply Permutation_app_swap_app.
    + exact IH.
Qed.

Lemma c11_count_ids l : Forall c11_okw l -> count_rebuilding l = length (reb_ids l).
Proof.
  unfold count_rebuilding. induction l as [|tr l IH]; intro H; [reflexivity|].
  inversion H as [|x y Hx Hy]; subst. rewrite c11_reb_ids_cons, app_length. cbn [filter].
  unfold c11_ids1. unfold c11_okw in Hx. destruct (is_rebuilding tr).
  - cbn [length]. rewrite (IH Hy). destruct (rid tr); [reflexivity|]. exfalso. apply Hx; reflexivity.
  - cbn [length]. apply IH. exact Hy.
Qed.

Lemma c11_okw_map l : Forall c11_okp l -> Forall c11_okw (map g l).
Proof.
  induction l as [|tr l IH]; intro H; cbn [map]; [constructor|].
  inversion H as [|x y Hx Hy]; subst. constructor; [|apply IH; exact Hy].
  unfold c11_okw. intro Hg. rewrite g_rid. apply (c11_okp_okw tr Hx). apply g_reb. exact Hg.
Qed.

Lemma c11_okp_map_nil l : c11_removed l = [] -> Forall c11_okp l -> Forall c11_okp (map g l).
Proof.
  induction l as [|tr l IH]; intros HR H; cbn [map]; [constructor|].
  inversion H as [|x y Hx Hy]; subst. rewrite c11_removed_cons in HR.
  apply app_eq_nil in HR. destruct HR as [HR1 HR2].
  constructor; [|apply IH; assumption].
  unfold c11_okp in *. unfold c11_rr in HR1. rewrite g_rid.
  destruct (is_rebuilding (g tr)) eqn:Hg.
  - rewrite (g_reb tr Hg) in Hx. exact Hx.
  - destruct (is_rebuilding tr); [|exact Hx]. cbn [andb negb] in HR1.
    destruct (rid tr); [discriminate HR1|reflexivity].
Qed.

Lemma c11_removed_below l id :
  removed_below l (map g l) id = c11_below (c11_removed l) id.
Proof.
  unfold removed_below, c11_below. induction l as [|tr l IH]; [reflexivity|].
  cbn [map combine filter fst snd]. rewrite c11_removed_cons, filter_app, app_length, <- IH.
  unfold c11_rr. destruct (rid tr) as [k|].
  - destruct (is_rebuilding tr), (is_rebuilding (g tr)); cbn [andb negb c11_ol filter length];
      rewrite ?andb_false_r; cbn [length plus]; try reflexivity.
    rewrite andb_true_r. destruct (Nat.ltb k id); reflexivity.
  - destruct (is_rebuilding tr && negb (is_rebuilding (g tr))); reflexivity.
Qed.

Lemma c11_nfin l : Forall c11_okp l ->
  count_rebuilding l - count_rebuilding (map g l) = length (c11_removed l).
Proof.
  intro H.
  rewrite (c11_count_ids l) by (eapply Forall_impl; [|exact H]; apply c11_okp_okw).
  rewrite (c11_count_ids (map g l)) by (apply c11_okw_map; exact H).
  rewrite (Permutation_length (c11_split_ids l)), app_length. lia.
Qed.
End Ledger.

(* renumbering *)
Definition c11_renum (phi : nat -> nat) (tr : tracker) : tracker :=
  if is_rebuilding tr
  then match rid tr with Some id => set_rid tr (Some (phi id)) | None => tr end
  else set_rid tr None.

Lemma c11_compact_eq old new :
  compact_ids old new = map (c11_renum (fun id => id - removed_below old new id)) new.
Proof. reflexivity. Qed.

Lemma c11_renum_ids phi l : reb_ids (map (c11_renum phi) l) = map phi (reb_ids l).
Proof.
  induction l as [|tr l IH]; [reflexivity|].
  cbn [map]. rewrite !c11_reb_ids_cons, map_app, IH. f_equal.
  unfold c11_ids1, c11_renum. destruct (is_rebuilding tr) eqn:Hr.
  - destruct (rid tr) eqn:Hid.
    + rewrite c11_is_reb_set_rid, Hr. reflexivity.
    + rewrite Hr, Hid. reflexivity.
  - rewrite c11_is_reb_set_rid, Hr. reflexivity.
Qed.

Lemma c11_renum_okp phi l : Forall c11_okw l -> Forall c11_okp (map (c11_renum phi) l).
Proof.
  induction l as [|tr l IH]; intro H; cbn [map]; [constructor|].
  inversion H as [|x y Hx Hy]; subst. constructor; [|apply IH; exact Hy].
  unfold c11_okp, c11_renum, c11_okw in *. destruct (is_rebuilding tr) eqn:Hr.
  - destruct (rid tr) eqn:Hid.
    + rewrite c11_is_reb_set_rid, Hr. cbn. discriminate.
    + exfalso. apply Hx; reflexivity.
  - rewrite c11_is_reb_set_rid, Hr. reflexivity.
Qed.

(* ================================================================== *)
(* receive / recover1 keep the id and can only move to Finished         *)

Lemma c11_fin2 tr (X Y : option mat * option vec) :
  let x := (let '(ri, d) := X in let '(rh, h) := Y in
            let tr' := set_ledgers tr d h (arb tr) ri rh in
            match d, h with None, None => set_st tr' Finished | _, _ => tr' end) in
  rid x = rid tr /\ (st x = st tr \/ st x = Finished).
Proof. destruct X as [ri d], Y as [rh h]. destruct d, h; cbn; auto. Qed.

Lemma c11_receive_pres P prec E rp tr :
  rid (receive P prec E rp tr) = rid tr /\
  (st (receive P prec E rp tr) = st tr \/ st (receive P prec E rp tr) = Finished).
Proof.
  unfold receive. destruct (rid tr) as [id|] eqn:Hid; [|auto].
  rewrite <- Hid. apply c11_fin2.
Qed.

Lemma c11_fin3 tr (d h a : option vec) ri rh :
  let x := (let tr' := set_ledgers tr d h a ri rh in
            match d, h, a with None, None, None => set_st tr' Finished | _, _, _ => tr' end) in
  rid x = rid tr /\ (st x = st tr \/ st x = Finished).
Proof. destruct d, h, a; cbn; auto. Qed.

Lemma c11_recover1_pres prec t tr :
  rid (recover1 prec t tr) = rid tr /\
  (st (recover1 prec t tr) = st tr \/ st (recover1 prec t tr) = Finished).
Proof. unfold recover1. apply c11_fin3. Qed.

Definition c11_g P prec E rp (tr : tracker) : tracker :=
  if is_rebuilding tr then receive P prec E rp tr else tr.

Lemma c11_g_rid P prec E rp tr : rid (c11_g P prec E rp tr) = rid tr.
Proof. unfold c11_g. destruct (is_rebuilding tr); [apply c11_receive_pres|reflexivity]. Qed.
Lemma c11_g_reb P prec E rp tr :
  is_rebuilding (c11_g P prec E rp tr) = true -> is_rebuilding tr = true.
Proof.
  unfold c11_g. destruct (is_rebuilding tr) eqn:Hr; [reflexivity|]. intro H. rewrite Hr in H. exact H.
Qed.

Lemma c11_recover_pres prec t tr :
  let f := fun tr => if status_eqb (st tr) Recovering then recover1 prec t tr else tr in
  is_rebuilding (f tr) = is_rebuilding tr /\ rid (f tr) = rid tr.
Proof.
  cbv zeta beta. destruct (status_eqb (st tr) Recovering) eqn:Hs; [|split; reflexivity].
  destruct (c11_recover1_pres prec t tr) as [H1 H2]. split; [|exact H1].
  unfold is_rebuilding. destruct (st tr); try discriminate Hs.
  destruct H2 as [-> | ->]; reflexivity.
Qed.

Lemma c11_ids_ledgers : C11_ids_ledgers.
Proof.
  intros P prec E t rp l Hok l1 nfin l2.
  assert (Hl2 : ids_ok (E - nfin) l2).
  { destruct Hok as [HP HF].
    change l1 with (map (c11_g P prec E rp) l) in *.
    set (g := c11_g P prec E rp) in *.
    assert (Grid : forall tr, rid (g tr) = rid tr) by (intro; apply c11_g_rid).
    assert (Greb : forall tr, is_rebuilding (g tr) = true -> is_rebuilding tr = true)
      by (intro; apply c11_g_reb).
    assert (Hn : nfin = length (c11_removed g l)) by (apply c11_nfin; assumption).
    pose proof (c11_split_ids g Grid Greb l) as Hsplit.
    assert (HSR : Permutation (reb_ids (map g l) ++ c11_removed g l) (seq 0 E)).
    { eapply Permutation_trans; [apply Permutation_sym; exact Hsplit|exact HP]. }
    subst l2. destruct (Nat.eqb nfin 0) eqn:Hz.
    - apply Nat.eqb_eq in Hz. rewrite Hz, Nat.sub_0_r.
      assert (HR : c11_removed g l = []) by (apply length_zero_iff_nil; lia).
      rewrite HR, app_nil_r in HSR. split; [exact HSR|].
      apply c11_okp_map_nil; assumption.
    - rewrite c11_compact_eq. split.
      + rewrite c11_renum_ids.
        rewrite (map_ext _ (c11_phi (c11_removed g l))).
        * rewrite Hn. apply c11_compact_core. exact HSR.
        * intro id. unfold c11_phi. rewrite c11_removed_below. reflexivity.
      + apply c11_renum_okp. apply c11_okw_map; assumption. }
  split; [exact Hl2|].
  unfold recover_ledgers. apply c11_ids_ok_map; [|exact Hl2].
  intro tr. apply (c11_recover_pres prec t tr).
Qed.
Print Assumptions c11_ids_ledgers.

(* ================================================================== *)
(* the step                                                            *)

Lemma c11_events_phase e s s1 r :
  events_phase e s = Some (s1, r) -> ids_ok (nE (eco s)) (trs s) -> ids_ok (nE (eco s1)) (trs s1).
Proof.
  intros Hev Hok. unfold events_phase in Hev.
  pose proof (c11_ids_start (now s) _ _ (c11_ids_activate (dt e) (now s) _ _ Hok)) as Hst.
  destruct (start (now s) (map (activate (dt e) (now s)) (trs s)) (nE (eco s))) as [trs2 E2].
  cbn [fst snd] in Hst.
  destruct (capital_exceeded _ _); [discriminate Hev|].
  injection Hev as <- _. cbn [trs eco nE]. exact Hst.
Qed.

Lemma c11_ids_step : C11_ids_step.
Proof.
  intros e s s' o Hok Hstep. unfold step in Hstep.
  destruct (events_phase e s) as [[s1 r]|] eqn:Hev; [|discriminate Hstep].
  pose proof (c11_events_phase e s s1 r Hev Hok) as Hok1.
  cbv zeta in Hstep.
  repeat match type of Hstep with
  | (if ?b then _ else _) = _ => destruct b; [discriminate Hstep|]
  end.
  injection Hstep as <- _. cbn [trs eco nE].
  apply (c11_ids_ledgers (P e) (prec e) (nE (eco s1)) (now s1) _ (trs s1) Hok1).
Qed.
Print Assumptions c11_ids_step.

Lemma c11_no_internal_error : C11_no_internal_error.
Proof.
  intros e s s' o Hok Hstep. unfold step in Hstep.
  destruct (events_phase e s) as [[s1 r]|] eqn:Hev; [|discriminate Hstep].
  pose proof (c11_events_phase e s s1 r Hev Hok) as Hok1.
  cbv zeta in Hstep.
  destruct (cap_negative _ _); [discriminate Hstep|].
  destruct (distribute_crash _ _ _ _); [discriminate Hstep|].
  destruct (existsb _ (trs s1)) eqn:Hex.
  - apply existsb_exists in Hex. destruct Hex as [tr [Hin Htr]].
    destruct Hok1 as [_ HF]. rewrite Forall_forall in HF. specialize (HF tr Hin).
    apply andb_true_iff in Htr. destruct Htr as [Hr Hn]. rewrite Hr in HF.
    destruct (rid tr); [discriminate Hn|]. apply HF. reflexivity.
  - destruct (any_negative _ _ _); discriminate Hstep.
Qed.
Print Assumptions c11_no_internal_error.
