(* Proofs/C10Proofs.v - C10: the schedule of events (status only moves forward). *)
Require Import Boario.Base.QcLib Boario.Base.Vec Boario.Model.Econ Boario.Model.Events Boario.Model.Sim Boario.Model.Tracker Boario.Model.RecoveryFns Boario.Spec.StatementsEv.
Open Scope nat_scope.

(* ---- C10_activate ---- *)
Lemma c10_activate : C10_activate.
Proof.
  intros dt t tr. unfold activate.
  destruct (st tr) eqn:Est; cbv iota.
  2-5: (rewrite Est; split; [apply Nat.le_refl|];
        split; [intro H; discriminate H|]; split; [intro H; discriminate H|]; reflexivity).
  destruct (Nat.leb_spec (t - dt) (occ tr)) as [H1|H1];
    destruct (Nat.leb_spec (occ tr) t) as [H2|H2]; cbn [andb].
  all: split; [cbn [rank]; apply Nat.le_0_l|].
  all: split; [intros _ H; try reflexivity; exfalso; lia|].
  all: split; [intros _ H3 H4; try reflexivity; exfalso; lia|].
  all: intro H; exfalso; apply H; reflexivity.
Qed.
Print Assumptions c10_activate.

(* ---- C10_start ---- *)
Definition c10_start_rel (t : nat) (a b : tracker) : Prop :=
  rank (st a) <= rank (st b) /\
  (st a = Happening -> occ a + dur a <= t ->
     st b = (match kind a with KRebuild => Rebuilding | _ => Recovering end)) /\
  (st a = Happening -> t < occ a + dur a -> b = a) /\
  (st a <> Happening -> b = a).

Lemma c10_start_rel_same t a : st a <> Happening \/ t < occ a + dur a -> c10_start_rel t a a.
Proof.
  intro H. split; [apply Nat.le_refl|]. split; [|split; reflexivity].
  intros E L. exfalso. destruct H as [H|H]; [apply H; exact E|lia].
Qed.

Lemma c10_start_head t tr rest n :
  exists b m, start t (tr :: rest) n = (b :: fst (start t rest m), snd (start t rest m))
              /\ c10_start_rel t tr b.
Proof.
  cbn [start].
  destruct (st tr) eqn:Est.
  1,3,4,5: (exists tr, n; destruct (start t rest n) as [r' n']; split; [reflexivity|];
            apply c10_start_rel_same; left; rewrite Est; intro H; discriminate H).
  destruct (Nat.leb_spec (occ tr + dur tr) t) as [L|L].
  - destruct (kind tr) eqn:Ek.
    + exists (set_rid (set_st tr Rebuilding) (Some n)), (S n).
      destruct (start t rest (S n)) as [r' n']. split; [reflexivity|].
      unfold c10_start_rel. rewrite Est, Ek. cbn. split; [lia|]. split; [reflexivity|].
      split; [intros _ H; exfalso; lia|intro H; exfalso; apply H; reflexivity].
    + exists (set_st tr Recovering), n.
      destruct (start t rest n) as [r' n']. split; [reflexivity|].
      unfold c10_start_rel. rewrite Est, Ek. cbn. split; [lia|]. split; [reflexivity|].
      split; [intros _ H; exfalso; lia|intro H; exfalso; apply H; reflexivity].
    + exists (set_st tr Recovering), n.
      destruct (start t rest n) as [r' n']. split; [reflexivity|].
      unfold c10_start_rel. rewrite Est, Ek. cbn. split; [lia|]. split; [reflexivity|].
      split; [intros _ H; exfalso; lia|intro H; exfalso; apply H; reflexivity].
  - exists tr, n. destruct (start t rest n) as [r' n']. split; [reflexivity|].
    apply c10_start_rel_same. right. exact L.
Qed.

Lemma c10_start : C10_start.
Proof.
  intros t trs. induction trs as [|tr rest IH]; intro n.
  - cbn. split; [reflexivity|]. intros i a H. destruct i; discriminate H.
  - destruct (c10_start_head t tr rest n) as [b [m [E R]]]. rewrite E. cbn [fst].
    destruct (IH m) as [IHl IHn]. split.
    + cbn [length]. rewrite IHl. reflexivity.
    + intros i a H. destruct i as [|i]; cbn [nth_error] in *.
      * injection H as H. subst a. exists b. split; [reflexivity|]. exact R.
      * apply IHn. exact H.
Qed.
Print Assumptions c10_start.

(* ---- C10_ledgers_monotone ---- *)
Lemma c10_rank_le_finished s : rank s <= rank Finished.
Proof. destruct s; cbn; lia. Qed.

Lemma c10_finish2 tr (d h a : option vec) (ri rh : option mat) :
  rank (st tr) <=
  rank (st (match d, h with
            | None, None => set_st (set_ledgers tr d h a ri rh) Finished
            | _, _ => set_ledgers tr d h a ri rh
            end)).
Proof.
  destruct d; [apply Nat.le_refl|]. destruct h; [apply Nat.le_refl|].
  cbn [st set_st]. apply c10_rank_le_finished.
Qed.

Lemma c10_finish3 tr (d h a : option vec) (ri rh : option mat) :
  rank (st tr) <=
  rank (st (match d, h, a with
            | None, None, None => set_st (set_ledgers tr d h a ri rh) Finished
            | _, _, _ => set_ledgers tr d h a ri rh
            end)).
Proof.
  destruct d; [apply Nat.le_refl|]. destruct h; [apply Nat.le_refl|].
  destruct a; [apply Nat.le_refl|].
  cbn [st set_st]. apply c10_rank_le_finished.
Qed.

Lemma c10_receive_mono P prec E rp tr : rank (st tr) <= rank (st (receive P prec E rp tr)).
Proof.
  unfold receive. cbv zeta.
  destruct (rid tr) as [id|]; [|apply Nat.le_refl].
  match goal with |- context [let '(_, _) := ?M in _] => destruct M as [ri d] end.
  match goal with |- context [let '(_, _) := ?M in _] => destruct M as [rh h] end.
  apply c10_finish2.
Qed.

Lemma c10_recover1_mono prec t tr : rank (st tr) <= rank (st (recover1 prec t tr)).
Proof. unfold recover1. cbv zeta. apply c10_finish3. Qed.

Lemma c10_ledgers_monotone : C10_ledgers_monotone.
Proof.
  intros P prec E t rp tr. split; [apply c10_receive_mono|apply c10_recover1_mono].
Qed.
Print Assumptions c10_ledgers_monotone.

(* ---- C10_step_monotone ---- *)
Definition c10_le (a b : tracker) : Prop := rank (st a) <= rank (st b).

Lemma c10_F2_refl l : Forall2 c10_le l l.
Proof. induction l; constructor; [apply Nat.le_refl|assumption]. Qed.

Lemma c10_F2_trans l1 l2 l3 : Forall2 c10_le l1 l2 -> Forall2 c10_le l2 l3 -> Forall2 c10_le l1 l3.
Proof.
  intro H. revert l3. induction H as [|a b l1 l2 Hab H IH]; intros l3 H3.
  - inversion H3. constructor.
  - inversion H3 as [|b' c l2' l3' Hbc H3']; subst. constructor.
    + unfold c10_le in *. lia.
    + apply IH. exact H3'.
Qed.

Lemma c10_F2_map (g : tracker -> tracker) l :
  (forall x, c10_le x (g x)) -> Forall2 c10_le l (map g l).
Proof. intro H. induction l; cbn [map]; constructor; [apply H|assumption]. Qed.

Lemma c10_F2_activate dt t l : Forall2 c10_le l (map (activate dt t) l).
Proof. apply c10_F2_map. intro x. apply (c10_activate dt t x). Qed.

Lemma c10_F2_start t l : forall n, Forall2 c10_le l (fst (start t l n)).
Proof.
  induction l as [|tr rest IH]; intro n; [constructor|].
  destruct (c10_start_head t tr rest n) as [b [m [E R]]]. rewrite E. cbn [fst].
  constructor; [apply R|apply IH].
Qed.

Lemma c10_F2_rebuild P prec E rp l : Forall2 c10_le l (rebuild_ledgers P prec E rp l).
Proof.
  unfold rebuild_ledgers. apply c10_F2_map. intro x. unfold c10_le.
  destruct (is_rebuilding x); [apply c10_receive_mono|apply Nat.le_refl].
Qed.

Lemma c10_F2_compact old new : Forall2 c10_le new (compact_ids old new).
Proof.
  unfold compact_ids. apply c10_F2_map. intro x. unfold c10_le.
  destruct (is_rebuilding x); [destruct (rid x)|]; apply Nat.le_refl.
Qed.

Lemma c10_F2_recover prec t l : Forall2 c10_le l (recover_ledgers prec t l).
Proof.
  unfold recover_ledgers. apply c10_F2_map. intro x. unfold c10_le.
  destruct (status_eqb (st x) Recovering); [apply c10_recover1_mono|apply Nat.le_refl].
Qed.

(* what the events phase does to the trackers *)
Lemma c10_events_trs e s s1 r : events_phase e s = Some (s1, r) ->
  trs s1 = fst (start (now s) (map (activate (dt e) (now s)) (trs s)) (nE (eco s))).
Proof.
  unfold events_phase. cbv zeta. intro H.
  destruct (start (now s) (map (activate (dt e) (now s)) (trs s)) (nE (eco s))) as [trs2 E2].
  destruct (capital_exceeded (P e) (klost_of (NN (P e)) trs2)); [discriminate H|].
  injection H as H _. rewrite <- H. reflexivity.
Qed.

(* the trackers of an Ok step *)
Lemma c10_step_ok_shape e s s' o : step e s = (Ok s', o) ->
  exists s1 r rp,
    events_phase e s = Some (s1, r) /\
    trs s' = recover_ledgers (prec e) (now s1)
      (if Nat.eqb (count_rebuilding (trs s1)
                   - count_rebuilding (rebuild_ledgers (P e) (prec e) (nE (eco s1)) rp (trs s1))) 0
       then rebuild_ledgers (P e) (prec e) (nE (eco s1)) rp (trs s1)
       else compact_ids (trs s1) (rebuild_ledgers (P e) (prec e) (nE (eco s1)) rp (trs s1))).
Proof.
  intro H. unfold step in H.
  destruct (events_phase e s) as [[s1 r]|]; [|discriminate H].
  exists s1, r. cbv zeta in H.
  destruct (cap_negative _ _) in H; [discriminate H|].
  destruct (distribute_crash _ _ _ _) in H; [discriminate H|].
  destruct (existsb _ _) in H; [discriminate H|].
  destruct (any_negative _ _ _) in H; [discriminate H|].
  eexists. split; [reflexivity|].
  injection H as H _. rewrite <- H. cbn [trs]. reflexivity.
Qed.

Lemma c10_step_monotone : C10_step_monotone.
Proof.
  intros e s s' o H.
  destruct (c10_step_ok_shape e s s' o H) as [s1 [r [rp [Hev Ht]]]].
  apply c10_events_trs in Hev. fold c10_le. rewrite Ht.
  eapply c10_F2_trans; [apply c10_F2_activate|].
  eapply c10_F2_trans; [apply c10_F2_start|]. rewrite <- Hev.
  eapply c10_F2_trans; [|apply c10_F2_recover].
  destruct (Nat.eqb _ 0).
  - apply c10_F2_rebuild.
  - eapply c10_F2_trans; [apply c10_F2_rebuild|apply c10_F2_compact].
Qed.
Print Assumptions c10_step_monotone.

(* ---- C10_prefix ---- *)
Definition c10_allP (l : list tracker) : Prop := Forall (fun tr => st tr = Pending) l.

Lemma c10_later_allP t l : all_later t l -> c10_allP l.
Proof. intro H. induction H as [|x l [Hx _] H IH]; [constructor|]. constructor; [exact Hx|exact IH]. Qed.

Lemma c10_activate_later dt t l : all_later t l -> map (activate dt t) l = l.
Proof.
  intro H. induction H as [|x l [Hs Ho] H IH]; [reflexivity|].
  cbn [map]. rewrite IH. f_equal. destruct (c10_activate dt t x) as [_ [A _]]. apply A; assumption.
Qed.

Lemma c10_start_allP t l : c10_allP l -> forall n, start t l n = (l, n).
Proof.
  intro H. induction H as [|x l Hx H IH]; intro n; [reflexivity|].
  cbn [start]. rewrite Hx. rewrite IH. reflexivity.
Qed.

Lemma c10_klost_allP N l : c10_allP l -> klost_of N l = klost_of N [].
Proof.
  intro H. unfold klost_of. apply tab_ext. intros f _.
  induction H as [|x l Hx H IH]; [reflexivity|].
  cbn [fold_right]. unfold active_capital at 1. rewrite Hx. exact IH.
Qed.

Lemma c10_arb_allP N l : c10_allP l -> arb_of N l = arb_of N [].
Proof.
  intro H. unfold arb_of. apply tab_ext. intros f _.
  induction H as [|x l Hx H IH]; [reflexivity|].
  cbn [fold_right]. unfold active_arb at 1. rewrite Hx. exact IH.
Qed.

Lemma c10_any_rebuilding_allP l : c10_allP l -> any_rebuilding l = false.
Proof.
  intro H. unfold any_rebuilding.
  induction H as [|x l Hx H IH]; [reflexivity|].
  cbn [existsb]. rewrite Hx, IH. reflexivity.
Qed.

Lemma c10_noid_allP l : c10_allP l ->
  existsb (fun tr => is_rebuilding tr && match rid tr with None => true | Some _ => false end) l = false.
Proof.
  intro H. induction H as [|x l Hx H IH]; [reflexivity|].
  cbn [existsb]. unfold is_rebuilding at 1. rewrite Hx, IH. reflexivity.
Qed.

Lemma c10_rebuild_allP P prec E rp l : c10_allP l -> rebuild_ledgers P prec E rp l = l.
Proof.
  intro H. unfold rebuild_ledgers. induction H as [|x l Hx H IH]; [reflexivity|].
  cbn [map]. rewrite IH. unfold is_rebuilding. rewrite Hx. reflexivity.
Qed.

Lemma c10_recover_allP prec t l : c10_allP l -> recover_ledgers prec t l = l.
Proof.
  intro H. unfold recover_ledgers. induction H as [|x l Hx H IH]; [reflexivity|].
  cbn [map]. rewrite IH. rewrite Hx. reflexivity.
Qed.

(* the economy after an events phase in which no tracker is active *)
Definition c10_ev_eco (e : env) (ec : econ) : econ :=
  {| alpha := alpha ec; stock := stock ec; dem := dem ec; nE := nE ec; prod := prod ec;
     delta := delta_of (P e) (klost_of (NN (P e)) []) (arb_of (NN (P e)) []);
     klost := klost_of (NN (P e)) []; unmetv := unmetv ec; rprod := rprod ec |}.

Lemma c10_events_later e s : all_later (now s) (trs s) ->
  events_phase e s =
  if capital_exceeded (P e) (klost_of (NN (P e)) []) then None
  else Some ({| eco := c10_ev_eco e (eco s); trs := trs s; now := now s |}, false).
Proof.
  intro H. pose proof (c10_later_allP _ _ H) as HP.
  unfold events_phase. cbv zeta.
  rewrite c10_activate_later by exact H.
  rewrite c10_start_allP by exact HP.
  rewrite c10_klost_allP by exact HP.
  rewrite c10_arb_allP by exact HP.
  rewrite Nat.eqb_refl. cbn [negb].
  unfold dem_events. cbv zeta. rewrite c10_any_rebuilding_allP by exact HP.
  reflexivity.
Qed.

(* after an events phase that left only pending trackers, the rest of the step
   does not look at them *)
Lemma c10_step_trs_irrelevant e s sA ec t l lA :
  events_phase e s = Some ({| eco := ec; trs := l; now := t |}, false) ->
  events_phase e sA = Some ({| eco := ec; trs := lA; now := t |}, false) ->
  c10_allP l -> c10_allP lA ->
  same_eco (step e s) (step e sA) /\
  (forall s' o, step e s = (Ok s', o) -> trs s' = l).
Proof.
  intros H1 H2 Hl HlA. unfold same_eco, step. rewrite H1, H2. cbv zeta. cbn [eco now trs].
  rewrite !c10_noid_allP by assumption.
  rewrite !c10_rebuild_allP by assumption.
  rewrite !Nat.sub_diag. cbn [Nat.eqb].
  rewrite !c10_recover_allP by assumption.
  destruct (cap_negative _ _).
  { cbn [fst snd eco]. split; [split; [reflexivity|split; reflexivity]|]. intros s' o H. discriminate H. }
  destruct (distribute_crash _ _ _ _).
  { cbn [fst snd eco now]. split; [split; [reflexivity|split; reflexivity]|]. intros s' o H. discriminate H. }
  destruct (any_negative _ _ _).
  { cbn [fst snd eco]. split; [split; [reflexivity|split; reflexivity]|]. intros s' o H. discriminate H. }
  cbn [fst snd eco now]. split; [split; [reflexivity|split; reflexivity]|].
  intros s' o H. injection H as H _. rewrite <- H. reflexivity.
Qed.

Lemma c10_prefix : C10_prefix.
Proof.
  intros e s H.
  pose proof (c10_events_later e s H) as H1.
  assert (HA : all_later (now (strip s)) (trs (strip s))) by (cbn [strip now trs]; constructor).
  pose proof (c10_events_later e (strip s) HA) as H2.
  cbn [strip eco now trs] in H2.
  destruct (capital_exceeded (P e) (klost_of (NN (P e)) [])).
  - unfold same_eco, step. rewrite H1, H2. cbn [fst snd strip eco].
    split; [split; [reflexivity|split; reflexivity]|]. intros s' o H'. discriminate H'.
  - apply (c10_step_trs_irrelevant e s (strip s) _ _ _ _ H1 H2).
    + apply (c10_later_allP _ _ H).
    + constructor.
Qed.
Print Assumptions c10_prefix.
