(* Proofs/C07Proofs.v - C07: capacity loss = share of capital destroyed. *)
Require Import Boario.Base.QcLib Boario.Base.Vec Boario.Model.Econ Boario.Model.Events Boario.Model.Sim Boario.Model.Tracker Boario.Model.RecoveryFns Boario.Spec.StatementsEv.
From Coq Require Import Permutation.
Open Scope Qc_scope.

(* ---- small Qc facts ---- *)
Lemma c07_zero_div c : 0 / c = 0.
Proof. unfold Qcdiv. ring. Qed.
Lemma c07_le_0_1 : 0 <= 1.
Proof. qc2q. lra. Qed.
Lemma c07_qmax_0_nonneg a : 0 <= a -> qmax 0 a = a.
Proof. intro H. unfold qmax. destruct (Qcleb_spec 0 a) as [L|L]; [reflexivity|contradiction]. Qed.
Lemma c07_qmax_0_0 : qmax 0 0 = 0.
Proof. apply c07_qmax_0_nonneg. apply Qcle_refl. Qed.

Lemma c07_qmax_swap a b c : qmax a (qmax b c) = qmax b (qmax a c).
Proof.
  unfold qmax.
  destruct (Qcleb_spec b c) as [Hbc|Hbc]; destruct (Qcleb_spec a c) as [Hac|Hac];
    try apply Qcnot_le_lt in Hbc; try apply Qcnot_le_lt in Hac.
  - destruct (Qcleb_spec a c) as [H1|H1]; destruct (Qcleb_spec b c) as [H2|H2];
      try reflexivity; contradiction.
  - destruct (Qcleb_spec a c) as [H1|H1]; destruct (Qcleb_spec b a) as [H2|H2];
      try apply Qcnot_le_lt in H1; try apply Qcnot_le_lt in H2;
      try reflexivity; qc2q; lra.
  - destruct (Qcleb_spec a b) as [H1|H1]; destruct (Qcleb_spec b c) as [H2|H2];
      try apply Qcnot_le_lt in H1; try apply Qcnot_le_lt in H2;
      try reflexivity; qc2q; lra.
  - destruct (Qcleb_spec a b) as [H1|H1]; destruct (Qcleb_spec b a) as [H2|H2];
      try apply Qcnot_le_lt in H1; try apply Qcnot_le_lt in H2;
      try reflexivity; qc2q; lra.
Qed.

(* ---- the two aggregates as list sums / maxima ---- *)
Lemma c07_max_list_nonneg l : 0 <= max_list l.
Proof.
  unfold max_list. induction l as [|a l IH]; cbn [fold_right]; [apply Qcle_refl|].
  eapply Qcle_trans; [exact IH|apply qmax_r].
Qed.

Lemma c07_kfold f trs :
  fold_right (fun tr acc =>
      match (if active_capital tr then dmg tr else None) with
      | Some v => getv v f + acc | None => acc end) 0 trs
  = sum_list (map (fun tr => cap_contrib tr f) trs).
Proof.
  unfold sum_list. induction trs as [|a l IH]; cbn [fold_right map]; [reflexivity|].
  rewrite IH. unfold cap_contrib.
  destruct (if active_capital a then dmg a else None); ring.
Qed.

Lemma c07_afold f trs :
  fold_right (fun tr acc =>
      match (if active_arb tr then arb tr else None) with
      | Some v => qmax (getv v f) acc | None => acc end) 0 trs
  = max_list (map (fun tr => arb_contrib tr f) trs).
Proof.
  induction trs as [|a l IH]; [reflexivity|].
  cbn [fold_right map]. rewrite IH.
  pose proof (c07_max_list_nonneg (map (fun tr => arb_contrib tr f) l)) as Hm.
  change (max_list (arb_contrib a f :: map (fun tr => arb_contrib tr f) l))
    with (qmax (arb_contrib a f) (max_list (map (fun tr => arb_contrib tr f) l))).
  set (m := max_list (map (fun tr => arb_contrib tr f) l)) in *. clearbody m.
  unfold arb_contrib.
  destruct (if active_arb a then arb a else None); [reflexivity|].
  symmetry. apply c07_qmax_0_nonneg. exact Hm.
Qed.

Lemma c07_klost_get n trs f : (f < n)%nat ->
  getv (klost_of n trs) f = sum_list (map (fun tr => cap_contrib tr f) trs).
Proof. intro H. unfold klost_of. rewrite getv_tab by exact H. apply c07_kfold. Qed.

Lemma c07_arb_get n trs f : (f < n)%nat ->
  getv (arb_of n trs) f = max_list (map (fun tr => arb_contrib tr f) trs).
Proof. intro H. unfold arb_of. rewrite getv_tab by exact H. apply c07_afold. Qed.

Lemma c07_delta_get P kl ar f : (f < NN P)%nat ->
  getv (delta_of P kl ar) f =
  qmax (if Qceqb (getv (K P) f) 0 then 0 else getv kl f / getv (K P) f) (getv ar f).
Proof. intro H. unfold delta_of. rewrite getv_tab by exact H. reflexivity. Qed.

(* ---- C07_formula ---- *)
Lemma c07_formula : C07_formula.
Proof.
  intros P trs f Hf. cbv zeta. split; [|split].
  - apply c07_klost_get. exact Hf.
  - apply c07_arb_get. exact Hf.
  - apply c07_delta_get. exact Hf.
Qed.
Print Assumptions c07_formula.

(* ---- bounds on list sums / maxima ---- *)
Lemma c07_sum_list_nonneg {A} (g : A -> Qc) l :
  (forall x, In x l -> 0 <= g x) -> 0 <= sum_list (map g l).
Proof.
  unfold sum_list. induction l as [|a l IH]; intro H; cbn [fold_right map]; [apply Qcle_refl|].
  apply Qc_add_nonneg.
  - apply H. left. reflexivity.
  - apply IH. intros x Hx. apply H. right. exact Hx.
Qed.

Lemma c07_max_list_le_1 {A} (g : A -> Qc) l :
  (forall x, In x l -> g x <= 1) -> max_list (map g l) <= 1.
Proof.
  unfold max_list. induction l as [|a l IH]; intro H; cbn [fold_right map]; [apply c07_le_0_1|].
  apply qmax_lub.
  - apply H. left. reflexivity.
  - apply IH. intros x Hx. apply H. right. exact Hx.
Qed.

Lemma c07_sum_list_zero {A} (g : A -> Qc) l :
  (forall x, In x l -> g x = 0) -> sum_list (map g l) = 0.
Proof.
  unfold sum_list. induction l as [|a l IH]; intro H; cbn [fold_right map]; [reflexivity|].
  rewrite IH by (intros x Hx; apply H; right; exact Hx).
  rewrite H by (left; reflexivity). ring.
Qed.

Lemma c07_max_list_zero {A} (g : A -> Qc) l :
  (forall x, In x l -> g x = 0) -> max_list (map g l) = 0.
Proof.
  unfold max_list. induction l as [|a l IH]; intro H; cbn [fold_right map]; [reflexivity|].
  rewrite IH by (intros x Hx; apply H; right; exact Hx).
  rewrite H by (left; reflexivity). apply c07_qmax_0_0.
Qed.

(* ---- C07_range ---- *)
Lemma c07_range : C07_range.
Proof.
  intros P trs HK Hc Hex f Hf. cbv zeta.
  rewrite c07_delta_get by exact Hf.
  assert (Hkl0 : 0 <= getv (klost_of (NN P) trs) f).
  { rewrite c07_klost_get by exact Hf. apply c07_sum_list_nonneg.
    intros x Hx. apply (Hc x f Hx). }
  assert (Har0 : 0 <= getv (arb_of (NN P) trs) f).
  { rewrite c07_arb_get by exact Hf. apply c07_max_list_nonneg. }
  assert (Har1 : getv (arb_of (NN P) trs) f <= 1).
  { rewrite c07_arb_get by exact Hf. apply c07_max_list_le_1.
    intros x Hx. apply (Hc x f Hx). }
  assert (HklK : getv (klost_of (NN P) trs) f <= getv (K P) f).
  { unfold capital_exceeded in Hex. rewrite anyn_false in Hex. specialize (Hex f Hf).
    destruct (Qcltb_spec (getv (K P) f) (getv (klost_of (NN P) trs) f)) as [L|L]; [discriminate|].
    apply Qcnot_lt_le. exact L. }
  split.
  - eapply Qcle_trans; [exact Har0|apply qmax_r].
  - apply qmax_lub; [|exact Har1].
    destruct (Qceqb_spec (getv (K P) f) 0) as [E|E]; [apply c07_le_0_1|].
    apply Qc_div_le_1; [exact Hkl0|exact HklK|].
    specialize (HK f Hf). apply Qcle_lt_or_eq in HK. destruct HK as [HK|HK]; [exact HK|].
    exfalso. apply E. symmetry. exact HK.
Qed.
Print Assumptions c07_range.

(* ---- C07_support ---- *)
Lemma c07_support : C07_support.
Proof.
  intros P trs f Hf Hz.
  rewrite c07_delta_get by exact Hf.
  rewrite c07_klost_get by exact Hf. rewrite c07_arb_get by exact Hf.
  rewrite c07_sum_list_zero by (intros x Hx; apply (Hz x Hx)).
  rewrite c07_max_list_zero by (intros x Hx; apply (Hz x Hx)).
  rewrite c07_zero_div.
  destruct (Qceqb (getv (K P) f) 0); apply c07_qmax_0_0.
Qed.
Print Assumptions c07_support.

(* ---- C07_reject ---- *)
Lemma c07_reject : C07_reject.
Proof.
  intros P kl. unfold capital_exceeded. rewrite anyn_spec. split.
  - intros [f [Hf H]]. exists f. split; [exact Hf|].
    destruct (Qcltb_spec (getv (K P) f) (getv kl f)) as [L|L]; [exact L|discriminate].
  - intros [f [Hf H]]. exists f. split; [exact Hf|].
    destruct (Qcltb_spec (getv (K P) f) (getv kl f)) as [L|L]; [reflexivity|contradiction].
Qed.
Print Assumptions c07_reject.

(* ---- C07_perm ---- *)
Lemma c07_fold_right_perm {A B} (g : A -> B -> B) (z : B) :
  (forall a b acc, g a (g b acc) = g b (g a acc)) ->
  forall l l', Permutation l l' -> fold_right g z l = fold_right g z l'.
Proof.
  intros Hc l l' Hp. induction Hp as [|x l l' Hp IH|x y l|l l' l'' Hp1 IH1 Hp2 IH2].
  - reflexivity.
  - cbn [fold_right]. rewrite IH. reflexivity.
  - cbn [fold_right]. apply Hc.
  - rewrite IH1. exact IH2.
Qed.

Lemma c07_perm : C07_perm.
Proof.
  intros n trs trs' Hp. split.
  - unfold klost_of. apply tab_ext. intros f Hf.
    apply c07_fold_right_perm; [|exact Hp].
    intros a b acc.
    destruct (if active_capital a then dmg a else None);
      destruct (if active_capital b then dmg b else None); try reflexivity. ring.
  - unfold arb_of. apply tab_ext. intros f Hf.
    apply c07_fold_right_perm; [|exact Hp].
    intros a b acc.
    destruct (if active_arb a then arb a else None);
      destruct (if active_arb b then arb b else None); try reflexivity.
    apply c07_qmax_swap.
Qed.
Print Assumptions c07_perm.
