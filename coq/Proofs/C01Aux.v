(* Proofs/C01Aux.v - C01: the phases of a step evaluated at the initial equilibrium. *)
Require Import Boario.Base.QcLib Boario.Base.Vec Boario.Model.Econ Boario.Model.Init Boario.Model.Events Boario.Model.Sim Boario.Model.RecoveryFns Boario.Model.InitSim Boario.Spec.StatementsRun.
Open Scope Qc_scope.

(* ================================================================== *)
(* generic facts                                                       *)

Lemma c01_sumn_app a b g : sumn (a + b) g = sumn a g + sumn b (fun j => g (a + j)%nat).
Proof.
  induction b as [|b IH].
  - rewrite Nat.add_0_r. cbn [sumn]. ring.
  - rewrite Nat.add_succ_r. cbn [sumn]. rewrite IH. ring.
Qed.

Lemma c01_vec_eq n (v : vec) h g : v = tab n h ->
  (forall i, (i < n)%nat -> g i = getv v i) -> tab n g = v.
Proof.
  intros -> H. apply tab_ext. intros i Hi. rewrite H by exact Hi. apply getv_tab. exact Hi.
Qed.

Lemma c01_mat_eq n m (M : mat) h g : M = tab2 n m h ->
  (forall i j, (i < n)%nat -> (j < m)%nat -> g i j = get M i j) -> tab2 n m g = M.
Proof.
  intros -> H. apply tab2_ext. intros i j Hi Hj. rewrite H by assumption.
  apply get_tab2; assumption.
Qed.

Lemma c01_qcltb_false a b : b <= a -> Qcltb a b = false.
Proof. intro H. destruct (Qcltb_spec a b) as [L|L]; [|reflexivity]. exfalso. qc2q. lra. Qed.

Lemma c01_qceqb_0 : Qceqb 0 0 = true.
Proof. reflexivity. Qed.

Lemma c01_qmax_r a b : a <= b -> qmax a b = b.
Proof. unfold qmax. destruct (Qcleb_spec a b); [reflexivity|contradiction]. Qed.

Lemma c01_qmax00 : qmax 0 0 = 0.
Proof. reflexivity. Qed.

Lemma c01_qpos0 : qpos 0 = 0.
Proof. reflexivity. Qed.

Lemma c01_qabs0 : qabs 0 = 0.
Proof. reflexivity. Qed.

Lemma c01_leb_intro a b : Qcleb a b = true -> a <= b.
Proof. intro H. destruct (Qcleb_spec a b); [assumption|discriminate H]. Qed.

Lemma c01_leb_true a b : a <= b -> Qcleb a b = true.
Proof. intro H. destruct (Qcleb_spec a b); [reflexivity|contradiction]. Qed.

Lemma c01_atol : 0 <= atol.
Proof. apply c01_leb_intro. vm_compute. reflexivity. Qed.
Lemma c01_rtol : 0 <= rtol.
Proof. apply c01_leb_intro. vm_compute. reflexivity. Qed.
Lemma c01_two : 0 <= Qc_of_Z 2.
Proof. apply c01_leb_intro. vm_compute. reflexivity. Qed.
Lemma c01_four : 0 <= Qc_of_Z 4.
Proof. apply c01_leb_intro. vm_compute. reflexivity. Qed.
Lemma c01_le_0_1 : 0 <= 1.
Proof. apply c01_leb_intro. vm_compute. reflexivity. Qed.

Lemma c01_close_refl a : close a a = true.
Proof.
  unfold close. replace (a - a) with 0 by ring. rewrite c01_qabs0.
  apply c01_leb_true. apply Qc_add_nonneg; [apply c01_atol|].
  apply Qc_mul_nonneg; [apply c01_rtol|apply qabs_nonneg].
Qed.

Lemma c01_sub_self_div d : (d - d) / d = 0.
Proof. unfold Qcdiv. ring. Qed.

Lemma c01_inv_neq0 a : a <> 0 -> / a <> 0.
Proof.
  intros Ha E. pose proof (Qcmult_inv_r a Ha) as H. rewrite E in H.
  replace (a * 0) with 0 in H by ring. discriminate H.
Qed.

Lemma c01_div_neq0 a b : a <> 0 -> b <> 0 -> a / b <> 0.
Proof.
  intros Ha Hb E. unfold Qcdiv in E. apply Qcmult_integral in E.
  destruct E as [E|E]; [exact (Ha E)|exact (c01_inv_neq0 b Hb E)].
Qed.

Lemma c01_mul_neq0 a b : a <> 0 -> b <> 0 -> a * b <> 0.
Proof. intros Ha Hb E. apply Qcmult_integral in E. tauto. Qed.

(* the general distribution-phase facts *)
Lemma c01_add_use_close_refl P U : add_use_close P U U = true.
Proof.
  unfold add_use_close. apply alln_spec. intros p Hp. apply alln_spec. intros f Hf.
  apply c01_close_refl.
Qed.

Lemma c01_stock_update_refl P S U : stock_update P S U U = S.
Proof. unfold stock_update. rewrite c01_add_use_close_refl. reflexivity. Qed.

Lemma c01_klost_nil n : klost_of n [] = zeros n.
Proof. reflexivity. Qed.
Lemma c01_arb_nil n : arb_of n [] = zeros n.
Proof. reflexivity. Qed.

Lemma c01_getv_zeros n f : (f < n)%nat -> getv (zeros n) f = 0.
Proof. intro H. unfold zeros. apply getv_tab. exact H. Qed.

(* index arithmetic *)
Lemma c01_idx_lt nr ns r p : (r < nr)%nat -> (p < ns)%nat -> (r * ns + p < nr * ns)%nat.
Proof. nia. Qed.
Lemma c01_mod_lt nr ns i : (i < nr * ns)%nat -> (i mod ns < ns)%nat.
Proof. intro H. apply Nat.mod_upper_bound. nia. Qed.
Lemma c01_div_lt nr ns i : (i < nr * ns)%nat -> (i / ns < nr)%nat.
Proof. intro H. apply Nat.div_lt_upper_bound; nia. Qed.
Lemma c01_div_mod nr ns i : (i < nr * ns)%nat -> (i / ns * ns + i mod ns = i)%nat.
Proof.
  intro H. assert (ns <> 0)%nat by nia.
  pose proof (Nat.div_mod i ns H0). lia.
Qed.

(* ================================================================== *)
(* the market shares of the constructor (no validity needed)           *)

Lemma c01_zdist_gen (T : table) (C : config) : c_dt C <> 0 -> c_year C <> 0 ->
  forall i j, (i < t_nR T * t_nS T)%nat -> (j < t_nR T * t_nS T)%nat ->
  get (i_zdist T) i j =
  (if Qceqb (sumn (t_nR T) (fun r => get (i_Z0 T C) (r * t_nS T + i mod t_nS T) j)) 0 then 0
   else get (i_Z0 T C) i j
        / sumn (t_nR T) (fun r => get (i_Z0 T C) (r * t_nS T + i mod t_nS T) j)).
Proof.
  intros Hdt Hyr i j Hi Hj.
  pose proof (c01_div_neq0 _ _ Hdt Hyr) as Hsl.
  pose proof (c01_mod_lt _ _ i Hi) as Hm.
  unfold i_zdist. rewrite get_tab2 by assumption. cbv zeta.
  rewrite (sumn_ext (t_nR T) (fun r => get (i_Z0 T C) (r * t_nS T + i mod t_nS T) j)
             (fun r => get (t_Z T) (r * t_nS T + i mod t_nS T) j * (c_dt C / c_year C))).
  2:{ intros r Hr. unfold i_Z0. apply get_tab2; [apply c01_idx_lt; assumption|exact Hj]. }
  rewrite sumn_scale_r. fold (ZC_year T (i mod t_nS T) j).
  unfold i_Z0. rewrite get_tab2 by assumption.
  set (zy := ZC_year T (i mod t_nS T) j). set (sl := c_dt C / c_year C) in *.
  clearbody zy sl.
  destruct (Qceqb_spec zy 0) as [E|E]; destruct (Qceqb_spec (zy * sl) 0) as [E'|E'].
  - reflexivity.
  - exfalso. apply E'. rewrite E. ring.
  - exfalso. apply Qcmult_integral in E'. tauto.
  - field. split; assumption.
Qed.

(* ================================================================== *)
(* facts of a valid table and configuration                            *)

Section Facts.
Variable T : table.
Variable C : config.
Hypothesis HT : valid_table T.
Hypothesis HC : valid_cfg T C.

Local Notation nr := (t_nR T).
Local Notation ns := (t_nS T).
Local Notation N := (t_nR T * t_nS T)%nat.
Local Notation F := (t_nR T * t_nC T)%nat.
Local Notation sl := (c_dt C / c_year C).
Local Notation P0 := (init_params T C).
Local Notation X0v := (i_X0 T C).
Local Notation Z0m := (i_Z0 T C).
Local Notation Y0m := (i_Y0 T C).
Local Notation dem0 := (i_dem0 T C).
Local Notation stock0 := (i_stock0 T C).
Local Notation alpha0 := (i_alpha0 T C).
Local Notation techm := (i_tech T).

Lemma c01_sl_pos : 0 < sl.
Proof.
  pose proof (vc_dt _ _ HC) as H1. pose proof (Qc_inv_pos _ (vc_year _ _ HC)) as H2.
  unfold Qcdiv. set (i := / c_year C) in *. set (d := c_dt C) in *. clearbody i d.
  qc2q. nra.
Qed.

Lemma c01_sl_nonneg : 0 <= sl.
Proof. apply Qclt_le_weak. apply c01_sl_pos. Qed.

Lemma c01_abase_ge1 : 1 <= c_a_base C.
Proof. exact (proj1 (vc_alpha _ _ HC)). Qed.

Lemma c01_abase_nonneg : 0 <= c_a_base C.
Proof. pose proof c01_abase_ge1 as H. set (a := c_a_base C) in *. clearbody a. qc2q. lra. Qed.

Lemma c01_abase_neq0 : c_a_base C <> 0.
Proof.
  pose proof c01_abase_ge1 as H. intro E. rewrite E in H. revert H.
  apply Qclt_not_le. reflexivity.
Qed.

Lemma c01_Z_nonneg i j : (i < N)%nat -> (j < N)%nat -> 0 <= get (t_Z T) i j.
Proof. apply (vt_Z _ HT). Qed.
Lemma c01_Y_nonneg i c : (i < N)%nat -> (c < F)%nat -> 0 <= get (t_Y T) i c.
Proof. apply (vt_Y _ HT). Qed.

Lemma c01_x_nonneg f : (f < N)%nat -> 0 <= getv (t_x T) f.
Proof.
  intro Hf. rewrite (vt_x _ HT) by exact Hf. apply Qc_add_nonneg; apply sumn_nonneg.
  - intros j Hj. apply c01_Z_nonneg; assumption.
  - intros c Hc. apply c01_Y_nonneg; assumption.
Qed.

Lemma c01_X0_get f : (f < N)%nat -> getv X0v f = getv (t_x T) f * sl.
Proof. intro Hf. unfold i_X0. apply getv_tab. exact Hf. Qed.
Lemma c01_Z0_get i j : (i < N)%nat -> (j < N)%nat -> get Z0m i j = get (t_Z T) i j * sl.
Proof. intros Hi Hj. unfold i_Z0. apply get_tab2; assumption. Qed.
Lemma c01_Y0_get i c : (i < N)%nat -> (c < F)%nat -> get Y0m i c = get (t_Y T) i c * sl.
Proof. intros Hi Hc. unfold i_Y0. apply get_tab2; assumption. Qed.

Lemma c01_X0_nonneg f : (f < N)%nat -> 0 <= getv X0v f.
Proof.
  intro Hf. rewrite c01_X0_get by exact Hf.
  apply Qc_mul_nonneg; [apply c01_x_nonneg; exact Hf|apply c01_sl_nonneg].
Qed.
Lemma c01_Z0_nonneg i j : (i < N)%nat -> (j < N)%nat -> 0 <= get Z0m i j.
Proof.
  intros Hi Hj. rewrite c01_Z0_get by assumption.
  apply Qc_mul_nonneg; [apply c01_Z_nonneg; assumption|apply c01_sl_nonneg].
Qed.
Lemma c01_Y0_nonneg i c : (i < N)%nat -> (c < F)%nat -> 0 <= get Y0m i c.
Proof.
  intros Hi Hc. rewrite c01_Y0_get by assumption.
  apply Qc_mul_nonneg; [apply c01_Y_nonneg; assumption|apply c01_sl_nonneg].
Qed.

Lemma c01_dem0_get f j : (f < N)%nat -> (j < N + F)%nat ->
  get dem0 f j = if Nat.ltb j N then get Z0m f j else get Y0m f (j - N).
Proof. intros Hf Hj. unfold i_dem0. apply get_tab2; assumption. Qed.

Lemma c01_dem0_Z f j : (f < N)%nat -> (j < N)%nat -> get dem0 f j = get Z0m f j.
Proof.
  intros Hf Hj. rewrite c01_dem0_get by lia.
  destruct (Nat.ltb_spec j N); [reflexivity|lia].
Qed.
Lemma c01_dem0_Y f c : (f < N)%nat -> (c < F)%nat -> get dem0 f (N + c) = get Y0m f c.
Proof.
  intros Hf Hc. rewrite c01_dem0_get by lia.
  destruct (Nat.ltb_spec (N + c) N); [lia|]. f_equal. lia.
Qed.

Lemma c01_dem0_nonneg f j : (f < N)%nat -> (j < N + F)%nat -> 0 <= get dem0 f j.
Proof.
  intros Hf Hj. rewrite c01_dem0_get by assumption.
  destruct (Nat.ltb_spec j N).
  - apply c01_Z0_nonneg; assumption.
  - apply c01_Y0_nonneg; [assumption|lia].
Qed.

(* step 3 : row totals of the initial demand *)
Lemma c01_rowtot f : (f < N)%nat -> rowtot (N + F) dem0 f = getv X0v f.
Proof.
  intro Hf. unfold rowtot. rewrite c01_sumn_app.
  rewrite (sumn_ext N _ (fun j => get (t_Z T) f j * sl)).
  2:{ intros j Hj. rewrite c01_dem0_Z by assumption. apply c01_Z0_get; assumption. }
  rewrite (sumn_ext F _ (fun c => get (t_Y T) f c * sl)).
  2:{ intros c Hc. rewrite c01_dem0_Y by assumption. apply c01_Y0_get; assumption. }
  rewrite !sumn_scale_r, c01_X0_get by exact Hf. rewrite (vt_x _ HT) by exact Hf. symmetry. apply Qcmult_plus_distr_l.
Qed.

Lemma c01_dem0_row_zero f j : (f < N)%nat -> (j < N + F)%nat -> getv X0v f = 0 -> get dem0 f j = 0.
Proof.
  intros Hf Hj E. rewrite <- c01_rowtot in E by exact Hf. unfold rowtot in E.
  apply (sumn_zero_inv (N + F) (fun j => get dem0 f j)); [|exact E|exact Hj].
  intros k Hk. apply c01_dem0_nonneg; assumption.
Qed.

(* a zero-output industry buys nothing *)
Lemma c01_Z_col_zero i f : (i < N)%nat -> (f < N)%nat -> getv (t_x T) f = 0 -> get (t_Z T) i f = 0.
Proof.
  intros Hi Hf E.
  apply (sumn_zero_inv N (fun i => get (t_Z T) i f)); [| |exact Hi].
  - intros k Hk. apply c01_Z_nonneg; assumption.
  - apply Qcle_antisym.
    + rewrite <- E. apply (vt_VA _ HT). exact Hf.
    + apply sumn_nonneg. intros k Hk. apply c01_Z_nonneg; assumption.
Qed.

Lemma c01_A_nonneg i j : (i < N)%nat -> (j < N)%nat -> 0 <= get (t_A T) i j.
Proof.
  intros Hi Hj. rewrite (vt_A _ HT) by assumption.
  destruct (Qceqb (getv (t_x T) j) 0); [apply Qcle_refl|].
  apply Qc_div_nonneg; [apply c01_Z_nonneg; assumption|apply c01_x_nonneg; exact Hj].
Qed.

Lemma c01_tech_get p f : (p < ns)%nat -> (f < N)%nat ->
  get techm p f = sumn nr (fun r => get (t_A T) (r * ns + p) f).
Proof. intros Hp Hf. unfold i_tech. apply get_tab2; assumption. Qed.

Lemma c01_tech_nonneg p f : (p < ns)%nat -> (f < N)%nat -> 0 <= get techm p f.
Proof.
  intros Hp Hf. rewrite c01_tech_get by assumption. apply sumn_nonneg.
  intros r Hr. apply c01_A_nonneg; [apply c01_idx_lt; assumption|exact Hf].
Qed.

Lemma c01_invq_nonneg p : 0 <= invq P0 p.
Proof.
  unfold invq. cbn [invd init_params]. unfold i_invd.
  destruct (lt_dec p ns) as [Hp|Hp].
  - rewrite nth_tab by exact Hp.
    destruct (nth p (c_inv C) None) as [d|] eqn:E; [|apply Qcle_refl].
    cbv zeta. destruct (Qcleb_spec (d / c_dt C) 1) as [L|L]; [apply c01_two|].
    apply Qcnot_le_lt in L. pose proof c01_le_0_1 as H01.
    set (s := d / c_dt C) in *. clearbody s. qc2q. lra.
  - rewrite nth_overflow; [apply Qcle_refl|]. rewrite tab_length. lia.
Qed.

Lemma c01_psi_bounds : 0 <= psi P0 /\ psi P0 <= 1.
Proof.
  cbn [psi init_params]. destruct (c_psi_class C).
  - exact (vc_psi _ _ HC).
  - split; [apply c01_le_0_1|apply Qcle_refl].
Qed.

Lemma c01_K_nonneg f : (f < N)%nat -> 0 <= getv (K P0) f.
Proof.
  intro Hf. cbn [K init_params]. unfold i_K. pose proof (vc_capital _ _ HC) as Hc.
  destruct (c_capital C) as [|rs|k]; rewrite getv_tab by exact Hf.
  - apply Qc_mul_nonneg; [|apply c01_four]. unfold i_VA. rewrite getv_tab by exact Hf. apply qpos_nonneg.
  - apply Qc_mul_nonneg; [|apply Hc]. unfold i_VA. rewrite getv_tab by exact Hf. apply qpos_nonneg.
  - apply Hc.
Qed.

(* step 8 : what an industry uses is what it ordered *)
Lemma c01_use_eq p f : (p < ns)%nat -> (f < N)%nat ->
  getv X0v f * get techm p f = sumn nr (fun r => get Z0m (r * ns + p) f).
Proof.
  intros Hp Hf. rewrite c01_X0_get, c01_tech_get by assumption.
  rewrite <- sumn_scale_l. apply sumn_ext. intros r Hr.
  pose proof (c01_idx_lt nr ns r p Hr Hp) as Hi.
  rewrite c01_Z0_get, (vt_A _ HT) by assumption.
  destruct (Qceqb_spec (getv (t_x T) f) 0) as [E|E].
  - rewrite (c01_Z_col_zero _ _ Hi Hf E). ring.
  - field. split; [apply Qc_pos_neq0; exact (vc_year _ _ HC)|exact E].
Qed.

Lemma c01_ZC0_nonneg p f : (p < ns)%nat -> (f < N)%nat ->
  0 <= sumn nr (fun r => get Z0m (r * ns + p) f).
Proof.
  intros Hp Hf. apply sumn_nonneg. intros r Hr.
  apply c01_Z0_nonneg; [apply c01_idx_lt; assumption|exact Hf].
Qed.

Lemma c01_ZC0_zero i j : (i < N)%nat -> (j < N)%nat ->
  sumn nr (fun r => get Z0m (r * ns + i mod ns) j) = 0 -> get Z0m i j = 0.
Proof.
  intros Hi Hj E.
  pose proof (sumn_zero_inv nr (fun r => get Z0m (r * ns + i mod ns) j)) as H.
  cbv beta in H. rewrite <- (c01_div_mod nr ns i Hi) at 1.
  apply H; [|exact E|apply c01_div_lt; exact Hi].
  intros r Hr. apply c01_Z0_nonneg; [|exact Hj].
  apply c01_idx_lt; [exact Hr|apply (c01_mod_lt nr); exact Hi].
Qed.


(* ================================================================== *)
(* the phases at the equilibrium                                       *)

Lemma c01_WW0 : WW P0 0 = (N + F)%nat.
Proof. unfold WW, NN, FF. cbn [nR nS nC init_params]. lia. Qed.

(* step 4 : overproduction *)
Lemma c01_overprod : overprod P0 alpha0 X0v X0v = alpha0.
Proof.
  unfold overprod. apply (c01_vec_eq N alpha0 _ _ eq_refl). intros f Hf.
  unfold i_alpha0. rewrite getv_tab by exact Hf.
  assert (Es : scarcity X0v X0v f = 0).
  { unfold scarcity. destruct (Qceqb (getv X0v f) 0); [reflexivity|apply c01_sub_self_div]. }
  rewrite Es. unfold overprod1. cbv zeta. rewrite c01_qceqb_0.
  cbn [a_base a_max a_rate init_params].
  replace (c_a_base C + ((c_a_max C - c_a_base C) * 0 * (c_dt C / c_a_tau C)
                         + (c_a_base C - c_a_base C) * (c_dt C / c_a_tau C)))
    with (c_a_base C) by ring.
  rewrite (c01_qmax_r _ _ c01_abase_ge1).
  apply qmin_le_r. exact (proj1 (proj2 (vc_alpha _ _ HC))).
Qed.

(* step 5 : capacity and optimal production *)
Definition c01_capv : vec := tab N (fun f => getv X0v f * c_a_base C).

Lemma c01_cap : cap P0 alpha0 (zeros N) = c01_capv.
Proof.
  unfold cap, c01_capv. apply tab_ext. intros f Hf.
  rewrite c01_getv_zeros by exact Hf. unfold i_alpha0. rewrite getv_tab by exact Hf.
  cbn [X0 init_params]. ring.
Qed.

Lemma c01_capv_get f : (f < N)%nat -> getv c01_capv f = getv X0v f * c_a_base C.
Proof. intro Hf. unfold c01_capv. apply getv_tab. exact Hf. Qed.

Lemma c01_cap_negative : cap_negative P0 c01_capv = false.
Proof.
  unfold cap_negative. apply anyn_false. intros f Hf. apply c01_qcltb_false.
  rewrite c01_capv_get by exact Hf.
  apply Qc_mul_nonneg; [apply c01_X0_nonneg; exact Hf|apply c01_abase_nonneg].
Qed.

Lemma c01_opt : opt P0 X0v c01_capv = X0v.
Proof.
  unfold opt. apply (c01_vec_eq N X0v _ _ eq_refl). intros f Hf.
  apply qmin_le_l. rewrite c01_capv_get by exact Hf.
  pose proof (c01_X0_nonneg f Hf) as Hx. pose proof c01_abase_ge1 as Ha.
  set (x := getv X0v f) in *. set (a := c_a_base C) in *. clearbody x a. qc2q. nra.
Qed.

(* step 6 : no input shortage *)
Lemma c01_any_short : any_short P0 stock0 (constraints P0 X0v) = false.
Proof.
  unfold any_short. apply anyn_false. intros p Hp. apply anyn_false. intros f Hf.
  unfold short_cell.
  assert (E : Qcltb (get stock0 p f) (get (constraints P0 X0v) p f) = false).
  { apply c01_qcltb_false. unfold constraints, i_stock0.
    rewrite !get_tab2 by assumption. cbn [tech init_params].
    pose proof (c01_X0_nonneg f Hf) as Hx. pose proof (c01_tech_nonneg p f Hp Hf) as Ht.
    pose proof (c01_invq_nonneg p) as Hi. destruct c01_psi_bounds as [Hp0 Hp1].
    set (x := getv X0v f) in *. set (a := get techm p f) in *.
    set (i := invq P0 p) in *. set (ps := psi P0) in *.
    assert (Hb : 0 <= x * a * i) by (apply Qc_mul_nonneg; [apply Qc_mul_nonneg|]; assumption).
    replace (x * a * ps * i) with (x * a * i * ps) by ring.
    set (b := x * a * i) in *. clearbody b ps. qc2q. nra. }
  rewrite E. apply andb_false_r.
Qed.

Lemma c01_production : production P0 stock0 X0v = X0v.
Proof. unfold production. cbv zeta. rewrite c01_any_short. reflexivity. Qed.

(* step 7 : every order is delivered in full *)
Lemma c01_deliver : deliver P0 (WW P0 0) dem0 X0v = dem0.
Proof.
  rewrite c01_WW0. unfold deliver. cbv zeta.
  apply (c01_mat_eq N (N + F) dem0 _ _ eq_refl). intros f j Hf Hj.
  rewrite c01_rowtot by exact Hf.
  destruct (Qceqb_spec (getv X0v f) 0) as [E|E].
  - symmetry. apply c01_dem0_row_zero; assumption.
  - field. exact E.
Qed.

(* step 8 : stocks *)
Lemma c01_stock_add : stock_add P0 dem0 = stock_use P0 X0v.
Proof.
  unfold stock_add, stock_use. apply tab2_ext. intros p f Hp Hf.
  cbn [nR nS tech init_params]. cbn [nS init_params] in Hp.
  change (NN P0) with N in Hf.
  rewrite c01_use_eq by assumption. apply sumn_ext. intros r Hr.
  apply c01_dem0_Z; [apply c01_idx_lt; assumption|exact Hf].
Qed.

Lemma c01_use_nonneg : any_negative (nS P0) (NN P0) (stock_use P0 X0v) = false.
Proof.
  unfold any_negative. apply anyn_false. intros p Hp. apply anyn_false. intros f Hf.
  apply c01_qcltb_false. unfold stock_use. rewrite get_tab2 by assumption.
  cbn [nS init_params] in Hp. change (NN P0) with N in Hf. cbn [X0 tech init_params].
  apply Qc_mul_nonneg; [apply c01_X0_nonneg; exact Hf|apply c01_tech_nonneg; assumption].
Qed.

Lemma c01_distribute_crash :
  distribute_crash P0 stock0 (stock_use P0 X0v) (stock_use P0 X0v) = false.
Proof.
  unfold distribute_crash. rewrite c01_use_nonneg, c01_add_use_close_refl. reflexivity.
Qed.

(* step 9 *)
Lemma c01_unmet : unmet P0 dem0 dem0 = zeros N.
Proof.
  unfold unmet, zeros. apply tab_ext. intros f Hf. apply sumn_zero. intros c Hc. ring.
Qed.

Lemma c01_rebuild_prod : rebuild_prod P0 (WW P0 0) dem0 = tab N (fun _ => []).
Proof.
  unfold rebuild_prod, tab2. apply tab_ext. intros f Hf.
  replace (WW P0 0 - NN P0 - FF P0)%nat with 0%nat by (unfold WW; lia). reflexivity.
Qed.

Lemma c01_W_rest : (WW P0 0 - NN P0 - FF P0)%nat = 0%nat.
Proof. unfold WW. lia. Qed.

(* step 11 : orders *)
Lemma c01_gap0 gc p f : (p < ns)%nat -> (f < N)%nat -> gap P0 gc stock0 X0v p f = 0.
Proof.
  intros Hp Hf. unfold gap. destruct gc; [reflexivity|].
  destruct (isinf P0 p); [reflexivity|].
  replace (goal P0 X0v p f - get stock0 p f) with 0.
  - rewrite c01_qpos0. ring.
  - unfold goal, i_stock0. rewrite get_tab2 by assumption. cbn [tech init_params]. ring.
Qed.

Lemma c01_zprod i j : (i < N)%nat -> (j < N)%nat ->
  zprod P0 c01_capv i j = get Z0m i j * c_a_base C.
Proof.
  intros Hi Hj. unfold zprod, cap_ratio. cbn [Z0 X0 init_params].
  destruct (Qceqb_spec (getv X0v i) 0) as [E|E].
  - rewrite <- c01_dem0_Z by assumption.
    rewrite (c01_dem0_row_zero i j) by (try assumption; lia). ring.
  - rewrite c01_capv_get by exact Hi. field. exact E.
Qed.

Lemma c01_zcprod p j : (p < ns)%nat -> (j < N)%nat ->
  zcprod P0 c01_capv p j = sumn nr (fun r => get Z0m (r * ns + p) j) * c_a_base C.
Proof.
  intros Hp Hj. unfold zcprod. cbn [nR nS init_params]. rewrite <- sumn_scale_r.
  apply sumn_ext. intros r Hr. apply c01_zprod; [apply c01_idx_lt; assumption|exact Hj].
Qed.

Lemma c01_share i j : (i < N)%nat -> (j < N)%nat ->
  sumn nr (fun r => get Z0m (r * ns + i mod ns) j) * share P0 c01_capv i j = get Z0m i j.
Proof.
  intros Hi Hj. pose proof (c01_mod_lt nr ns i Hi) as Hm.
  pose proof (c01_ZC0_zero i j Hi Hj) as Hz.
  unfold share. destruct (alt P0).
  - unfold share_alt. cbv zeta. cbn [nS init_params].
    rewrite c01_zcprod, c01_zprod by assumption.
    set (zc := sumn nr (fun r => get Z0m (r * ns + i mod ns) j)) in *. clearbody zc.
    pose proof c01_abase_neq0 as Ha.
    destruct (Qceqb_spec (zc * c_a_base C) 0) as [E|E].
    + apply Qcmult_integral in E. destruct E as [E|E]; [|contradiction].
      rewrite (Hz E). ring.
    + assert (zc <> 0) by (intro E'; apply E; rewrite E'; ring).
      field. split; assumption.
  - cbn [zdist init_params].
    rewrite (c01_zdist_gen T C); try assumption.
    2:{ apply Qc_pos_neq0. exact (vc_dt _ _ HC). }
    2:{ apply Qc_pos_neq0. exact (vc_year _ _ HC). }
    set (zc := sumn nr (fun r => get Z0m (r * ns + i mod ns) j)) in *. clearbody zc.
    destruct (Qceqb_spec zc 0) as [E|E].
    + rewrite (Hz E). ring.
    + field. exact E.
Qed.

Lemma c01_orders : orders P0 stock0 X0v X0v c01_capv = Z0m.
Proof.
  unfold orders. cbv zeta. apply (c01_mat_eq N N Z0m _ _ eq_refl). intros i j Hi Hj.
  pose proof (c01_mod_lt nr ns i Hi) as Hm.
  unfold needs. cbv zeta. cbn [nS init_params]. rewrite get_tab2 by assumption.
  unfold need. rewrite c01_gap0 by assumption. cbn [tech init_params].
  rewrite c01_use_eq by assumption.
  etransitivity; [|apply (c01_share i j Hi Hj)]. ring.
Qed.

Lemma c01_orders_nonneg : any_negative (NN P0) (NN P0) Z0m = false.
Proof.
  unfold any_negative. apply anyn_false. intros i Hi. apply anyn_false. intros j Hj.
  apply c01_qcltb_false. apply c01_Z0_nonneg; assumption.
Qed.

End Facts.
