(* Proofs/C16RecProofs.v - C16: what the record arrays hold after any run
   (statements of Spec/StatementsRec.v). *)
Require Import Boario.Base.QcLib Boario.Base.Vec Boario.Model.Econ Boario.Model.Events Boario.Model.Sim Boario.Model.Records Boario.Spec.StatementsRec.
From Coq Require Import Lia.
From Coq Require Import List Arith PeanoNat.
Import ListNotations.
Local Open Scope nat_scope.

(* ---------- write_row ---------- *)
Lemma write_row_length {A} (t : nat) (v : A) (a : rec_array) :
  length (write_row t v a) = length a.
Proof. unfold write_row. apply tab_length. Qed.

Lemma nth_write_row_in {A} (t : nat) (v : A) (a : rec_array) (k : nat) :
  k < length a ->
  nth k (write_row t v a) None = if Nat.eqb k t then Some v else nth k a None.
Proof. intro Hk. unfold write_row. rewrite nth_tab by exact Hk. reflexivity. Qed.

Lemma nth_write_row {A} (t : nat) (v : A) (a : rec_array) (k : nat) :
  nth k (write_row t v a) None =
    if Nat.eqb k t then (if Nat.ltb k (length a) then Some v else None) else nth k a None.
Proof.
  destruct (Nat.ltb_spec k (length a)) as [Hk|Hk].
  - apply nth_write_row_in. exact Hk.
  - rewrite nth_overflow by (rewrite write_row_length; exact Hk).
    rewrite (nth_overflow a) by exact Hk.
    destruct (Nat.eqb k t); reflexivity.
Qed.

(* ---------- step times ---------- *)
Lemma step_time_iff (dt i t : nat) :
  0 < dt -> (t = i * dt <-> t mod dt = 0 /\ t / dt = i).
Proof.
  intro Hdt. assert (Hnz : dt <> 0) by lia. split.
  - intro H. subst t. split.
    + apply Nat.mod_mul. exact Hnz.
    + apply Nat.div_mul. exact Hnz.
  - intros [Hm Hq]. pose proof (Nat.div_mod t dt Hnz) as H.
    rewrite Hm, Hq in H. rewrite H. rewrite Nat.mul_comm. lia.
Qed.

(* ---------- write_all ---------- *)
Lemma write_all_length {A} (dt : nat) (vals : list (option A)) :
  forall (i : nat) (a : rec_array), length (write_all dt i vals a) = length a.
Proof.
  induction vals as [|[v|] r IH]; intros i a; simpl.
  - reflexivity.
  - rewrite IH. apply write_row_length.
  - apply IH.
Qed.

Lemma nth_write_all {A} (dt : nat) :
  0 < dt ->
  forall (vals : list (option A)) (i : nat) (a : rec_array) (t : nat),
  t < length a ->
  nth t (write_all dt i vals a) None =
    if (Nat.eqb (t mod dt) 0) && (Nat.leb i (t / dt))
    then match nth (t / dt - i) vals None with
         | Some v => Some v
         | None => nth t a None
         end
    else nth t a None.
Proof.
  intros Hdt. induction vals as [|[v|] r IH]; intros i a t Ht; simpl write_all.
  - destruct (t / dt - i); simpl; destruct (_ && _); reflexivity.
  - rewrite IH by (rewrite write_row_length; exact Ht).
    rewrite nth_write_row_in by exact Ht.
    pose proof (step_time_iff dt i t Hdt) as Hst.
    destruct (Nat.eqb_spec (t mod dt) 0) as [Hm|Hm]; rewrite ?Bool.andb_true_l, ?Bool.andb_false_l.
    + destruct (Nat.leb_spec (S i) (t / dt)) as [H1|H1];
      destruct (Nat.leb_spec i (t / dt)) as [H2|H2]; try lia.
      * replace (t / dt - i) with (S (t / dt - S i)) by lia. simpl nth.
        destruct (Nat.eqb_spec t (i * dt)) as [He|He].
        { exfalso. apply Hst in He. lia. }
        reflexivity.
      * assert (Hq : t / dt = i) by lia.
        replace (t / dt - i) with 0 by lia. simpl nth.
        destruct (Nat.eqb_spec t (i * dt)) as [He|He].
        { reflexivity. }
        exfalso. apply He. apply Hst. split; assumption.
      * destruct (Nat.eqb_spec t (i * dt)) as [He|He].
        { exfalso. apply Hst in He. lia. }
        reflexivity.
    + destruct (Nat.eqb_spec t (i * dt)) as [He|He].
      { exfalso. apply Hst in He. lia. }
      reflexivity.
  - rewrite IH by exact Ht.
    destruct (Nat.eqb_spec (t mod dt) 0) as [Hm|Hm]; rewrite ?Bool.andb_true_l, ?Bool.andb_false_l.
    + destruct (Nat.leb_spec (S i) (t / dt)) as [H1|H1];
      destruct (Nat.leb_spec i (t / dt)) as [H2|H2]; try lia.
      * replace (t / dt - i) with (S (t / dt - S i)) by lia. reflexivity.
      * replace (t / dt - i) with 0 by lia. reflexivity.
      * reflexivity.
    + reflexivity.
Qed.

(* ---------- fresh_array ---------- *)
Lemma fresh_array_length {A} (n : nat) : length (@fresh_array A n) = n.
Proof. unfold fresh_array. apply tab_length. Qed.

Lemma nth_fresh_array {A} (n t : nat) : nth t (@fresh_array A n) None = None.
Proof.
  destruct (Nat.lt_ge_cases t n) as [H|H].
  - unfold fresh_array. rewrite nth_tab by exact H. reflexivity.
  - apply nth_overflow. rewrite fresh_array_length. exact H.
Qed.

(* ---------- the four statements ---------- *)
Lemma c16_recorded : C16_recorded.
Proof.
  intros A n dt vals t Hdt Ht. unfold recorded.
  rewrite (nth_write_all dt Hdt) by (rewrite fresh_array_length; exact Ht).
  rewrite nth_fresh_array, Nat.sub_0_r.
  assert (Hle : Nat.leb 0 (t / dt) = true) by (apply Nat.leb_le; lia).
  rewrite Hle, Bool.andb_true_r.
  destruct (Nat.eqb (t mod dt) 0); [|reflexivity].
  destruct (nth (t / dt) vals None); reflexivity.
Qed.
Print Assumptions c16_recorded.

Lemma c16_recorded_length : C16_recorded_length.
Proof.
  intros A n dt vals. unfold recorded.
  rewrite write_all_length. apply fresh_array_length.
Qed.
Print Assumptions c16_recorded_length.

Lemma c16_recorded_prefix : C16_recorded_prefix.
Proof.
  intros A n dt vals more t Hdt Ht Hlt.
  rewrite !c16_recorded by assumption.
  destruct (Nat.eqb (t mod dt) 0); [|reflexivity].
  apply app_nth1. apply Nat.div_lt_upper_bound; [lia|].
  rewrite Nat.mul_comm. exact Hlt.
Qed.
Print Assumptions c16_recorded_prefix.

Lemma nth_map_nth_error {B C} (proj : B -> option C) (l : list B) :
  forall i : nat,
  nth i (map proj l) None = match nth_error l i with Some o => proj o | None => None end.
Proof.
  induction l as [|x l IH]; intros [|i]; simpl; try reflexivity. apply IH.
Qed.

Lemma c16_run_records : C16_run_records.
Proof.
  intros e k i s proj n Hdt Hi.
  assert (Hnz : dt e <> 0) by lia.
  rewrite c16_recorded by assumption.
  rewrite Nat.mod_mul, Nat.div_mul by exact Hnz. simpl.
  apply nth_map_nth_error.
Qed.
Print Assumptions c16_run_records.
