(* Proofs/C10LateRunProofs.v - C10 at the level of runs: [run] commutes with the registration of
   fresh pending events that stay in the future, and the trackers built by [create_all] for
   events occurring after [now s] are such events. *)
Require Import Boario.Base.QcLib Boario.Base.Vec Boario.Model.Econ Boario.Model.Init
  Boario.Model.Events Boario.Model.Sim Boario.Model.Tracker Boario.Model.Create
  Boario.Spec.Statements Boario.Spec.StatementsEv Boario.Spec.StatementsWF
  Boario.Spec.StatementsInit Boario.Spec.StatementsLate
  Boario.Proofs.C10SessionProofs Boario.Proofs.C16Proofs.
From Coq Require Import Lia List.
Import ListNotations.
Open Scope nat_scope.

(* ================================================================== *)
(* later_for: what it gives for the first step, and how it is carried   *)

Lemma c10lr_later_head e s k new :
  later_for e s (S k) new ->
  all_later (now s) new /\ Forall (fun tr => rid tr = None) new.
Proof.
  unfold later_for, all_later. intros H. split.
  - eapply Forall_impl; [|exact H]. cbv beta. intros tr (Hp & _ & Hlt).
    split; [exact Hp|]. simpl in Hlt. lia.
  - eapply Forall_impl; [|exact H]. cbv beta. intros tr (_ & Hr & _). exact Hr.
Qed.

Lemma c10lr_later_next e s s' k new :
  now s' = now s + dt e -> later_for e s (S k) new -> later_for e s' k new.
Proof.
  unfold later_for. intros Hn H.
  eapply Forall_impl; [|exact H]. cbv beta. intros tr (Hp & Hr & Hlt).
  split; [exact Hp|]. split; [exact Hr|]. rewrite Hn. simpl in Hlt. lia.
Qed.

(* ================================================================== *)
(* C10_late_run                                                         *)

Lemma c10_late_run : C10_late_run.
Proof.
  intros e k. induction k as [|k IH]; intros s new Hdt HL s' os Hrun.
  - simpl in Hrun. inversion Hrun; subst. reflexivity.
  - destruct (c10lr_later_head e s k new HL) as [Hal Hnid].
    destruct (c10_late_registration e s new Hal Hnid) as (Hok & Hcr & Her).
    simpl in Hrun. simpl.
    destruct (step e s) as [r oo] eqn:Hs.
    destruct r as [s1|s1|x s1].
    + (* Ok *)
      pose proof (c16_step_ok_now e s s1 oo Hs) as Hnow.
      pose proof (c10lr_later_next e s s1 k new Hnow HL) as HL1.
      rewrite (Hok s1 oo eq_refl).
      destruct oo as [o|].
      * destruct (run e k s1) as [r1 os1] eqn:Hr1.
        inversion Hrun; subst.
        rewrite (IH s1 new Hdt HL1 s' os1 Hr1). reflexivity.
      * exact (IH s1 new Hdt HL1 s' os Hrun).
    + destruct oo; inversion Hrun.
    + destruct oo; inversion Hrun.
Qed.
Print Assumptions c10_late_run.

(* ================================================================== *)
(* C10_late_creation                                                    *)

Lemma c10lr_create nr ns nc Zy Yy mu v tr :
  create nr ns nc Zy Yy mu v = Some tr ->
  st tr = Pending /\ rid tr = None /\ occ tr = v_occ v.
Proof.
  unfold create. intros H.
  destruct (v_kind v).
  - (* first constructor *)
    repeat match type of H with
    | context [match ?x with _ => _ end] => destruct x
    end; inversion H; subst; simpl; auto.
  - repeat match type of H with
    | context [match ?x with _ => _ end] => destruct x
    end; inversion H; subst; simpl; auto.
  - repeat match type of H with
    | context [match ?x with _ => _ end] => destruct x
    end; inversion H; subst; simpl; auto.
Qed.

Lemma c10lr_create_all nr ns nc Zy Yy mu evs : forall new t,
  create_all nr ns nc Zy Yy mu evs = Some new ->
  Forall (fun v => t < v_occ v) evs ->
  all_later t new /\ Forall (fun tr => rid tr = None) new.
Proof.
  induction evs as [|v r IH]; intros new t H HF.
  - simpl in H. inversion H; subst. split; constructor.
  - simpl in H.
    destruct (create nr ns nc Zy Yy mu v) as [tr|] eqn:Hc; [|discriminate].
    destruct (create_all nr ns nc Zy Yy mu r) as [ts|] eqn:Hr; [|discriminate].
    inversion H; subst. inversion HF; subst.
    destruct (IH ts t eq_refl H3) as [Ha Hn].
    destruct (c10lr_create _ _ _ _ _ _ _ _ Hc) as (Hp & Hi & Ho).
    split.
    + constructor; [|exact Ha]. split; [exact Hp|]. rewrite Ho. exact H2.
    + constructor; [exact Hi|exact Hn].
Qed.

Lemma c10_late_creation : C10_late_creation.
Proof.
  intros e s nr ns nc Zy Yy mu evs new Hc HF.
  destruct (c10lr_create_all nr ns nc Zy Yy mu evs new (now s) Hc HF) as [Ha Hn].
  exact (proj1 (c10_late_registration e s new Ha Hn)).
Qed.
Print Assumptions c10_late_creation.
