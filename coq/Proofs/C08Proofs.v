(* Proofs/C08Proofs.v - reconstruction demand ledgers, creation, conversion (C08, C13)
   and the rounding core (C09_rounding). *)
Require Import Boario.Base.QcLib Boario.Base.Vec Boario.Model.Econ Boario.Model.Events Boario.Model.Sim Boario.Model.Tracker Boario.Model.RecoveryFns Boario.Spec.StatementsEv.
From Coq Require Import Qround.
Open Scope Qc_scope.

(* ------------------------------------------------------------------ *)
(* rounding core: rint_half_even *)

Lemma c08_this_of_Z z : (this (Qc_of_Z z) == inject_Z z)%Q.
Proof. unfold Qc_of_Z. apply this_Q2Qc. Qed.

Lemma c08_rint_spec q :
  (inject_Z (Qfloor (this q)) <= this q)%Q /\
  (this q < inject_Z (Qfloor (this q)) + 1)%Q /\
  ((rint_half_even q = Qfloor (this q) /\
    ((this q - inject_Z (Qfloor (this q)) < 1#2)%Q \/
     ((this q - inject_Z (Qfloor (this q)) == 1#2)%Q /\ Z.even (Qfloor (this q)) = true))) \/
   (rint_half_even q = (Qfloor (this q) + 1)%Z /\
    ((1#2 < this q - inject_Z (Qfloor (this q)))%Q \/
     ((this q - inject_Z (Qfloor (this q)) == 1#2)%Q /\ Z.even (Qfloor (this q)) = false)))).
Proof.
  assert (Hlo : (inject_Z (Qfloor (this q)) <= this q)%Q) by apply Qfloor_le.
  assert (Hhi : (this q < inject_Z (Qfloor (this q)) + 1)%Q).
  { pose proof (Qlt_floor (this q)) as H. rewrite inject_Z_plus in H.
    change (inject_Z 1) with 1%Q in H. exact H. }
  split; [exact Hlo|]. split; [exact Hhi|].
  unfold rint_half_even. cbv zeta.
  set (f := Qfloor (this q)) in *.
  destruct (Qcltb_spec (q - Qc_of_Z f) (Q2Qc (1#2))) as [A|A].
  - left. split; [reflexivity|]. left.
    unfold Qclt in A. rewrite this_minus, c08_this_of_Z, this_Q2Qc in A. exact A.
  - destruct (Qcltb_spec (Q2Qc (1#2)) (q - Qc_of_Z f)) as [B|B].
    + right. split; [reflexivity|]. left.
      unfold Qclt in B. rewrite this_minus, c08_this_of_Z, this_Q2Qc in B. exact B.
    + apply Qcnot_lt_le in A. apply Qcnot_lt_le in B.
      unfold Qcle in A, B. rewrite this_minus, c08_this_of_Z, this_Q2Qc in A, B.
      assert (E : (this q - inject_Z f == 1#2)%Q) by lra.
      destruct (Z.even f) eqn:Ev.
      * left. split; [reflexivity|]. right. split; [exact E|reflexivity].
      * right. split; [reflexivity|]. right. split; [exact E|reflexivity].
Qed.

Lemma c08_rint_mono q q' : q <= q' -> (rint_half_even q <= rint_half_even q')%Z.
Proof.
  intro H.
  destruct (c08_rint_spec q) as (L & U & S). destruct (c08_rint_spec q') as (L' & U' & S').
  assert (Hf : (Qfloor (this q) <= Qfloor (this q'))%Z) by (apply Qfloor_resp_le; exact H).
  unfold Qcle in H.
  remember (Qfloor (this q)) as f eqn:Ef. remember (Qfloor (this q')) as f' eqn:Ef'.
  clear Ef Ef'.
  destruct (Z.eq_dec f f') as [E|E].
  - subst f'.
    destruct S as [[-> S]|[-> S]]; destruct S' as [[-> S']|[-> S']]; try lia.
    exfalso. destruct S as [S|[S1 S2]]; destruct S' as [S'|[S1' S2']]; try lra. congruence.
  - assert (f + 1 <= f')%Z by lia.
    destruct S as [[-> _]|[-> _]]; destruct S' as [[-> _]|[-> _]]; lia.
Qed.

Lemma c08_rint_Z z : rint_half_even (Qc_of_Z z) = z.
Proof.
  destruct (c08_rint_spec (Qc_of_Z z)) as (L & U & S).
  assert (F : Qfloor (this (Qc_of_Z z)) = z) by (rewrite c08_this_of_Z; apply Qfloor_Z).
  rewrite F in *. rewrite c08_this_of_Z in S.
  destruct S as [[-> _]|[_ [S|[S _]]]]; [reflexivity|lra|lra].
Qed.

(* |n - q| <= 1/2 *)
Lemma c08_rint_near q :
  (inject_Z (rint_half_even q) - this q <= 1#2)%Q /\ (this q - inject_Z (rint_half_even q) <= 1#2)%Q.
Proof.
  destruct (c08_rint_spec q) as (L & U & S).
  destruct S as [[-> S]|[-> S]].
  - destruct S as [S|[S _]]; lra.
  - rewrite inject_Z_plus. change (inject_Z 1) with 1%Q.
    destruct S as [S|[S _]]; lra.
Qed.

(* ------------------------------------------------------------------ *)
(* pow10 *)

Lemma c08_pow10_pos d : 0 < pow10 d.
Proof.
  destruct d as [|p|p]; unfold pow10, Qclt.
  - reflexivity.
  - change (this 0) with 0%Q. rewrite this_Q2Qc. rewrite <- Pos2Z.inj_pow_pos. reflexivity.
  - change (this 0) with 0%Q. rewrite this_Q2Qc. reflexivity.
Qed.

Lemma c08_pow10_inv d : pow10 d * pow10 (- d) = 1.
Proof.
  destruct d as [|p|p]; cbn [Z.opp]; unfold pow10.
  - ring.
  - apply Qc_eq_this. rewrite this_mult, !this_Q2Qc. rewrite <- Pos2Z.inj_pow_pos.
    change (this 1) with 1%Q.
    unfold Qeq, Qmult, inject_Z; cbn [Qnum Qden]. lia.
  - apply Qc_eq_this. rewrite this_mult, !this_Q2Qc. rewrite <- Pos2Z.inj_pow_pos.
    change (this 1) with 1%Q.
    unfold Qeq, Qmult, inject_Z; cbn [Qnum Qden]. lia.
Qed.

Lemma c08_pow10_inv' d : pow10 (- d) * pow10 d = 1.
Proof. rewrite Qcmult_comm. apply c08_pow10_inv. Qed.

(* ------------------------------------------------------------------ *)
(* round_dec *)

Lemma c08_of_Z_le a b : (a <= b)%Z -> Qc_of_Z a <= Qc_of_Z b.
Proof.
  intro H. unfold Qcle. rewrite !c08_this_of_Z. rewrite <- Zle_Qle. exact H.
Qed.

Lemma c08_of_Z_2 : (this (Qc_of_Z 2) == 2)%Q.
Proof. apply c08_this_of_Z. Qed.

Lemma c08_half_quantum I : (I / Qc_of_Z 2) * Qc_of_Z 2 = I.
Proof.
  field. apply Qc_neq_this. rewrite c08_of_Z_2. change (this 0) with 0%Q. lra.
Qed.

Lemma c08_round_err d q : qabs (round_dec d q - q) <= pow10 (- d) / Qc_of_Z 2.
Proof.
  unfold round_dec.
  pose proof (c08_pow10_inv d) as HI. pose proof (c08_pow10_pos (- d)) as HP.
  destruct (c08_rint_near (q * pow10 d)) as [N1 N2].
  set (n := rint_half_even (q * pow10 d)) in *.
  rewrite <- (c08_this_of_Z n) in N1, N2.
  pose proof (c08_half_quantum (pow10 (- d))) as Eh.
  pose proof c08_of_Z_2 as E2.
  set (h := pow10 (- d) / Qc_of_Z 2) in *.
  set (I := pow10 (- d)) in *. set (P := pow10 d) in *.
  set (nq := Qc_of_Z n) in *. set (two := Qc_of_Z 2) in *.
  assert (Eq : nq * I - q = (nq - q * P) * I).
  { transitivity (nq * I - q * (P * I)); [rewrite HI; ring | ring]. }
  rewrite Eq.
  assert (T1 : nq - q * P <= Q2Qc (1#2)).
  { unfold Qcle. rewrite this_minus, this_Q2Qc. exact N1. }
  assert (T2 : q * P - nq <= Q2Qc (1#2)).
  { unfold Qcle. rewrite this_minus, this_Q2Qc. exact N2. }
  set (t := nq - q * P) in *.
  assert (T2' : - t <= Q2Qc (1#2)).
  { replace (- t) with (q * P - nq) by (subst t; ring). exact T2. }
  clear N1 N2 T2 Eq HI. clearbody t h I two.
  unfold qabs. destruct (Qcleb_spec 0 (t * I)) as [S|S]; qc2q; nra.
Qed.

Lemma c08_round_mono d q q' : q <= q' -> round_dec d q <= round_dec d q'.
Proof.
  intro H. unfold round_dec.
  pose proof (c08_pow10_pos d) as HP. pose proof (c08_pow10_pos (- d)) as HI.
  assert (M : q * pow10 d <= q' * pow10 d).
  { set (P := pow10 d) in *. clearbody P. qc2q. nra. }
  apply c08_rint_mono in M. apply c08_of_Z_le in M.
  set (a := Qc_of_Z (rint_half_even (q * pow10 d))) in *.
  set (b := Qc_of_Z (rint_half_even (q' * pow10 d))) in *.
  set (I := pow10 (- d)) in *. clearbody a b I. qc2q. nra.
Qed.

(* exact multiples of the quantum are fixed points *)
Lemma c08_round_exact d z : round_dec d (Qc_of_Z z * pow10 (- d)) = Qc_of_Z z * pow10 (- d).
Proof.
  unfold round_dec.
  replace (Qc_of_Z z * pow10 (- d) * pow10 d) with (Qc_of_Z z)
    by (rewrite <- Qcmult_assoc, c08_pow10_inv'; ring).
  rewrite c08_rint_Z. reflexivity.
Qed.

Lemma c08_round_0 d : round_dec d 0 = 0.
Proof.
  replace 0 with (Qc_of_Z 0 * pow10 (- d)) by (change (Qc_of_Z 0) with 0; ring).
  apply c08_round_exact.
Qed.

Lemma c08_round_nonneg d q : 0 <= q -> 0 <= round_dec d q.
Proof. intro H. rewrite <- (c08_round_0 d). apply c08_round_mono. exact H. Qed.

Lemma c08_round_nonpos d q : q <= 0 -> round_dec d q <= 0.
Proof. intro H. rewrite <- (c08_round_0 d). apply c08_round_mono. exact H. Qed.

Lemma c09_rounding : C09_rounding.
Proof.
  intros prec x y. unfold quantum. split; [apply c08_round_err|].
  split; [apply c08_round_mono|apply c08_round_nonneg].
Qed.
Print Assumptions c09_rounding.

(* ------------------------------------------------------------------ *)
(* ledger cells *)

Lemma c08_clip0_nonneg x : 0 <= clip0 x.
Proof.
  unfold clip0. destruct (Qcltb_spec x 0) as [H|H]; [apply Qcle_refl|].
  apply Qcnot_lt_le. exact H.
Qed.
Lemma c08_clip0_id x : 0 <= x -> clip0 x = x.
Proof.
  intro H. unfold clip0. destruct (Qcltb_spec x 0) as [L|L]; [|reflexivity].
  exfalso. qc2q. lra.
Qed.
Lemma c08_clip0_zero x : x <= 0 -> clip0 x = 0.
Proof.
  intro H. unfold clip0. destruct (Qcltb_spec x 0) as [L|L]; [reflexivity|].
  apply Qcnot_lt_le in L. apply Qcle_antisym; assumption.
Qed.

Lemma c08_ledger_cell : C08_ledger_cell.
Proof.
  intros prec r d. unfold ledger_cell. split; [apply c08_clip0_nonneg|]. split.
  - intro H. rewrite c08_clip0_id by (apply c08_round_nonneg; exact H).
    unfold quantum. apply c08_round_err.
  - intro H. apply c08_clip0_zero. apply c08_round_nonpos. apply Qclt_le_weak. exact H.
Qed.
Print Assumptions c08_ledger_cell.

(* (the statement needs 0 <= r: for r < 0 the clipped result 0 exceeds r) *)
Lemma c08_ledger_monotone : C08_ledger_monotone.
Proof.
  intros prec r d z Er Hd Hr. unfold ledger_cell, quantum in *. split.
  - assert (M : round_dec prec (r - d) <= r).
    { rewrite Er at 2. rewrite <- c08_round_exact. rewrite <- Er.
      apply c08_round_mono. qc2q. lra. }
    unfold clip0. destruct (Qcltb_spec (round_dec prec (r - d)) 0) as [L|L]; assumption.
  - unfold clip0. destruct (Qcltb_spec (round_dec prec (r - d)) 0) as [L|L].
    + exists 0%Z. change (Qc_of_Z 0) with 0. ring.
    + exists (rint_half_even ((r - d) * pow10 prec)). reflexivity.
Qed.
Print Assumptions c08_ledger_monotone.

(* ------------------------------------------------------------------ *)
(* receive *)

Lemma c08_colsum_tab n m a p :
  tab m (fun j => getv (colsum n m a) j / p) = tab m (fun j => sumn n (fun i => get a i j) / p).
Proof.
  apply tab_ext. intros j Hj. unfold colsum. rewrite getv_tab by exact Hj. reflexivity.
Qed.

Definition c08_mi (P : params) (prec : Z) (rp : mat) (id : nat) (m : mat) : mat :=
  tab2 (NN P) (NN P) (fun f j => ledger_cell prec (get m f j) (get rp f (NN P * id + j))).
Definition c08_mh (P : params) (prec : Z) (E : nat) (rp : mat) (id : nat) (m : mat) : mat :=
  tab2 (NN P) (FF P) (fun f j => ledger_cell prec (get m f j) (get rp f (NN P * E + FF P * id + j))).

Lemma c08_receive_proj P prec E rp tr id :
  rid tr = Some id -> st tr <> Finished ->
  (rem_i (receive P prec E rp tr), dmg (receive P prec E rp tr)) =
    match rem_i tr with
    | None => (None, dmg tr)
    | Some m =>
        if all_zero_m (c08_mi P prec rp id m) then (None, None)
        else (Some (c08_mi P prec rp id m),
              Some (tab (NN P) (fun j => sumn (NN P) (fun i => get (c08_mi P prec rp id m) i j) / phi tr)))
    end /\
  (rem_h (receive P prec E rp tr), hdmg (receive P prec E rp tr)) =
    match rem_h tr with
    | None => (None, hdmg tr)
    | Some m =>
        if all_zero_m (c08_mh P prec E rp id m) then (None, None)
        else (Some (c08_mh P prec E rp id m),
              Some (tab (FF P) (fun j => sumn (NN P) (fun i => get (c08_mh P prec E rp id m) i j) / phi tr)))
    end /\
  (st (receive P prec E rp tr) = Finished <->
   (dmg (receive P prec E rp tr) = None /\ hdmg (receive P prec E rp tr) = None)).
Proof.
  intros Hrid Hst. unfold receive. rewrite Hrid. cbv zeta.
  destruct (rem_i tr) as [mi|]; destruct (rem_h tr) as [mh|];
    try fold (c08_mi P prec rp id mi); try fold (c08_mh P prec E rp id mh);
    rewrite ?c08_colsum_tab;
    try destruct (all_zero_m (c08_mi P prec rp id mi));
    try destruct (all_zero_m (c08_mh P prec E rp id mh));
    destruct (dmg tr); destruct (hdmg tr);
    cbn [rem_i dmg hdmg rem_h st set_ledgers set_st];
    (split; [reflexivity|]); (split; [reflexivity|]);
    (split; [ intro X; try (exfalso; apply Hst; exact X); split; reflexivity
            | intros [X Y]; try discriminate X; try discriminate Y; reflexivity ]).
Qed.

Lemma c08_receive : C08_receive.
Proof.
  intros P prec E rp tr id Hrid Hst N F tr'.
  destruct (c08_receive_proj P prec E rp tr id Hrid Hst) as (A & B & C).
  fold tr' in A, B, C. clearbody tr'. subst N F.
  split; [|split; [|split; [|split]]].
  - intros m Hm. cbv zeta. fold (c08_mi P prec rp id m). rewrite Hm in A.
    destruct (all_zero_m (c08_mi P prec rp id m)); injection A as A1 A2;
      split; intro Z; try discriminate Z; split; assumption.
  - intros m Hm. cbv zeta. fold (c08_mh P prec E rp id m). rewrite Hm in B.
    destruct (all_zero_m (c08_mh P prec E rp id m)); injection B as B1 B2;
      split; intro Z; try discriminate Z; split; assumption.
  - intro Hn. rewrite Hn in A. injection A as A1 A2. split; assumption.
  - intro Hn. rewrite Hn in B. injection B as B1 B2. split; assumption.
  - exact C.
Qed.
Print Assumptions c08_receive.

(* ------------------------------------------------------------------ *)
(* presented demand *)

Lemma c08_fold_last {A} (g : Qc -> A -> Qc) (x : A) (target : Qc) :
  (forall acc, g acc x = target) ->
  forall l, (forall y, In y l -> y = x \/ forall acc, g acc y = acc) ->
  forall acc, In x l \/ acc = target -> fold_left g l acc = target.
Proof.
  intros Hx l. induction l as [|a l IH]; intros Hl acc Hacc.
  - cbn [fold_left]. destruct Hacc as [[]|Hacc]. exact Hacc.
  - cbn [fold_left]. apply IH.
    + intros y Hy. apply Hl. right. exact Hy.
    + destruct (Hl a (or_introl eq_refl)) as [Ea|Ea].
      * right. subst a. apply Hx.
      * destruct Hacc as [[Ha|Hin]|Hacc].
        -- right. subst a. apply Hx.
        -- left. exact Hin.
        -- right. rewrite Ea. exact Hacc.
Qed.

Lemma c08_block_div n q r : (r < n)%nat -> ((n * q + r) / n = q)%nat.
Proof. intro H. symmetry. apply Nat.div_unique with r; [exact H|reflexivity]. Qed.
Lemma c08_block_mod n q r : (r < n)%nat -> ((n * q + r) mod n = r)%nat.
Proof. intro H. symmetry. apply Nat.mod_unique with q; [exact H|reflexivity]. Qed.

Lemma c08_presented : C08_presented.
Proof.
  intros P dtq E trs tr id f j Hin Hrid HidE Huniq N F. split.
  - intros Hj m Hm. unfold reb_cell. cbv zeta. fold N F.
    assert (Hlt : Nat.ltb (N * id + j) (N * E) = true) by (apply Nat.ltb_lt; nia).
    rewrite Hlt.
    apply c08_fold_last with (x := tr).
    + intro acc. rewrite Hrid, c08_block_div by exact Hj. rewrite Nat.eqb_refl, Hm.
      rewrite c08_block_mod by exact Hj. reflexivity.
    + intros y Hy. destruct (rid y) as [id'|] eqn:Ey; [|right; intro acc; reflexivity].
      destruct (Nat.eq_dec id' id) as [->|Hne].
      * left. apply Huniq; assumption.
      * right. intro acc. rewrite c08_block_div by exact Hj.
        destruct (Nat.eqb_spec id id') as [Heq|_]; [congruence|reflexivity].
    + left. exact Hin.
  - intros Hj m v Hm Hv. unfold reb_cell. cbv zeta. fold N F.
    assert (Hlt : Nat.ltb (N * E + F * id + j) (N * E) = false) by (apply Nat.ltb_ge; lia).
    rewrite Hlt.
    replace (N * E + F * id + j - N * E)%nat with (F * id + j)%nat by lia.
    apply c08_fold_last with (x := tr).
    + intro acc. rewrite Hrid, c08_block_div by exact Hj. rewrite Nat.eqb_refl, Hm, Hv.
      rewrite c08_block_mod by exact Hj. reflexivity.
    + intros y Hy. destruct (rid y) as [id'|] eqn:Ey; [|right; intro acc; reflexivity].
      destruct (Nat.eq_dec id' id) as [->|Hne].
      * left. apply Huniq; assumption.
      * right. intro acc. rewrite c08_block_div by exact Hj.
        destruct (Nat.eqb_spec id id') as [Heq|_]; [congruence|reflexivity].
    + left. exact Hin.
Qed.
Print Assumptions c08_presented.

(* ------------------------------------------------------------------ *)
(* creation *)

Lemma c08_share_listed shares k :
  share_of shares k <> 0 -> exists p, In p shares /\ fst p = k.
Proof.
  induction shares as [|a l IH]; unfold share_of; cbn [fold_right]; intro H.
  - exfalso. apply H. reflexivity.
  - destruct (Nat.eqb_spec (fst a) k) as [E|E].
    + exists a. split; [left; reflexivity|exact E].
    + destruct (IH H) as [p [Hp Ep]]. exists p. split; [right; exact Hp|exact Ep].
Qed.

Lemma c08_no_supplier_true nr ns flows W shares imp :
  no_supplier nr ns flows W shares imp = true <->
  exists p j, In p shares /\ (j < W)%nat /\ getv imp j <> 0 /\ colsec nr ns flows (fst p) j = 0.
Proof.
  unfold no_supplier. rewrite existsb_exists. split.
  - intros [p [Hp H]]. apply anyn_spec in H. destruct H as [j [Hj H]].
    apply andb_true_iff in H. destruct H as [H1 H2]. apply negb_true_iff in H1.
    exists p, j. split; [exact Hp|]. split; [exact Hj|]. split.
    + destruct (Qceqb_spec (getv imp j) 0) as [X|X]; [discriminate|exact X].
    + destruct (Qceqb_spec (colsec nr ns flows (fst p) j) 0) as [X|X]; [exact X|discriminate].
  - intros [p [j [Hp [Hj [H1 H2]]]]]. exists p. split; [exact Hp|].
    apply anyn_spec. exists j. split; [exact Hj|].
    apply andb_true_iff. split.
    + apply negb_true_iff. destruct (Qceqb_spec (getv imp j) 0) as [X|X]; [contradiction|reflexivity].
    + destruct (Qceqb_spec (colsec nr ns flows (fst p) j) 0) as [X|X]; [reflexivity|contradiction].
Qed.

Lemma c08_mk_rem_some nr ns flows W shares phi imp m :
  mk_rem nr ns flows W shares phi imp = Some m ->
  no_supplier nr ns flows W shares imp = false /\
  m = tab2 (nr * ns) W (fun i j =>
        if Qceqb (getv imp j) 0 then 0
        else share_of shares (i mod ns) * getv imp j * phi *
             (get flows i j / colsec nr ns flows (i mod ns) j)).
Proof.
  unfold mk_rem. destruct (no_supplier nr ns flows W shares imp); [discriminate|].
  intro H. injection H as <-. split; reflexivity.
Qed.

Lemma c08_creation : C08_creation.
Proof.
  intros nr ns W flows shares phi imp m Hm k j Hk Hj.
  apply c08_mk_rem_some in Hm. destruct Hm as [Hns ->].
  rewrite (sumn_ext nr _ (fun r =>
     if Qceqb (getv imp j) 0 then 0
     else share_of shares k * getv imp j * phi * (get flows (r * ns + k) j / colsec nr ns flows k j))).
  2:{ intros r Hr. rewrite get_tab2 by (try exact Hj; nia).
      replace ((r * ns + k) mod ns)%nat with k; [reflexivity|].
      apply Nat.mod_unique with r; [exact Hk|lia]. }
  destruct (Qceqb_spec (getv imp j) 0) as [Z|Z].
  - rewrite sumn_0, Z. ring.
  - destruct (Qc_eq_dec (share_of shares k) 0) as [S0|S0].
    + rewrite S0. rewrite sumn_zero; [ring|]. intros; ring.
    + assert (C : colsec nr ns flows k j <> 0).
      { destruct (c08_share_listed shares k S0) as [p [Hp <-]].
        intro C0.
        assert (T : no_supplier nr ns flows W shares imp = true).
        { apply c08_no_supplier_true. exists p, j. auto. }
        congruence. }
      rewrite sumn_scale_l. unfold Qcdiv at 1. rewrite sumn_scale_r.
      fold (colsec nr ns flows k j). field. exact C.
Qed.
Print Assumptions c08_creation.

Lemma c08_creation_total : C08_creation_total.
Proof.
  intros nr ns W flows shares phi imp m Hm Hs j Hj.
  rewrite sumn_prod, sumn_swap.
  rewrite (sumn_ext ns _ (fun k => share_of shares k * (getv imp j * phi))).
  2:{ intros k Hk. rewrite (c08_creation nr ns W flows shares phi imp m Hm k j Hk Hj). ring. }
  assert (Hs' : sumn ns (share_of shares) = 1) by exact Hs.
  rewrite sumn_scale_r. first [rewrite Hs | rewrite Hs']. ring.
Qed.
Print Assumptions c08_creation_total.

Lemma c08_creation_rejects : C08_creation_rejects.
Proof.
  intros nr ns W flows shares phi imp.
  rewrite <- c08_no_supplier_true. unfold mk_rem.
  destruct (no_supplier nr ns flows W shares imp); split; intro H; try reflexivity; discriminate H.
Qed.
Print Assumptions c08_creation_rejects.

(* ------------------------------------------------------------------ *)
(* C13 *)

Lemma c13_conversion : C13_conversion.
Proof.
  intros eps eps' mu v He Hm. unfold conv. rewrite map_map.
  apply map_ext. intro x. field. split; assumption.
Qed.
Print Assumptions c13_conversion.
