(* Proofs/NonVacuity.v - non-vacuity examples: a concrete, non-trivial table, configuration
   and list of events on which the hypotheses of the main theorems (valid_table, valid_cfg,
   event_ok, WFP, WF, alpha_cfg, later_for, all_later, ids_ok, ...) are shown to hold, and on
   which the theorems are applied.  Where cheap the conclusion is also exhibited by
   computation.  Closed under the global context: see Print Assumptions at the end. *)
Require Import Boario.Base.QcLib Boario.Base.Vec Boario.Model.Econ Boario.Model.Init
  Boario.Model.Events Boario.Model.Sim Boario.Model.Tracker Boario.Model.Create
  Boario.Model.RecoveryFns Boario.Model.InitSim Boario.Model.Ctor
  Boario.Spec.Statements Boario.Spec.StatementsEv Boario.Spec.StatementsRun
  Boario.Spec.StatementsWF Boario.Spec.StatementsInit Boario.Spec.StatementsLate
  Boario.Spec.StatementsIO.
Require Import Boario.Proofs.C01Proofs Boario.Proofs.C20Proofs Boario.Proofs.C20InitProofs
  Boario.Proofs.C10LateRunProofs Boario.Proofs.C16Proofs.
From Coq Require Import Lia List.
Import ListNotations.
Open Scope nat_scope.
Open Scope Qc_scope.

(* ================================================================== *)
(* deciding closed comparisons of rationals by computation             *)

Lemma nv_le (a b : Qc) : Qcleb a b = true -> a <= b.
Proof. destruct (Qcleb_spec a b); [auto | discriminate]. Qed.
Lemma nv_lt (a b : Qc) : Qcltb a b = true -> a < b.
Proof. destruct (Qcltb_spec a b); [auto | discriminate]. Qed.
Lemma nv_eq (a b : Qc) : Qceqb a b = true -> a = b.
Proof. destruct (Qceqb_spec a b); [auto | discriminate]. Qed.

Ltac qle := apply nv_le; vm_compute; reflexivity.
Ltac qlt := apply nv_lt; vm_compute; reflexivity.
Ltac qeq := apply nv_eq; vm_compute; reflexivity.

Lemma nv_vec_nonneg (v : vec) : forallb (Qcleb 0) v = true -> vec_nonneg v.
Proof.
  intros H j. unfold getv. destruct (nth_in_or_default j v 0) as [Hin | ->].
  - apply nv_le. rewrite forallb_forall in H. apply H. exact Hin.
  - apply Qcle_refl.
Qed.
Lemma nv_mat_nonneg (m : mat) : forallb (forallb (Qcleb 0)) m = true -> mat_nonneg m.
Proof.
  intros H i j. unfold get. destruct (nth_in_or_default i m []) as [Hin | ->].
  - rewrite forallb_forall in H. apply (nv_vec_nonneg _ (H _ Hin) j).
  - destruct j; apply Qcle_refl.
Qed.

(* ================================================================== *)
(* 1. a table: 2 regions x 2 sectors x 1 final-demand category          *)
(*    industries (r0,s0) (r0,s1) (r1,s0) (r1,s1); N = 4, F = 2           *)

Definition q (z : Z) : Qc := Qc_of_Z z.

Definition Zt : mat :=
  [ [q 10; q  5; q 3; q  2];
    [q  4; q 12; q 2; q  3];
    [q  3; q  2; q 8; q  4];
    [q  2; q  3; q 5; q 10] ].
Definition Yt : mat :=
  [ [q 20; q  5];
    [q 15; q  4];
    [q  6; q 18];
    [q  5; q 16] ].
(* row sums of Z plus row sums of Y : 20+25, 21+19, 17+24, 20+21 *)
Definition xt : vec := [q 45; q 40; q 41; q 41].
(* A = Z / x (column-wise) *)
Definition At : mat :=
  [ [of_frac 10 45; of_frac  5 40; of_frac 3 41; of_frac  2 41];
    [of_frac  4 45; of_frac 12 40; of_frac 2 41; of_frac  3 41];
    [of_frac  3 45; of_frac  2 40; of_frac 8 41; of_frac  4 41];
    [of_frac  2 45; of_frac  3 40; of_frac 5 41; of_frac 10 41] ].

Definition T0 : table :=
  {| t_nR := 2; t_nS := 2; t_nC := 1; t_Z := Zt; t_Y := Yt; t_x := xt; t_A := At |}.

(* psi class, alternative orders, daily steps, inventories of 90 days *)
Definition C0 : config :=
  {| c_psi_class := true; c_alt := true; c_dt := 1; c_year := q 365;
     c_inv := [Some (q 90); Some (q 90)];
     c_psi := of_frac 4 5;
     c_rest_tau := [q 60; q 60];
     c_a_base := 1; c_a_max := of_frac 5 4; c_a_tau := q 365;
     c_capital := CapDefault |}.

(* case analysis on an index below 4 *)
Ltac lt4 i H :=
  destruct i as [|[|[|[|i]]]]; [ | | | | exfalso; clear - H; lia ].

Example ex_valid_table : valid_table T0.
Proof.
  split.
  - intros i j _ _. apply nv_mat_nonneg. vm_compute. reflexivity.
  - intros i c _ _. apply nv_mat_nonneg. vm_compute. reflexivity.
  - intros i Hi. change (i < 4)%nat in Hi. lt4 i Hi; qeq.
  - intros i j Hi Hj. change (i < 4)%nat in Hi. change (j < 4)%nat in Hj.
    lt4 i Hi; lt4 j Hj; qeq.
  - intros j Hj. change (j < 4)%nat in Hj. lt4 j Hj; qle.
Qed.

(* value added is strictly positive on this table (so is the default capital, 4 x VA) *)
Example ex_va_positive : forall j, (j < 4)%nat -> 0 < getv (i_VA T0) j /\ 0 < getv (i_K T0 C0) j.
Proof. intros j Hj. lt4 j Hj; split; qlt. Qed.

Example ex_valid_cfg : valid_cfg T0 C0.
Proof.
  split.
  - qlt.
  - qlt.
  - intros p d. destruct p as [|[|p]]; cbn.
    + intro E. injection E as <-. qlt.
    + intro E. injection E as <-. qlt.
    + destruct p; discriminate.
  - split; qle.
  - intros p Hp. change (p < 2)%nat in Hp.
    destruct p as [|[|p]]; [qlt | qlt | exfalso; lia].
  - split; [qle | split; [qle | qlt]].
  - exact I.
Qed.

(* ================================================================== *)
(* 2. two events                                                        *)

(* rebuilding: 10 of capital destroyed in industry (r0,s0) (its capital is 104), 2 of household
   damage in region 0, rebuilt by sector 1 alone within 5 days *)
Definition v_rebuild : evspec :=
  {| v_kind := KRebuild; v_occ := 1; v_dur := 1; v_tau := q 5; v_phi := 1;
     v_rf := fun _ v => v; v_eps := 1;
     v_impact := [q 10; 0; 0; 0];
     v_house := Some [q 2; 0];
     v_shares := [(1%nat, 1)] |}.
(* recovery: 8 of capital destroyed in industry (r1,s0) (its capital is 92), recovered
   linearly in 3 days *)
Definition mk_recover (o d : nat) : evspec :=
  {| v_kind := KRecover; v_occ := o; v_dur := d; v_tau := q 3; v_phi := 1;
     v_rf := linear_rec 3; v_eps := 1;
     v_impact := [0; 0; q 8; 0];
     v_house := None;
     v_shares := [] |}.
Definition v_recover : evspec := mk_recover 2 2.
Definition V0 : list evspec := [v_rebuild; v_recover].

Lemma nv_rebuild_ok : event_ok v_rebuild.
Proof.
  split; cbn [v_rebuild v_kind v_tau v_phi v_eps v_impact v_house v_shares v_rf].
  - qlt.
  - qlt.
  - qlt.
  - apply nv_vec_nonneg. vm_compute. reflexivity.
  - discriminate.
  - intros h E. injection E as <-. apply nv_vec_nonneg. vm_compute. reflexivity.
  - intros p [<- | []]. qle.
  - intros n init H. exact H.
  - intros n init _ H. exact H.
Qed.
Lemma nv_recover_ok (o d : nat) : event_ok (mk_recover o d).
Proof.
  split; cbn [mk_recover v_kind v_tau v_phi v_eps v_impact v_house v_shares v_rf].
  - qlt.
  - qlt.
  - qlt.
  - apply nv_vec_nonneg. vm_compute. reflexivity.
  - discriminate.
  - discriminate.
  - intros p [].
  - intros n init H.
    destruct (c20_builtin_rf 3%nat n init ltac:(lia) H) as [[H1 _] _]. exact H1.
  - intros n init H Hle.
    destruct (c20_builtin_rf 3%nat n init ltac:(lia) H) as [_ H2].
    destruct (H2 Hle) as [H1 _]. exact H1.
Qed.

Example ex_event_ok : Forall event_ok V0.
Proof.
  constructor; [exact nv_rebuild_ok | constructor; [exact (nv_recover_ok 2 2) | constructor]].
Qed.

Definition trs0 : list tracker :=
  match create_all 2 2 1 (t_Z T0) (t_Y T0) 1 V0 with Some l => l | None => [] end.

Lemma trs0_eq : create_all 2 2 1 (t_Z T0) (t_Y T0) 1 V0 = Some trs0.
Proof.
  assert (H : (match create_all 2 2 1 (t_Z T0) (t_Y T0) 1 V0 with
               | Some _ => true | None => false end) = true) by (vm_compute; reflexivity).
  unfold trs0. destruct (create_all 2 2 1 (t_Z T0) (t_Y T0) 1 V0); [reflexivity|discriminate H].
Qed.

Example ex_create : exists l, create_all 2 2 1 (t_Z T0) (t_Y T0) 1 V0 = Some l.
Proof. exists trs0. exact trs0_eq. Qed.

Lemma nv_Z_nonneg : mat_nonneg (t_Z T0).
Proof. apply nv_mat_nonneg. vm_compute. reflexivity. Qed.
Lemma nv_Y_nonneg : mat_nonneg (t_Y T0).
Proof. apply nv_mat_nonneg. vm_compute. reflexivity. Qed.
Lemma nv_mu_pos : 0 < (1 : Qc).
Proof. qlt. Qed.

(* the hypotheses of C20_wf_create_all hold, hence its conclusion *)
Example ex_trackers_ok : length trs0 = 2%nat /\ Forall tracker_ok trs0 /\ Forall fresh trs0.
Proof.
  exact (c20_wf_create_all 2%nat 2%nat 1%nat (t_Z T0) (t_Y T0) 1 V0 trs0
           nv_mu_pos nv_Z_nonneg nv_Y_nonneg ex_event_ok trs0_eq).
Qed.

(* the rebuilding demand created is not trivial: the total remaining demand of the first tracker
   towards industry (r0,s0) is the whole damage (share 1, factor 1) *)
Example ex_rem_total :
  match trs0 with
  | tr :: _ => match rem_i tr with
               | Some m => sumn 4 (fun i => get m i 0) = q 10
               | None => False end
  | [] => False
  end.
Proof.
  assert (H : (match trs0 with
               | tr :: _ => match rem_i tr with
                            | Some m => Qceqb (sumn 4 (fun i => get m i 0)) (q 10)
                            | None => false end
               | [] => false end) = true) by (vm_compute; reflexivity).
  destruct trs0 as [|tr l]; [discriminate H|].
  destruct (rem_i tr); [apply nv_eq; exact H | discriminate H].
Qed.

(* ================================================================== *)
(* 3. the constructors' output is well-formed                          *)

Definition e0 : env := {| P := init_params T0 C0; dt := 1; prec := 7%Z |}.

Lemma nv_nS_pos : (0 < t_nS T0)%nat.
Proof. cbn. lia. Qed.

Example ex_wf_init : WFP e0 /\ WF e0 (init_sim T0 C0 trs0).
Proof.
  destruct ex_trackers_ok as (_ & Hok & Hfr).
  exact (c20_wf_init T0 C0 1%nat 7%Z trs0 ex_valid_table ex_valid_cfg
           (Nat.lt_0_succ 0) nv_nS_pos Hok Hfr).
Qed.

(* ================================================================== *)
(* 4. a history on which things happen                                  *)
(* steps at t = 0, 1, 2: equilibrium, the first event happens, then it starts being rebuilt
   (first rebuilding demand, deliveries and ledger update) while the second event happens.
   (A fourth step costs about 50 s of vm_compute, the exact rationals growing at every
   out-of-equilibrium step: three steps are used.) *)

(* what is read off the result of the computation *)
Definition chk (k : nat) (r : outcome * list obs) : bool :=
  match fst r with
  | Ok s =>
      Nat.eqb (length (snd r)) k
      && existsb (fun tr => negb (status_eqb (st tr) Pending)) (trs s)
      && existsb (fun tr => status_eqb (st tr) Rebuilding) (trs s)
      && existsb (fun tr => status_eqb (st tr) Happening) (trs s)
      && Nat.eqb (nE (eco s)) 1
  | _ => false
  end.
Lemma chk_elim (k : nat) (r : outcome * list obs) : chk k r = true ->
  exists s' os, r = (Ok s', os) /\ length os = k /\
    existsb (fun tr => negb (status_eqb (st tr) Pending)) (trs s') = true /\
    existsb (fun tr => status_eqb (st tr) Rebuilding) (trs s') = true /\
    existsb (fun tr => status_eqb (st tr) Happening) (trs s') = true /\
    nE (eco s') = 1%nat.
Proof.
  destruct r as [[s|s|er s] os]; unfold chk; cbn [fst snd]; intro H; try discriminate H.
  exists s, os.
  apply andb_prop in H. destruct H as [H H5].
  apply andb_prop in H. destruct H as [H H4].
  apply andb_prop in H. destruct H as [H H3].
  apply andb_prop in H. destruct H as [H1 H2].
  apply Nat.eqb_eq in H1. apply Nat.eqb_eq in H5.
  split; [reflexivity|]. split; [exact H1|]. split; [exact H2|]. split; [exact H3|].
  split; [exact H4|exact H5].
Qed.

Lemma chk3_ok : chk 3 (run e0 3 (init_sim T0 C0 trs0)) = true.
Proof. vm_compute. reflexivity. Qed.

Lemma nv_out3 : exists s' os,
  run e0 3 (init_sim T0 C0 trs0) = (Ok s', os) /\ length os = 3%nat /\
  existsb (fun tr => negb (status_eqb (st tr) Pending)) (trs s') = true /\
  existsb (fun tr => status_eqb (st tr) Rebuilding) (trs s') = true /\
  existsb (fun tr => status_eqb (st tr) Happening) (trs s') = true /\
  nE (eco s') = 1%nat.
Proof. exact (chk_elim 3 (run e0 3 (init_sim T0 C0 trs0)) chk3_ok). Qed.

Example ex_run_ok : exists s' os,
  run e0 3 (init_sim T0 C0 trs0) = (Ok s', os) /\ length os = 3%nat.
Proof.
  destruct nv_out3 as (s & os & H & Hl & _). exists s, os. split; assumption.
Qed.

Example ex_run_nontrivial : exists s' os,
  run e0 3 (init_sim T0 C0 trs0) = (Ok s', os) /\
  existsb (fun tr => negb (status_eqb (st tr) Pending)) (trs s') = true.
Proof.
  destruct nv_out3 as (s & os & H & _ & Hn & _). exists s, os. split; assumption.
Qed.

(* in the reached state one event is being rebuilt (one rebuilding block in the demand
   matrix) and the other one is happening *)
Example ex_run_rebuilding : exists s' os,
  run e0 3 (init_sim T0 C0 trs0) = (Ok s', os) /\
  existsb (fun tr => status_eqb (st tr) Rebuilding) (trs s') = true /\
  existsb (fun tr => status_eqb (st tr) Happening) (trs s') = true /\
  nE (eco s') = 1%nat.
Proof.
  destruct nv_out3 as (s & os & H & _ & _ & Hr & Hh & HE). exists s, os.
  split; [exact H|]. split; [exact Hr|]. split; [exact Hh|exact HE].
Qed.

(* a second history: the recovery event alone, occurring at 0 for one step; after three steps
   it is recovering and its remaining damage has gone down from 8 to 8 * (1 - 1/3), rounded
   to 7 decimals *)
Definition V1 : list evspec := [mk_recover 0 1].
Definition trs1 : list tracker :=
  match create_all 2 2 1 (t_Z T0) (t_Y T0) 1 V1 with Some l => l | None => [] end.
Lemma trs1_eq : create_all 2 2 1 (t_Z T0) (t_Y T0) 1 V1 = Some trs1.
Proof.
  assert (H : (match create_all 2 2 1 (t_Z T0) (t_Y T0) 1 V1 with
               | Some _ => true | None => false end) = true) by (vm_compute; reflexivity).
  unfold trs1. destruct (create_all 2 2 1 (t_Z T0) (t_Y T0) 1 V1); [reflexivity|discriminate H].
Qed.

Definition chk_rec (r : outcome * list obs) : bool :=
  match fst r with
  | Ok s =>
      match trs s with
      | [tr] => status_eqb (st tr) Recovering
                && match dmg tr with
                   | Some d => Qceqb (getv d 2) (of_frac 53333333 10000000)
                   | None => false end
      | _ => false
      end
  | _ => false
  end.
Lemma chk_rec_elim (r : outcome * list obs) : chk_rec r = true ->
  exists s' os tr d, r = (Ok s', os) /\ trs s' = [tr] /\ st tr = Recovering /\
    dmg tr = Some d /\ getv d 2 = of_frac 53333333 10000000.
Proof.
  destruct r as [[s|s|er s] os]; unfold chk_rec; cbn [fst snd]; intro H; try discriminate H.
  destruct (trs s) as [|tr [|tr' l]] eqn:Et; try discriminate H.
  apply andb_prop in H. destruct H as [H1 H2].
  destruct (dmg tr) as [d|] eqn:Ed; [|discriminate H2].
  exists s, os, tr, d. split; [reflexivity|]. split; [exact Et|].
  split; [destruct (st tr); try discriminate H1; reflexivity|].
  split; [exact Ed|]. apply nv_eq. exact H2.
Qed.
Lemma chk_rec_ok : chk_rec (run e0 3 (init_sim T0 C0 trs1)) = true.
Proof. vm_compute. reflexivity. Qed.

Example ex_run_recovering : exists s' os tr d,
  run e0 3 (init_sim T0 C0 trs1) = (Ok s', os) /\ trs s' = [tr] /\ st tr = Recovering /\
  dmg tr = Some d /\ getv d 2 = of_frac 53333333 10000000.
Proof. exact (chk_rec_elim (run e0 3 (init_sim T0 C0 trs1)) chk_rec_ok). Qed.

(* ================================================================== *)
(* 5. the invariant theorems apply to these histories                   *)

Example ex_wf_reached : forall s' os,
  run e0 3 (init_sim T0 C0 trs0) = (Ok s', os) -> WF e0 s'.
Proof.
  intros s' os H.
  exact (c20_accepted_run T0 C0 1%nat 7%Z 1 V0 trs0 3%nat s' os ex_valid_table ex_valid_cfg
           (Nat.lt_0_succ 0) nv_nS_pos nv_mu_pos ex_event_ok trs0_eq H).
Qed.

(* the same through C20_wf_run, from the well-formed initial state *)
Example ex_wf_reached' : forall s' os,
  run e0 3 (init_sim T0 C0 trs0) = (Ok s', os) -> WF e0 s'.
Proof.
  intros s' os H. destruct ex_wf_init as [HP HW].
  exact (c20_wf_run e0 3%nat (init_sim T0 C0 trs0) s' os HP HW H).
Qed.

(* hence a reached state with a rebuilding event that satisfies WF, in particular ids_ok with
   E = 1 : the hypotheses of the step theorems (C20_wf_step, C20_obs, C11_ids_step) are
   satisfiable in a state where an event is being rebuilt *)
Example ex_wf_state : exists s', WFP e0 /\ WF e0 s' /\ ids_ok 1 (trs s') /\
  existsb (fun tr => status_eqb (st tr) Rebuilding) (trs s') = true.
Proof.
  destruct nv_out3 as (s & os & H & _ & _ & Hr & _ & HE).
  pose proof (ex_wf_reached s os H) as HW.
  exists s. split; [exact (proj1 ex_wf_init)|]. split; [exact HW|]. split; [|exact Hr].
  rewrite <- HE. exact (wf_ids _ _ HW).
Qed.

(* and a well-formed reached state in which an event is recovering *)
Example ex_wf_state_recovering : exists s' tr, WF e0 s' /\ trs s' = [tr] /\ st tr = Recovering.
Proof.
  destruct ex_run_recovering as (s & os & tr & d & H & Ht & Hs & _).
  exists s, tr. split; [|split; assumption].
  exact (c20_accepted_run T0 C0 1%nat 7%Z 1 V1 trs1 3%nat s os ex_valid_table ex_valid_cfg
           (Nat.lt_0_succ 0) nv_nS_pos nv_mu_pos
           (Forall_cons _ (nv_recover_ok 0 1) (Forall_nil _)) trs1_eq H).
Qed.

(* ================================================================== *)
(* 6. the equilibrium is a fixed point (C01_run on T0, C0)              *)

Example ex_equilibrium : exists os,
  run e0 3 (init_sim T0 C0 []) = (Ok {| eco := init_eco T0 C0; trs := []; now := 3 |}, os).
Proof.
  destruct (c01_run T0 C0 1%nat 7%Z 3%nat ex_valid_table ex_valid_cfg (Nat.lt_0_succ 0)) as [os [H _]].
  exists os. exact H.
Qed.

(* ================================================================== *)
(* 7. late registration (C10_late_run on the trackers of V0)            *)

Definition later_b (tr : tracker) : bool :=
  status_eqb (st tr) Pending
  && match rid tr with None => true | Some _ => false end
  && Nat.ltb (0 + 1 * 1) (occ tr + 1).

Example ex_later_for : later_for e0 (init_sim T0 C0 []) 1 trs0.
Proof.
  assert (Hb : forallb later_b trs0 = true) by (vm_compute; reflexivity).
  unfold later_for. apply Forall_forall. intros tr Hin.
  rewrite forallb_forall in Hb. specialize (Hb tr Hin). unfold later_b in Hb.
  apply andb_prop in Hb. destruct Hb as [Hb Hlt].
  apply andb_prop in Hb. destruct Hb as [Hst Hrid].
  split; [|split].
  - destruct (st tr); try discriminate Hst. reflexivity.
  - destruct (rid tr); [discriminate Hrid | reflexivity].
  - apply Nat.ltb_lt in Hlt. exact Hlt.
Qed.

Example ex_all_later : all_later 0 trs0.
Proof.
  unfold all_later. pose proof ex_later_for as H. unfold later_for in H.
  eapply Forall_impl; [|exact H]. cbn. intros tr (H1 & _ & H3). split; [exact H1 | lia].
Qed.

(* conclusion of C10_late_run on this instance: registering V0 before or after the first step
   of the equilibrium run is the same *)
Example ex_late_run : exists os,
  run e0 1 (init_sim T0 C0 trs0)
  = (Ok {| eco := init_eco T0 C0; trs := trs0; now := 1 |}, os).
Proof.
  destruct (c01_run T0 C0 1%nat 7%Z 1%nat ex_valid_table ex_valid_cfg (Nat.lt_0_succ 0)) as [os [H _]].
  exists os.
  exact (c10_late_run e0 1%nat (init_sim T0 C0 []) trs0 (Nat.lt_0_succ 0) ex_later_for _ _ H).
Qed.

(* ================================================================== *)
(* 8. overproduction configuration, scalar impacts, labels              *)

Example ex_alpha_cfg : alpha_cfg (init_params T0 C0).
Proof. split; [qle | split; [qle | qlt]]. Qed.

Example ex_scalar : exists v,
  distribute_scalar (Qc_of_Z 10) 3 (Some [Some 1; Some (Qc_of_Z 2); Some (Qc_of_Z 2)]) = COk v /\
  sumq v = Qc_of_Z 10.
Proof.
  eexists. split.
  - vm_compute. reflexivity.
  - qeq.
Qed.

Example ex_dedup : dedup [3; 1; 3; 2; 1]%nat = [3; 1; 2]%nat.
Proof. vm_compute. reflexivity. Qed.

(* ================================================================== *)

Lemma nonvacuity_all :
  valid_table T0 /\ valid_cfg T0 C0 /\
  (forall j, (j < 4)%nat -> 0 < getv (i_VA T0) j /\ 0 < getv (i_K T0 C0) j) /\
  Forall event_ok V0 /\
  (exists l, create_all 2 2 1 (t_Z T0) (t_Y T0) 1 V0 = Some l) /\
  (length trs0 = 2%nat /\ Forall tracker_ok trs0 /\ Forall fresh trs0) /\
  (WFP e0 /\ WF e0 (init_sim T0 C0 trs0)) /\
  (exists s' os, run e0 3 (init_sim T0 C0 trs0) = (Ok s', os) /\ length os = 3%nat) /\
  (exists s' os, run e0 3 (init_sim T0 C0 trs0) = (Ok s', os) /\
     existsb (fun tr => negb (status_eqb (st tr) Pending)) (trs s') = true) /\
  (exists s' os, run e0 3 (init_sim T0 C0 trs0) = (Ok s', os) /\
     existsb (fun tr => status_eqb (st tr) Rebuilding) (trs s') = true /\
     existsb (fun tr => status_eqb (st tr) Happening) (trs s') = true /\
     nE (eco s') = 1%nat) /\
  (exists s' os tr d,
     run e0 3 (init_sim T0 C0 trs1) = (Ok s', os) /\ trs s' = [tr] /\ st tr = Recovering /\
     dmg tr = Some d /\ getv d 2 = of_frac 53333333 10000000) /\
  (forall s' os, run e0 3 (init_sim T0 C0 trs0) = (Ok s', os) -> WF e0 s') /\
  (exists s', WFP e0 /\ WF e0 s' /\ ids_ok 1 (trs s') /\
     existsb (fun tr => status_eqb (st tr) Rebuilding) (trs s') = true) /\
  (exists s' tr, WF e0 s' /\ trs s' = [tr] /\ st tr = Recovering) /\
  (exists os, run e0 3 (init_sim T0 C0 [])
              = (Ok {| eco := init_eco T0 C0; trs := []; now := 3 |}, os)) /\
  later_for e0 (init_sim T0 C0 []) 1 trs0 /\
  all_later 0 trs0 /\
  (exists os, run e0 1 (init_sim T0 C0 trs0)
              = (Ok {| eco := init_eco T0 C0; trs := trs0; now := 1 |}, os)) /\
  alpha_cfg (init_params T0 C0) /\
  (exists v, distribute_scalar (Qc_of_Z 10) 3 (Some [Some 1; Some (Qc_of_Z 2); Some (Qc_of_Z 2)])
             = COk v /\ sumq v = Qc_of_Z 10) /\
  dedup [3; 1; 3; 2; 1]%nat = [3; 1; 2]%nat /\
  match trs0 with
  | tr :: _ => match rem_i tr with
               | Some m => sumn 4 (fun i => get m i 0) = q 10
               | None => False end
  | [] => False
  end.
Proof.
  split; [exact ex_valid_table|]. split; [exact ex_valid_cfg|].
  split; [exact ex_va_positive|]. split; [exact ex_event_ok|].
  split; [exact ex_create|]. split; [exact ex_trackers_ok|].
  split; [exact ex_wf_init|]. split; [exact ex_run_ok|].
  split; [exact ex_run_nontrivial|]. split; [exact ex_run_rebuilding|].
  split; [exact ex_run_recovering|].
  split; [exact ex_wf_reached|]. split; [exact ex_wf_state|].
  split; [exact ex_wf_state_recovering|].
  split; [exact ex_equilibrium|]. split; [exact ex_later_for|].
  split; [exact ex_all_later|]. split; [exact ex_late_run|].
  split; [exact ex_alpha_cfg|]. split; [exact ex_scalar|].
  split; [exact ex_dedup|]. exact ex_rem_total.
Qed.

Print Assumptions nonvacuity_all.
