(* Proofs/C14Proofs.v - overproduction factor: bounds, rise, scarcity. *)
Require Import Boario.Base.QcLib Boario.Base.Vec Boario.Model.Econ Boario.Model.EconBase
  Boario.Spec.Statements.
Open Scope Qc_scope.

(* ------------------------------------------------------------------ *)
(* Pure arithmetic helpers. *)

(* z * r <= 1 whenever z <= 1 and 0 < r <= 1 (z may be negative) *)
Lemma c14_zr_le_1 (z r : Qc) : z <= 1 -> 0 < r -> r <= 1 -> z * r <= 1.
Proof.
  intros Hz Hr0 Hr1.
  assert (H1 : 0 <= (1 - z) * r) by (apply Qc_mul_nonneg; qc2q; lra).
  qc2q. lra.
Qed.

(* the scarcity-driven step never exceeds (M - a) * r *)
Lemma c14_step_le_rate (M a z r : Qc) :
  a <= M -> z <= 1 -> 0 < r -> (M - a) * z * r <= (M - a) * r.
Proof.
  intros HaM Hz Hr0.
  assert (H1 : 0 <= (M - a) * r) by (apply Qc_mul_nonneg; qc2q; lra).
  set (u := (M - a) * r) in *.
  assert (E : (M - a) * z * r = u * z) by (unfold u; ring).
  rewrite E. clear E. clearbody u.
  assert (H2 : 0 <= u * (1 - z)) by (apply Qc_mul_nonneg; [exact H1|qc2q; lra]).
  qc2q. lra.
Qed.

(* ... and stays below the maximum *)
Lemma c14_step_le_max (M a z r : Qc) :
  a <= M -> z <= 1 -> 0 < r -> r <= 1 -> a + (M - a) * z * r <= M.
Proof.
  intros HaM Hz Hr0 Hr1.
  assert (H1 : (M - a) * z * r <= (M - a) * r) by (apply c14_step_le_rate; assumption).
  assert (H2 : 0 <= (M - a) * (1 - r)) by (apply Qc_mul_nonneg; qc2q; lra).
  set (s := (M - a) * z * r) in *. clearbody s.
  qc2q. lra.
Qed.

(* a non-positive scarcity gives a non-positive step *)
Lemma c14_step_nonpos (M a z r : Qc) :
  a <= M -> z <= 0 -> 0 < r -> (M - a) * z * r <= 0.
Proof.
  intros HaM Hz Hr0.
  assert (H1 : 0 <= (M - a) * r) by (apply Qc_mul_nonneg; qc2q; lra).
  set (u := (M - a) * r) in *.
  assert (E : (M - a) * z * r = u * z) by (unfold u; ring).
  rewrite E. clear E. clearbody u.
  assert (H2 : 0 <= u * (0 - z)) by (apply Qc_mul_nonneg; [exact H1|qc2q; lra]).
  qc2q. lra.
Qed.

(* a positive scarcity gives a non-negative step *)
Lemma c14_step_nonneg (M a z r : Qc) :
  a <= M -> 0 <= z -> 0 < r -> 0 <= (M - a) * z * r.
Proof.
  intros HaM Hz Hr0.
  apply Qc_mul_nonneg; [apply Qc_mul_nonneg|]; qc2q; lra.
Qed.

(* relaxation towards the base value: a convex combination of a and B *)
Lemma c14_relax_le_max (M B a r : Qc) :
  B <= M -> a <= M -> 0 < r -> r <= 1 -> a + (B - a) * r <= M.
Proof.
  intros HB HaM Hr0 Hr1.
  assert (H1 : 0 <= (M - B) * r) by (apply Qc_mul_nonneg; qc2q; lra).
  assert (H2 : 0 <= (M - a) * (1 - r)) by (apply Qc_mul_nonneg; qc2q; lra).
  qc2q. lra.
Qed.

Lemma c14_relax_nonpos (a r : Qc) : 1 <= a -> 0 < r -> (1 - a) * r <= 0.
Proof.
  intros Ha Hr0.
  assert (H1 : 0 <= (a - 1) * r) by (apply Qc_mul_nonneg; qc2q; lra).
  qc2q. lra.
Qed.

(* the change term of [overprod1], by cases on the scarcity *)
Definition c14_chg (P : params) (a z : Qc) : Qc :=
  (a_max P - a) * z * a_rate P
  + (if Qceqb z 0 then (a_base P - a) * a_rate P else 0).

Lemma c14_overprod1_eq P a z :
  overprod1 P a z = qmin (a_max P) (qmax 1 (a + c14_chg P a z)).
Proof. reflexivity. Qed.

Lemma c14_chg_zero P a : c14_chg P a 0 = (a_base P - a) * a_rate P.
Proof.
  unfold c14_chg. destruct (Qceqb_spec 0 0) as [_|Hn]; [ring|exfalso; apply Hn; reflexivity].
Qed.

Lemma c14_chg_nonzero P a z : z <> 0 -> c14_chg P a z = (a_max P - a) * z * a_rate P.
Proof.
  intro Hz. unfold c14_chg. destruct (Qceqb_spec z 0) as [E|_]; [contradiction|ring].
Qed.

(* when the rate is at most 1 the change keeps a below a_max (the cap is idle) *)
Lemma c14_chg_le_max P a z :
  alpha_cfg P -> a_rate P <= 1 -> a <= a_max P -> z <= 1 -> a + c14_chg P a z <= a_max P.
Proof.
  intros (Hb1 & Hb2 & Hr0) Hr1 HaM Hz.
  destruct (Qceqb_spec z 0) as [E|Hn].
  - subst z. rewrite c14_chg_zero. apply c14_relax_le_max; assumption.
  - rewrite c14_chg_nonzero by exact Hn. apply c14_step_le_max; assumption.
Qed.

Lemma c14_chg_nonpos P a z :
  alpha_cfg P -> a_base P = 1 -> 1 <= a -> a <= a_max P -> z <= 0 -> c14_chg P a z <= 0.
Proof.
  intros (Hb1 & Hb2 & Hr0) HB Ha1 HaM Hz.
  destruct (Qceqb_spec z 0) as [E|Hn].
  - subst z. rewrite c14_chg_zero, HB. apply c14_relax_nonpos; assumption.
  - rewrite c14_chg_nonzero by exact Hn. apply c14_step_nonpos; assumption.
Qed.

(* ------------------------------------------------------------------ *)
Lemma c14_bounds : C14_bounds.
Proof.
  intros P a z Hcfg Ha1 HaM Hz.
  rewrite c14_overprod1_eq. split.
  - apply qmin_glb; [|apply qmax_l].
    destruct Hcfg as (Hb1 & Hb2 & _). qc2q. lra.
  - apply qmin_l.
Qed.
Print Assumptions c14_bounds.

(* ------------------------------------------------------------------ *)
Lemma c14_le_when_nonpos P a z :
  alpha_cfg P -> a_base P = 1 -> 1 <= a -> a <= a_max P -> z <= 0 ->
  overprod1 P a z <= a.
Proof.
  intros Hcfg HB Ha1 HaM Hz.
  rewrite c14_overprod1_eq.
  apply Qcle_trans with (qmax 1 (a + c14_chg P a z)); [apply qmin_r|].
  apply qmax_lub; [exact Ha1|].
  assert (Hc : c14_chg P a z <= 0) by (apply c14_chg_nonpos; assumption).
  set (c := c14_chg P a z) in *. clearbody c. qc2q. lra.
Qed.

Lemma c14_rise : C14_rise.
Proof.
  intros P a z Hcfg HB Ha1 HaM Hz.
  split; [|split].
  - intro Hrise.
    assert (Hzpos : 0 < z).
    { destruct (Qclt_le_dec 0 z) as [Hp|Hle]; [exact Hp|].
      exfalso.
      assert (Hle' : overprod1 P a z <= a) by (apply c14_le_when_nonpos; assumption).
      set (o := overprod1 P a z) in *. clearbody o. qc2q. lra. }
    split; [exact Hzpos|].
    assert (Hn : z <> 0) by (apply Qc_pos_neq0; exact Hzpos).
    rewrite c14_overprod1_eq, c14_chg_nonzero by exact Hn.
    destruct Hcfg as (Hb1 & Hb2 & Hr0).
    assert (Hs : 0 <= (a_max P - a) * z * a_rate P).
    { apply c14_step_nonneg; [exact HaM| |exact Hr0]. apply Qclt_le_weak. exact Hzpos. }
    assert (Hle : a_rate P <= 1 -> a + (a_max P - a) * z * a_rate P <= a_max P).
    { intro Hr1. apply c14_step_le_max; assumption. }
    set (s := (a_max P - a) * z * a_rate P) in *. clearbody s.
    assert (Em : qmax 1 (a + s) = a + s).
    { unfold qmax. destruct (Qcleb_spec 1 (a + s)) as [H1|H1]; [reflexivity|].
      exfalso. apply H1. qc2q. lra. }
    rewrite Em. split; [reflexivity|].
    intro Hr1. apply qmin_le_r. apply Hle. exact Hr1.
  - intro Hz0. apply c14_le_when_nonpos; assumption.
  - destruct Hcfg as (Hb1 & Hb2 & Hr0).
    assert (Hu : 0 <= (a_max P - a) * a_rate P) by (apply Qc_mul_nonneg; qc2q; lra).
    assert (Hc : c14_chg P a z <= (a_max P - a) * a_rate P).
    { destruct (Qceqb_spec z 0) as [E|Hn].
      - subst z. rewrite c14_chg_zero, HB.
        assert (Hr : (1 - a) * a_rate P <= 0) by (apply c14_relax_nonpos; assumption).
        set (u := (a_max P - a) * a_rate P) in *. set (v := (1 - a) * a_rate P) in *.
        clearbody u v. qc2q. lra.
      - rewrite c14_chg_nonzero by exact Hn. apply c14_step_le_rate; assumption. }
    rewrite c14_overprod1_eq.
    assert (Hm : qmin (a_max P) (qmax 1 (a + c14_chg P a z)) <= qmax 1 (a + c14_chg P a z))
      by apply qmin_r.
    set (c := c14_chg P a z) in *. set (u := (a_max P - a) * a_rate P) in *.
    set (m := qmin (a_max P) (qmax 1 (a + c))) in *.
    clearbody c u m.
    destruct (qmax_cases 1 (a + c)) as [E|E]; rewrite E in Hm; qc2q; lra.
Qed.
Print Assumptions c14_rise.

(* ------------------------------------------------------------------ *)
(* (d - x) / d for 0 < d *)
Lemma c14_ratio_le_1 (d x : Qc) : 0 < d -> 0 <= x -> (d - x) / d <= 1.
Proof.
  intros Hd Hx. unfold Qcdiv.
  assert (Hi : 0 < / d) by (apply Qc_inv_pos; exact Hd).
  assert (E : d * / d = 1) by (apply Qcmult_inv_r, Qc_pos_neq0; exact Hd).
  set (i := / d) in *. clearbody i.
  assert (Hxi : 0 <= x * i) by (apply Qc_mul_nonneg; [exact Hx|apply Qclt_le_weak; exact Hi]).
  assert (E2 : (d - x) * i = 1 - x * i) by (rewrite <- E; ring).
  rewrite E2. set (w := x * i) in *. clearbody w. qc2q. lra.
Qed.

Lemma c14_ratio_pos_iff (d x : Qc) : 0 < d -> (0 < (d - x) / d <-> x < d).
Proof.
  intro Hd. unfold Qcdiv.
  assert (Hi : 0 < / d) by (apply Qc_inv_pos; exact Hd).
  assert (E : d * / d = 1) by (apply Qcmult_inv_r, Qc_pos_neq0; exact Hd).
  set (i := / d) in *. clearbody i.
  split; intro H.
  - (* d - x = ((d - x) * i) * d *)
    assert (E2 : d - x = ((d - x) * i) * d).
    { transitivity ((d - x) * (d * i)); [rewrite E; ring|ring]. }
    set (q := (d - x) * i) in *. clearbody q.
    assert (Hq : 0 < q * d).
    { unfold Qclt in *. rewrite this_mult. apply Qmult_lt_0_compat; assumption. }
    rewrite <- E2 in Hq. qc2q. lra.
  - unfold Qclt. rewrite this_mult. apply Qmult_lt_0_compat; [|exact Hi].
    qc2q. lra.
Qed.

Lemma c14_scarcity : C14_scarcity.
Proof.
  intros dtot prodv f Hx Hd. unfold scarcity.
  set (d := getv dtot f) in *. set (x := getv prodv f) in *. clearbody d x.
  destruct (Qceqb_spec d 0) as [E|Hn].
  - subst d. split.
    + qc2q. lra.
    + split; intro H; exfalso; qc2q; lra.
  - assert (Hdpos : 0 < d).
    { destruct (Qclt_le_dec 0 d) as [Hp|Hle]; [exact Hp|].
      exfalso. apply Hn. apply Qcle_antisym; assumption. }
    split.
    + apply c14_ratio_le_1; assumption.
    + apply c14_ratio_pos_iff; exact Hdpos.
Qed.
Print Assumptions c14_scarcity.
