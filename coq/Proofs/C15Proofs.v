(* Proofs/C15Proofs.v - C15: canonicalisation of labelled inputs does not depend on
   the order in which the labelled entries are given. *)
Require Import Boario.Base.QcLib Boario.Base.Vec Boario.Model.RecoveryFns Boario.Model.Ctor
  Boario.Model.Ingest Boario.Spec.StatementsIO.
From Coq Require Import Permutation Sorting.Sorted.
Open Scope nat_scope.

Section C15.
Context {A : Type}.
Let kle := fun a b : nat * A => fst a <= fst b.

Lemma c15_sort_cons (p : nat * A) l : sort_k (p :: l) = insert_k (fst p) (snd p) (sort_k l).
Proof. reflexivity. Qed.

(* ---- insertion sort permutes ---- *)
Lemma c15_insert_perm k (v : A) l : Permutation (insert_k k v l) ((k, v) :: l).
Proof.
  induction l as [|[k' v'] r IH]; cbn [insert_k].
  - apply Permutation_refl.
  - destruct (Nat.leb k k'); [apply Permutation_refl|].
    eapply Permutation_trans; [apply perm_skip; exact IH|apply perm_swap].
Qed.

Lemma c15_sort_perm (l : list (nat * A)) : Permutation (sort_k l) l.
Proof.
  induction l as [|[k v] l IH]; [apply Permutation_refl|].
  rewrite c15_sort_cons. cbn [fst snd].
  eapply Permutation_trans; [apply c15_insert_perm|apply perm_skip; exact IH].
Qed.

(* ---- insertion sort sorts ---- *)
Lemma c15_insert_sorted k (v : A) l :
  StronglySorted kle l -> StronglySorted kle (insert_k k v l).
Proof.
  induction l as [|[k' v'] r IH]; intro H; cbn [insert_k].
  - constructor; constructor.
  - apply StronglySorted_inv in H. destruct H as [Hs Hf].
    destruct (Nat.leb_spec k k') as [Hle|Hgt].
    + constructor; [constructor; assumption|].
      constructor; [unfold kle; cbn [fst]; exact Hle|].
      eapply Forall_impl; [|exact Hf]. unfold kle. cbn [fst]. intros a Ha. lia.
    + constructor; [apply IH; exact Hs|].
      apply Forall_forall. intros x Hx.
      apply (Permutation_in x (c15_insert_perm k v r)) in Hx.
      destruct Hx as [Hx|Hx].
      * subst x. unfold kle. cbn [fst]. lia.
      * rewrite Forall_forall in Hf. apply Hf. exact Hx.
Qed.

Lemma c15_sort_sorted (l : list (nat * A)) : StronglySorted kle (sort_k l).
Proof.
  induction l as [|p l IH]; [constructor|].
  rewrite c15_sort_cons. apply c15_insert_sorted. exact IH.
Qed.

(* ---- a sorted list with distinct keys is determined by its elements ---- *)
Lemma c15_key_inj (l : list (nat * A)) a b :
  NoDup (map fst l) -> In a l -> In b l -> fst a = fst b -> a = b.
Proof.
  induction l as [|x l IH]; cbn [map In]; intros Hn Ha Hb E; [contradiction|].
  inversion Hn as [|k ks Hnot Hn']; subst.
  destruct Ha as [Ha|Ha]; destruct Hb as [Hb|Hb].
  - congruence.
  - subst x. exfalso. apply Hnot. rewrite E. apply in_map. exact Hb.
  - subst x. exfalso. apply Hnot. rewrite <- E. apply in_map. exact Ha.
  - apply IH; assumption.
Qed.

Lemma c15_head_le (a b : nat * A) l1 l2 :
  StronglySorted kle (a :: l1) -> Permutation (a :: l1) (b :: l2) -> fst a <= fst b.
Proof.
  intros S Hp.
  assert (Hb : In b (a :: l1)).
  { apply (Permutation_in b (Permutation_sym Hp)). left. reflexivity. }
  destruct Hb as [Hb|Hb]; [subst; apply Nat.le_refl|].
  apply StronglySorted_inv in S. destruct S as [_ Hf].
  rewrite Forall_forall in Hf. apply Hf. exact Hb.
Qed.

Lemma c15_sorted_unique (l1 : list (nat * A)) : forall l2,
  StronglySorted kle l1 -> StronglySorted kle l2 -> NoDup (map fst l1) ->
  Permutation l1 l2 -> l1 = l2.
Proof.
  induction l1 as [|a l1 IH]; intros l2 S1 S2 Hn Hp.
  - apply Permutation_nil in Hp. symmetry. exact Hp.
  - destruct l2 as [|b l2].
    { apply Permutation_sym in Hp. apply Permutation_nil in Hp. discriminate Hp. }
    assert (Eab : a = b).
    { apply (c15_key_inj (a :: l1)).
      - exact Hn.
      - left. reflexivity.
      - apply (Permutation_in b (Permutation_sym Hp)). left. reflexivity.
      - apply Nat.le_antisymm.
        + eapply c15_head_le; [exact S1|exact Hp].
        + eapply c15_head_le; [exact S2|apply Permutation_sym; exact Hp]. }
    subst b. f_equal.
    apply StronglySorted_inv in S1. apply StronglySorted_inv in S2.
    cbn [map] in Hn. inversion Hn as [|k ks Hnot Hn']; subst.
    apply IH.
    + apply S1.
    + apply S2.
    + exact Hn'.
    + eapply Permutation_cons_inv. exact Hp.
Qed.

Lemma c15_sort_eq (l l' : list (nat * A)) :
  NoDup (map fst l) -> Permutation l l' -> sort_k l = sort_k l'.
Proof.
  intros Hn Hp. apply c15_sorted_unique.
  - apply c15_sort_sorted.
  - apply c15_sort_sorted.
  - eapply Permutation_NoDup; [|exact Hn].
    apply Permutation_map. apply Permutation_sym. apply c15_sort_perm.
  - eapply Permutation_trans; [apply c15_sort_perm|].
    eapply Permutation_trans; [exact Hp|]. apply Permutation_sym. apply c15_sort_perm.
Qed.

(* ---- insertion sort only looks at the keys ---- *)
Variable R : nat * A -> nat * A -> Prop.
Hypothesis R_key : forall a b, R a b -> fst a = fst b.

Lemma c15_insert_F2 k v v' l l' :
  R (k, v) (k, v') -> Forall2 R l l' -> Forall2 R (insert_k k v l) (insert_k k v' l').
Proof.
  intros Hv F. induction F as [|[kx vx] [ky vy] l l' Hxy F IH]; cbn [insert_k].
  - constructor; [exact Hv|constructor].
  - pose proof (R_key _ _ Hxy) as E. cbn [fst] in E. subst ky.
    destruct (Nat.leb k kx).
    + constructor; [exact Hv|]. constructor; assumption.
    + constructor; assumption.
Qed.

Lemma c15_sort_F2 l l' : Forall2 R l l' -> Forall2 R (sort_k l) (sort_k l').
Proof.
  intro F. induction F as [|[kx vx] [ky vy] l l' Hxy F IH]; [constructor|].
  rewrite !c15_sort_cons. cbn [fst snd].
  pose proof (R_key _ _ Hxy) as E. cbn [fst] in E. subst ky.
  apply c15_insert_F2; assumption.
Qed.
End C15.

(* ---- C15 ---- *)
Lemma c15_canon : C15_canon.
Proof.
  intros A l l' Hn Hp. unfold canon. rewrite (c15_sort_eq l l' Hn Hp). reflexivity.
Qed.
Print Assumptions c15_canon.

Lemma c15_sorted : C15_sorted.
Proof.
  intros A l. split; [apply c15_sort_perm|apply c15_sort_sorted].
Qed.
Print Assumptions c15_sorted.

Lemma c15_canon_mat_rows : C15_canon_mat_rows.
Proof.
  intros A m m' Hn Hp. unfold canon_mat. rewrite (c15_canon _ m m' Hn Hp). reflexivity.
Qed.
Print Assumptions c15_canon_mat_rows.

Lemma c15_canon_mat_cols : C15_canon_mat_cols.
Proof.
  intros A m m' H. unfold canon_mat.
  change (canon m) with (map snd (sort_k m)). change (canon m') with (map snd (sort_k m')).
  rewrite !map_map.
  apply c15_sort_F2 in H; [|intros a b [E _]; exact E].
  induction H as [|x y l l' Hxy F IH]; [reflexivity|].
  cbn [map]. f_equal; [|exact IH].
  destruct Hxy as [_ [Hn Hp]]. apply c15_canon; assumption.
Qed.
Print Assumptions c15_canon_mat_cols.
