(* Proofs/C19Proofs.v - C19: delaying all events by k steps delays every recorded
   trajectory by exactly k steps and leaves it otherwise unchanged. *)
Require Import Boario.Base.QcLib Boario.Base.Vec Boario.Model.Econ Boario.Model.Init
  Boario.Model.Events Boario.Model.Sim Boario.Model.RecoveryFns Boario.Model.InitSim
  Boario.Spec.StatementsEv Boario.Spec.StatementsRun Boario.Spec.StatementsShift.
Require Import Boario.Proofs.C01Aux Boario.Proofs.C01Proofs Boario.Proofs.C10Proofs
  Boario.Proofs.C16Proofs Boario.Proofs.C19Aux.
Open Scope nat_scope.

(* ---- C19_step_equivariant ---- *)
Lemma c19_step_equivariant : C19_step_equivariant.
Proof.
  intros e d s Hnow. apply c19_step_equiv_gen. intros s1 r Hev.
  apply c16_events_keep in Hev. destruct Hev as [Hn _]. rewrite Hn.
  assert (H1 : Nat.ltb 1 (now s + d) = true) by (apply Nat.ltb_lt; lia).
  assert (H2 : Nat.ltb 1 (now s) = true) by (apply Nat.ltb_lt; exact Hnow).
  rewrite H1, H2. reflexivity.
Qed.
Print Assumptions c19_step_equivariant.

(* ---- trackers that the schedule leaves alone ---- *)
Definition c19_calm (t : nat) (tr : tracker) : Prop :=
  st tr = Pending \/ (st tr = Happening /\ t < occ tr + dur tr).

Lemma c19_start_calm t l : Forall (c19_calm t) l -> forall n, start t l n = (l, n).
Proof.
  intro H. induction H as [|x l Hx H IH]; intro n; [reflexivity|].
  cbn [start]. destruct Hx as [Hx|[Hx Ht]]; rewrite Hx.
  - rewrite IH. reflexivity.
  - assert (Hb : Nat.leb (occ x + dur x) t = false) by (apply Nat.leb_gt; exact Ht).
    rewrite Hb, IH. reflexivity.
Qed.

Lemma c19_any_rebuilding_calm t l : Forall (c19_calm t) l -> any_rebuilding l = false.
Proof.
  intro H. unfold any_rebuilding. induction H as [|x l Hx H IH]; [reflexivity|].
  cbn [existsb]. rewrite IH. destruct Hx as [Hx|[Hx _]]; rewrite Hx; reflexivity.
Qed.

Lemma c19_activate_calm dt t tr :
  st tr = Pending -> t <= occ tr -> 1 <= dur tr -> c19_calm t (activate dt t tr).
Proof.
  intros Hs Ho Hd. unfold activate. rewrite Hs.
  destruct (Nat.leb (t - dt) (occ tr) && Nat.leb (occ tr) t).
  - right. cbn [set_st st occ dur]. split; [reflexivity|lia].
  - left. exact Hs.
Qed.

Section Shift.
Variable T : table.
Variable C : config.
Hypothesis HT : valid_table T.
Hypothesis HC : valid_cfg T C.
Variable dtn : nat.
Variable pr : Z.
Hypothesis Hdtn : 0 < dtn.

Local Notation e := {| P := init_params T C; dt := dtn; prec := pr |}.

(* before the earliest occurrence the equilibrium step leaves everything in place *)
Lemma c19_step_idle t l : all_later t l ->
  exists o, step e {| eco := init_eco T C; trs := l; now := t |}
            = (Ok {| eco := init_eco T C; trs := l; now := t + dtn |}, Some o)
            /\ eq_obs T C o.
Proof.
  intro H.
  destruct (c10_prefix e {| eco := init_eco T C; trs := l; now := t |} H) as [Hsame Htrs].
  destruct (c01_step_sec T C HT HC dtn pr t) as [o [Hs Ho]].
  exists o. split; [|exact Ho].
  unfold strip in Hsame. cbn [eco now] in Hsame. rewrite Hs in Hsame.
  destruct Hsame as [Hsnd Hfst]. cbn [fst snd] in Hsnd, Hfst.
  destruct (step e {| eco := init_eco T C; trs := l; now := t |}) as [[x|x|er x] oo] eqn:Es;
    cbn [fst snd] in Hsnd, Hfst; try contradiction.
  destruct Hfst as [He Hn]. cbn [eco now] in He, Hn.
  pose proof (Htrs x oo eq_refl) as Hx. cbn [trs] in Hx.
  destruct x as [xe xl xt]. cbn [eco trs now] in He, Hn, Hx. subst. reflexivity.
Qed.

Lemma c19_run_idle : forall k t l,
  Forall (fun tr => st tr = Pending /\ t + k * dtn <= occ tr) l ->
  exists os, run e k {| eco := init_eco T C; trs := l; now := t |}
             = (Ok {| eco := init_eco T C; trs := l; now := t + k * dtn |}, os)
             /\ length os = k /\ Forall (eq_obs T C) os.
Proof.
  induction k as [|k IH]; intros t l H.
  - exists []. cbn [run]. replace (t + 0 * dtn) with t by lia.
    split; [reflexivity|]. split; [reflexivity|constructor].
  - assert (Hl : all_later t l).
    { unfold all_later. eapply Forall_impl; [|exact H]. cbv beta. intros tr [Hs Ho].
      split; [exact Hs|]. cbn [Nat.mul] in Ho. lia. }
    destruct (c19_step_idle t l Hl) as [o [Hs Ho]].
    assert (H' : Forall (fun tr => st tr = Pending /\ t + dtn + k * dtn <= occ tr) l).
    { eapply Forall_impl; [|exact H]. cbv beta. intros tr [Hs' Ho'].
      split; [exact Hs'|]. cbn [Nat.mul] in Ho'. lia. }
    destruct (IH (t + dtn) l H') as [os [Hr [Hlen Hf]]].
    exists (o :: os). cbn [run]. rewrite Hs. cbv beta iota. rewrite Hr.
    replace (t + S k * dtn) with (t + dtn + k * dtn) by lia.
    split; [reflexivity|]. split; [cbn [length]; rewrite Hlen; reflexivity|].
    constructor; assumption.
Qed.

(* a state in which the overproduction update is the identity whatever the clock says *)
Definition c19_quiet (s : sim) : Prop :=
  alpha (eco s) = i_alpha0 T C /\ prod (eco s) = i_X0 T C /\ dem (eco s) = i_dem0 T C /\
  nE (eco s) = 0 /\
  Forall (fun tr => st tr = Pending /\ now s <= occ tr /\ 1 <= dur tr) (trs s).

Lemma c19_quiet_guard d s : c19_quiet s ->
  forall s1 r, events_phase e s = Some (s1, r) ->
     (if Nat.ltb 1 (now s1 + d)
      then overprod (P e) (alpha (eco s1)) (dtot_of e (nE (eco s1)) (dem (eco s1))) (prod (eco s1))
      else alpha (eco s1))
     = (if Nat.ltb 1 (now s1)
        then overprod (P e) (alpha (eco s1)) (dtot_of e (nE (eco s1)) (dem (eco s1))) (prod (eco s1))
        else alpha (eco s1)).
Proof.
  intros [Ha [Hp [Hd [HE Hl]]]] s1 r Hev.
  assert (Hcalm : Forall (c19_calm (now s)) (map (activate (dt e) (now s)) (trs s))).
  { apply Forall_map. eapply Forall_impl; [|exact Hl]. cbv beta.
    intros tr [H1 [H2 H3]]. apply c19_activate_calm; assumption. }
  cbn [dt] in Hcalm.
  unfold events_phase in Hev. cbv zeta in Hev.
  rewrite (c19_start_calm _ _ Hcalm) in Hev. cbv beta iota in Hev.
  destruct (capital_exceeded _ _) in Hev; [discriminate Hev|].
  injection Hev as Hs1 _. rewrite <- Hs1. cbn [eco now alpha prod nE dem].
  rewrite Nat.eqb_refl. cbn [negb]. unfold dem_events. cbv zeta.
  rewrite (c19_any_rebuilding_calm _ _ Hcalm).
  rewrite Ha, Hp, Hd, HE. cbn [P].
  rewrite (c01_dtot T C HT dtn pr), (c01_overprod T C HC).
  destruct (Nat.ltb 1 (now s + d)); destruct (Nat.ltb 1 (now s)); reflexivity.
Qed.

(* the invariant of the unshifted run: either the guard is open, or nothing has happened yet *)
Definition c19_inv (s : sim) : Prop :=
  1 < now s \/ (eco s = init_eco T C /\ now s <= 1 /\ Forall fresh (trs s)).

Lemma c19_inv_step_equiv d s : c19_inv s ->
  step e (shift_sim d s) = (shift_outcome d (fst (step e s)), snd (step e s)).
Proof.
  intros [H|[He [Hn Hf]]].
  - apply c19_step_equivariant. exact H.
  - apply c19_step_equiv_gen. apply c19_quiet_guard.
    unfold c19_quiet. rewrite He. cbn [init_eco alpha prod dem nE].
    split; [reflexivity|]. split; [reflexivity|]. split; [reflexivity|]. split; [reflexivity|].
    eapply Forall_impl; [|exact Hf]. cbv beta. intros tr [H1 [H2 [H3 _]]].
    split; [exact H1|]. split; [lia|exact H3].
Qed.

Lemma c19_inv_preserved s s' o : c19_inv s -> step e s = (Ok s', o) -> c19_inv s'.
Proof.
  intros [H|[He [Hn Hf]]] Hs.
  - left. apply c16_step_ok_now in Hs. cbn [dt] in Hs. lia.
  - destruct (Nat.eq_dec (now s) 0) as [H0|H0].
    + destruct s as [ec l t]. cbn [eco trs now] in He, Hn, Hf, H0. subst ec t.
      assert (Hl : all_later 0 l).
      { unfold all_later. eapply Forall_impl; [|exact Hf]. cbv beta.
        intros tr [H1 [H2 _]]. split; [exact H1|lia]. }
      destruct (c19_step_idle 0 l Hl) as [o' [Hs' _]].
      rewrite Hs' in Hs. injection Hs as Hs _. rewrite <- Hs.
      destruct (Nat.eq_dec dtn 1) as [H1|H1].
      * right. cbn [eco trs now]. split; [reflexivity|]. split; [lia|exact Hf].
      * left. cbn [now]. lia.
    + left. apply c16_step_ok_now in Hs. cbn [dt] in Hs. lia.
Qed.

Lemma c19_run_equiv d : forall n s, c19_inv s ->
  run e n (shift_sim d s) = (shift_outcome d (fst (run e n s)), snd (run e n s)).
Proof.
  induction n as [|n IH]; intros s Hi; [reflexivity|].
  cbn [run]. rewrite (c19_inv_step_equiv d s Hi).
  destruct (step e s) as [[s'|s'|er s'] [o|]] eqn:Es; cbn [fst snd shift_outcome]; try reflexivity.
  - rewrite (IH s' (c19_inv_preserved s s' _ Hi Es)).
    destruct (run e n s') as [rr os]. reflexivity.
  - apply IH. exact (c19_inv_preserved s s' _ Hi Es).
Qed.

Lemma c19_shift_sec (l : list tracker) (k n : nat) : Forall fresh l ->
  exists os0, length os0 = k /\ Forall (eq_obs T C) os0 /\
    snd (run e (k + n) (init_sim T C (map (shift_tr (k * dtn)) l)))
      = os0 ++ snd (run e n (init_sim T C l)) /\
    fst (run e (k + n) (init_sim T C (map (shift_tr (k * dtn)) l)))
      = shift_outcome (k * dtn) (fst (run e n (init_sim T C l))).
Proof.
  intro Hf.
  assert (Hl : Forall (fun tr => st tr = Pending /\ 0 + k * dtn <= occ tr)
                      (map (shift_tr (k * dtn)) l)).
  { apply Forall_map. eapply Forall_impl; [|exact Hf]. cbv beta. intros tr [H1 _].
    split; [exact H1|]. cbn [shift_tr occ]. lia. }
  destruct (c19_run_idle k 0 _ Hl) as [os0 [Hr [Hlen Hobs]]].
  exists os0. split; [exact Hlen|]. split; [exact Hobs|].
  rewrite (c16_compose e k n (init_sim T C (map (shift_tr (k * dtn)) l))).
  unfold init_sim at 1 3. rewrite Hr. cbv beta iota.
  change {| eco := init_eco T C; trs := map (shift_tr (k * dtn)) l; now := 0 + k * dtn |}
    with (shift_sim (k * dtn) (init_sim T C l)).
  assert (Hi : c19_inv (init_sim T C l)).
  { right. cbn [init_sim eco trs now]. split; [reflexivity|]. split; [lia|exact Hf]. }
  rewrite (c19_run_equiv (k * dtn) n _ Hi). cbn [fst snd]. split; reflexivity.
Qed.

End Shift.

(* ---- C19_shift ---- *)
Lemma c19_shift : C19_shift.
Proof.
  intros T C dtn pr l k n HT HC Hd Hf e r1 r2.
  exact (c19_shift_sec T C HT HC dtn pr Hd l k n Hf).
Qed.
Print Assumptions c19_shift.
