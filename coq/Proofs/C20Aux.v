(* Proofs/C20Aux.v - helper material for C20: non-negativity of tabulated vectors and
   matrices outside their range, preservation of [tracker_ok] by every tracker update,
   well-formedness after the events phase. *)
Require Import Boario.Base.QcLib Boario.Base.Vec Boario.Model.Econ Boario.Model.EconBase
  Boario.Model.Events Boario.Model.Sim Boario.Model.Tracker Boario.Model.RecoveryFns
  Boario.Spec.Statements Boario.Spec.StatementsEv Boario.Spec.StatementsRun
  Boario.Spec.StatementsWF.
Require Import Boario.Proofs.C03Proofs Boario.Proofs.C05Proofs Boario.Proofs.C07Proofs
  Boario.Proofs.C08Proofs Boario.Proofs.C09Proofs Boario.Proofs.C11Proofs.
Open Scope Qc_scope.

(* ================================================================== *)
(* vectors / matrices: reads outside the range give 0                  *)

Lemma c20_le_0_1 : 0 <= 1.
Proof. unfold Qcle. cbn. discriminate. Qed.

Lemma c20_get_out_row (m : mat) i j : (length m <= i)%nat -> get m i j = 0.
Proof. intro H. unfold get. rewrite (nth_overflow m [] H). destruct j; reflexivity. Qed.

Lemma c20_getv_tab_nonneg n f :
  (forall i, (i < n)%nat -> 0 <= f i) -> forall i, 0 <= getv (tab n f) i.
Proof.
  intros H i. destruct (lt_dec i n) as [L|L].
  - rewrite getv_tab by exact L. apply H. exact L.
  - unfold getv. rewrite nth_overflow by (rewrite tab_length; lia). apply Qcle_refl.
Qed.

Lemma c20_get_tab2_nonneg n m f :
  (forall i j, (i < n)%nat -> (j < m)%nat -> 0 <= f i j) ->
  forall i j, 0 <= get (tab2 n m f) i j.
Proof.
  intros H i j. destruct (lt_dec i n) as [Li|Li]; [destruct (lt_dec j m) as [Lj|Lj]|].
  - rewrite get_tab2 by assumption. apply H; assumption.
  - unfold get, tab2. rewrite nth_tab by exact Li.
    rewrite nth_overflow by (rewrite tab_length; lia). apply Qcle_refl.
  - rewrite c20_get_out_row; [apply Qcle_refl|]. unfold tab2. rewrite tab_length. lia.
Qed.

Lemma c20_getv_map_nonneg (g : Qc -> Qc) (v : vec) :
  (forall x, 0 <= x -> 0 <= g x) -> vec_nonneg v -> vec_nonneg (map g v).
Proof.
  intros Hg Hv j. destruct (lt_dec j (length v)) as [L|L].
  - rewrite c09_getv_map by exact L. apply Hg. apply Hv.
  - unfold getv. rewrite nth_overflow by (rewrite map_length; lia). apply Qcle_refl.
Qed.

Lemma c20_getv_map_le1 (g : Qc -> Qc) (v : vec) :
  (forall x, x <= 1 -> g x <= 1) -> vec_le1 v -> vec_le1 (map g v).
Proof.
  intros Hg Hv j. destruct (lt_dec j (length v)) as [L|L].
  - rewrite c09_getv_map by exact L. apply Hg. apply Hv.
  - unfold getv. rewrite nth_overflow by (rewrite map_length; lia). apply c20_le_0_1.
Qed.

Lemma c20_any_negative_false n m a :
  any_negative n m a = false -> forall i j, (i < n)%nat -> (j < m)%nat -> 0 <= get a i j.
Proof.
  intros H i j Hi Hj. destruct (Qclt_le_dec (get a i j) 0) as [L|L]; [|exact L].
  exfalso. assert (X : any_negative n m a = true).
  { apply c05_any_negative_spec. exists i, j. repeat split; assumption. }
  rewrite X in H. discriminate H.
Qed.

Lemma c20_round6_1 : round_dec 6 1 = 1.
Proof.
  replace 1 with (Qc_of_Z 1000000 * pow10 (- 6)) by (apply Qc_is_canon; vm_compute; reflexivity).
  apply c08_round_exact.
Qed.

(* ================================================================== *)
(* trackers                                                            *)

Definition ovn (o : option vec) : Prop := forall v, o = Some v -> vec_nonneg v.
Definition ov1 (o : option vec) : Prop := forall v, o = Some v -> vec_nonneg v /\ vec_le1 v.
Definition omn (o : option mat) : Prop := forall m, o = Some m -> mat_nonneg m.

Lemma c20_ovn_None : ovn None. Proof. intros v X. discriminate X. Qed.
Lemma c20_ov1_None : ov1 None. Proof. intros v X. discriminate X. Qed.
Lemma c20_omn_None : omn None. Proof. intros v X. discriminate X. Qed.

Lemma c20_ok_set_ledgers tr d h a ri rh :
  tracker_ok tr -> ovn d -> ovn h -> ov1 a -> omn ri -> omn rh ->
  tracker_ok (set_ledgers tr d h a ri rh).
Proof.
  unfold ovn, ov1, omn. intros [] Hd Hh Ha Hri Hrh.
  constructor; unfold set_ledgers; cbn; assumption.
Qed.

Lemma c20_ok_set_st tr x : tracker_ok tr -> tracker_ok (set_st tr x).
Proof. intros []. constructor; unfold set_st; cbn; assumption. Qed.

Lemma c20_ok_set_rid tr x : tracker_ok tr -> tracker_ok (set_rid tr x).
Proof. intros []. constructor; unfold set_rid; cbn; assumption. Qed.

Lemma c20_Forall_map (g : tracker -> tracker) l :
  (forall x, tracker_ok x -> tracker_ok (g x)) ->
  Forall tracker_ok l -> Forall tracker_ok (map g l).
Proof.
  intros Hg H. induction H as [|x l Hx H IH]; cbn [map]; constructor; [apply Hg; exact Hx|exact IH].
Qed.

Lemma c20_activate_ok dt t tr : tracker_ok tr -> tracker_ok (activate dt t tr).
Proof.
  intro H. unfold activate. destruct (st tr); try exact H.
  destruct (_ && _); [apply c20_ok_set_st|]; exact H.
Qed.

Lemma c20_start_ok t l : forall n, Forall tracker_ok l -> Forall tracker_ok (fst (start t l n)).
Proof.
  induction l as [|tr rest IH]; intros n H; [constructor|].
  inversion H as [|? ? Htr Hrest]; subst. cbn [start].
  pose proof (IH n Hrest) as I0. pose proof (IH (S n) Hrest) as I1.
  destruct (start t rest n) as [r0 n0]. destruct (start t rest (S n)) as [r1 n1].
  cbn [fst] in I0, I1.
  destruct (st tr); try (cbn [fst]; constructor; assumption).
  destruct (Nat.leb _ _); [destruct (kind tr)|]; cbn [fst]; constructor; try assumption.
  - apply c20_ok_set_rid, c20_ok_set_st. exact Htr.
  - apply c20_ok_set_st. exact Htr.
  - apply c20_ok_set_st. exact Htr.
Qed.

(* ---- receive ---- *)
Lemma c20_receive_ok P prec E rp tr : tracker_ok tr -> tracker_ok (receive P prec E rp tr).
Proof.
  intro H. unfold receive. cbv zeta.
  destruct (rid tr) as [id|]; [|exact H].
  match goal with |- context [let '(_, _) := ?M in _] => set (M1 := M) end.
  assert (H1 : omn (fst M1) /\ ovn (snd M1)).
  { subst M1. destruct (rem_i tr) as [m|].
    - destruct (all_zero_m _); cbn [fst snd]; (split; [|]); try (intros ? X; discriminate X).
      + intros m' X. injection X as <-. intros i j. apply c20_get_tab2_nonneg.
        intros. apply (proj1 (c08_ledger_cell _ _ _)).
      + intros v X. injection X as <-. intro j. apply c20_getv_tab_nonneg.
        intros k Hk. apply Qc_div_nonneg; [|apply Qclt_le_weak; exact (to_phi tr H)].
        unfold colsum. rewrite getv_tab by exact Hk. apply sumn_nonneg.
        intros i Hi. apply c20_get_tab2_nonneg.
        intros. apply (proj1 (c08_ledger_cell _ _ _)).
    - cbn [fst snd]. split; [apply c20_omn_None|exact (to_dmg tr H)]. }
  clearbody M1. destruct M1 as [ri d]. cbn [fst snd] in H1. destruct H1 as [Hri Hd].
  match goal with |- context [let '(_, _) := ?M in _] => set (M2 := M) end.
  assert (H2 : omn (fst M2) /\ ovn (snd M2)).
  { subst M2. destruct (rem_h tr) as [m|].
    - destruct (all_zero_m _); cbn [fst snd]; (split; [|]); try (intros ? X; discriminate X).
      + intros m' X. injection X as <-. intros i j. apply c20_get_tab2_nonneg.
        intros. apply (proj1 (c08_ledger_cell _ _ _)).
      + intros v X. injection X as <-. intro j. apply c20_getv_tab_nonneg.
        intros k Hk. apply Qc_div_nonneg; [|apply Qclt_le_weak; exact (to_phi tr H)].
        unfold colsum. rewrite getv_tab by exact Hk. apply sumn_nonneg.
        intros i Hi. apply c20_get_tab2_nonneg.
        intros. apply (proj1 (c08_ledger_cell _ _ _)).
    - cbn [fst snd]. split; [apply c20_omn_None|exact (to_hdmg tr H)]. }
  clearbody M2. destruct M2 as [rh h]. cbn [fst snd] in H2. destruct H2 as [Hrh Hh].
  assert (Hok : tracker_ok (set_ledgers tr d h (arb tr) ri rh)).
  { apply c20_ok_set_ledgers; try assumption. exact (to_arb tr H). }
  destruct d; [exact Hok|]. destruct h; [exact Hok|]. apply c20_ok_set_st. exact Hok.
Qed.

(* ---- recover1 ---- *)
Lemma c20_round_v_nonneg prec v : vec_nonneg v -> ovn (round_v prec v).
Proof.
  intro Hv. unfold round_v. cbv zeta. destruct (all_zero_v _); intros w X; [discriminate X|].
  injection X as <-. apply c20_getv_map_nonneg; [|exact Hv]. intros x Hx. apply c08_round_nonneg. exact Hx.
Qed.

Lemma c20_round_v_le1 v : vec_nonneg v -> vec_le1 v -> ov1 (round_v 6 v).
Proof.
  intros Hv H1. unfold round_v. cbv zeta. destruct (all_zero_v _); intros w X; [discriminate X|].
  injection X as <-. split.
  - apply c20_getv_map_nonneg; [|exact Hv]. intros x Hx. apply c08_round_nonneg. exact Hx.
  - apply c20_getv_map_le1; [|exact H1]. intros x Hx.
    eapply Qcle_trans; [apply (c08_round_mono 6 x 1); exact Hx|].
    rewrite c20_round6_1. apply Qcle_refl.
Qed.

Lemma c20_recover1_ok prec t tr : tracker_ok tr -> tracker_ok (recover1 prec t tr).
Proof.
  intro H. rewrite c09_recover1_eq.
  assert (Hd : ovn (c09_d prec t tr)).
  { unfold c09_d. pose proof (to_dmg tr H) as X. pose proof (to_dmg0 tr H) as X0.
    destruct (kind tr); try exact X. destruct (dmg tr); [|exact X]. destruct (dmg0 tr) as [i|]; [|exact X].
    apply c20_round_v_nonneg. apply (to_rf tr H). apply X0. reflexivity. }
  assert (Hh : ovn (c09_h prec t tr)).
  { unfold c09_h. pose proof (to_hdmg tr H) as X. pose proof (to_hdmg0 tr H) as X0.
    destruct (kind tr); try exact X. destruct (hdmg tr); [|exact X]. destruct (hdmg0 tr) as [i|]; [|exact X].
    apply c20_round_v_nonneg. apply (to_rf tr H). apply X0. reflexivity. }
  assert (Ha : ov1 (c09_a t tr)).
  { unfold c09_a. pose proof (to_arb tr H) as X. pose proof (to_arb0 tr H) as X0.
    destruct (arb tr); [|exact X]. destruct (arb0 tr) as [i|]; [|exact X].
    destruct (X0 i eq_refl) as [A B].
    apply c20_round_v_le1; [apply (to_rf tr H); exact A|apply (to_rf1 tr H); assumption]. }
  generalize dependent (c09_a t tr). generalize dependent (c09_h prec t tr).
  generalize dependent (c09_d prec t tr). intros d Hd h Hh a Ha.
  assert (Hok : tracker_ok (set_ledgers tr d h a (rem_i tr) (rem_h tr))).
  { apply c20_ok_set_ledgers; try assumption; [exact (to_rem_i tr H)|exact (to_rem_h tr H)]. }
  unfold c09_fin. cbv zeta.
  destruct d; [exact Hok|]. destruct h; [exact Hok|]. destruct a; [exact Hok|].
  apply c20_ok_set_st. exact Hok.
Qed.

Lemma c20_rebuild_ledgers_ok P prec E rp l :
  Forall tracker_ok l -> Forall tracker_ok (rebuild_ledgers P prec E rp l).
Proof.
  unfold rebuild_ledgers. apply c20_Forall_map. intros x Hx.
  destruct (is_rebuilding x); [apply c20_receive_ok|]; exact Hx.
Qed.

Lemma c20_compact_ok old new : Forall tracker_ok new -> Forall tracker_ok (compact_ids old new).
Proof.
  unfold compact_ids. apply c20_Forall_map. intros x Hx.
  destruct (is_rebuilding x); [destruct (rid x)|]; try apply c20_ok_set_rid; exact Hx.
Qed.

Lemma c20_recover_ledgers_ok prec t l :
  Forall tracker_ok l -> Forall tracker_ok (recover_ledgers prec t l).
Proof.
  unfold recover_ledgers. apply c20_Forall_map. intros x Hx.
  destruct (status_eqb _ _); [apply c20_recover1_ok|]; exact Hx.
Qed.

(* ---- aggregates ---- *)
Lemma c20_contrib trs : Forall tracker_ok trs ->
  forall tr f, In tr trs ->
    0 <= cap_contrib tr f /\ 0 <= arb_contrib tr f /\ arb_contrib tr f <= 1.
Proof.
  intros H tr f Hin. rewrite Forall_forall in H. specialize (H tr Hin).
  unfold cap_contrib, arb_contrib. split; [|].
  - destruct (active_capital tr); [|apply Qcle_refl].
    destruct (dmg tr) as [v|] eqn:Ed; [|apply Qcle_refl]. apply (to_dmg tr H v Ed).
  - destruct (active_arb tr); [|split; [apply Qcle_refl|apply c20_le_0_1]].
    destruct (arb tr) as [v|] eqn:Ea; [|split; [apply Qcle_refl|apply c20_le_0_1]].
    destruct (to_arb tr H v Ea) as [A B]. split; [apply A|apply B].
Qed.

Lemma c20_klost_nonneg n trs f : Forall tracker_ok trs -> (f < n)%nat -> 0 <= getv (klost_of n trs) f.
Proof.
  intros H Hf. rewrite c07_klost_get by exact Hf. apply c07_sum_list_nonneg.
  intros x Hx. apply (c20_contrib trs H x f Hx).
Qed.

(* ---- the presented reconstruction demand ---- *)
Lemma c20_reb_cell_nonneg P q E trs f j :
  0 <= q -> Forall tracker_ok trs -> 0 <= reb_cell P q E trs f j.
Proof.
  intros Hq H. unfold reb_cell. cbv zeta.
  match goal with |- 0 <= fold_left ?g _ _ => set (G := g) end.
  assert (HG : forall acc tr, tracker_ok tr -> 0 <= acc -> 0 <= G acc tr).
  { intros acc tr Htr Hacc. subst G. cbv beta.
    assert (Hr : 0 <= q / tau tr).
    { apply Qc_div_nonneg; [exact Hq|apply Qclt_le_weak; exact (to_tau tr Htr)]. }
    destruct (rid tr); [|exact Hacc].
    destruct (Nat.ltb _ _).
    - destruct (Nat.eqb _ _); [|exact Hacc].
      destruct (rem_i tr) as [m|] eqn:Em; [|exact Hacc].
      apply Qc_mul_nonneg; [apply (to_rem_i tr Htr m Em)|exact Hr].
    - destruct (Nat.eqb _ _); [|exact Hacc].
      destruct (rem_h tr) as [m|] eqn:Em; [|exact Hacc].
      destruct (hdmg tr); [|exact Hacc].
      apply Qc_mul_nonneg; [apply (to_rem_h tr Htr m Em)|exact Hr]. }
  clearbody G.
  assert (X : forall acc, 0 <= acc -> 0 <= fold_left G trs acc).
  { induction H as [|x l Hx H IH]; intros acc Hacc; cbn [fold_left]; [exact Hacc|].
    apply IH. apply HG; assumption. }
  apply X. apply Qcle_refl.
Qed.

Lemma c20_dem_events_nonneg P q rs E trs dem :
  0 <= q -> Forall tracker_ok trs ->
  (forall f j, (f < NN P)%nat -> 0 <= get dem f j) ->
  forall f j, (f < NN P)%nat -> 0 <= get (dem_events P q rs E trs dem) f j.
Proof.
  intros Hq H Hd f j Hf. unfold dem_events. cbv zeta.
  destruct (any_rebuilding trs); [|destruct rs; [|apply Hd; exact Hf]].
  - apply c20_get_tab2_nonneg. intros i k Hi Hk.
    destruct (Nat.ltb _ _); [apply Hd; exact Hi|apply c20_reb_cell_nonneg; assumption].
  - apply c20_get_tab2_nonneg. intros i k Hi Hk.
    destruct (Nat.ltb _ _); [apply Hd; exact Hi|apply Qcle_refl].
Qed.

Lemma c20_dtq_nonneg e : 0 <= dtq e.
Proof. unfold dtq. apply (c09_qnat_nonneg (dt e)). Qed.

(* ================================================================== *)
(* the events phase                                                    *)

Lemma c20_events_shape e s s1 r : events_phase e s = Some (s1, r) ->
  let t := now s in
  let sr := start t (map (activate (dt e) t) (trs s)) (nE (eco s)) in
  capital_exceeded (P e) (klost_of (NN (P e)) (fst sr)) = false /\
  s1 = {| eco := {| alpha := alpha (eco s); stock := stock (eco s);
                    dem := dem_events (P e) (dtq e) (negb (Nat.eqb (snd sr) (nE (eco s)))) (snd sr)
                             (fst sr) (dem (eco s));
                    nE := snd sr; prod := prod (eco s);
                    delta := delta_of (P e) (klost_of (NN (P e)) (fst sr)) (arb_of (NN (P e)) (fst sr));
                    klost := klost_of (NN (P e)) (fst sr);
                    unmetv := unmetv (eco s); rprod := rprod (eco s) |};
          trs := fst sr; now := t |}.
Proof.
  intro H. unfold events_phase in H. cbv zeta in *.
  destruct (start (now s) (map (activate (dt e) (now s)) (trs s)) (nE (eco s))) as [trs2 E2].
  cbn [fst snd].
  destruct (capital_exceeded (P e) (klost_of (NN (P e)) trs2)); [discriminate H|].
  injection H as H _. split; [reflexivity|]. symmetry. exact H.
Qed.

Lemma c20_events_wf e s s1 r :
  WFP e -> WF e s -> events_phase e s = Some (s1, r) ->
  WF e s1 /\ now s1 = now s /\
  (forall f, (f < NN (P e))%nat -> 0 <= getv (klost (eco s1)) f).
Proof.
  intros HP HW Hev.
  pose proof (c11_events_phase e s s1 r Hev (wf_ids e s HW)) as Hids.
  destruct (c20_events_shape e s s1 r Hev) as [Hex Hs1]. cbv zeta in Hex, Hs1.
  set (sr := start (now s) (map (activate (dt e) (now s)) (trs s)) (nE (eco s))) in *.
  assert (Htrs : Forall tracker_ok (fst sr)).
  { subst sr. apply c20_start_ok. apply c20_Forall_map; [|exact (wf_trs e s HW)].
    intros x Hx. apply c20_activate_ok. exact Hx. }
  clearbody sr. subst s1. cbn [eco trs now klost nE] in *.
  split; [|split; [reflexivity|]].
  - constructor.
    + exact (wf_alpha e s HW).
    + exact (wf_stock e s HW).
    + exact (wf_prod e s HW).
    + cbn [eco dem]. intros f j Hf. apply c20_dem_events_nonneg.
      * apply c20_dtq_nonneg.
      * exact Htrs.
      * exact (wf_dem e s HW).
      * exact Hf.
    + cbn [eco delta]. intros f Hf.
      apply (c07_range (P e) (fst sr) (wp_K e HP) (c20_contrib _ Htrs) Hex f Hf).
    + exact Htrs.
    + exact Hids.
  - intros f Hf. apply c20_klost_nonneg; assumption.
Qed.
