(* Proofs/C20InitProofs.v - C20, first link of the chain (Spec/StatementsInit.v): what the
   constructors accept is well-formed. *)
Require Import Boario.Base.QcLib Boario.Base.Vec Boario.Model.Econ Boario.Model.Init
  Boario.Model.Events Boario.Model.Sim Boario.Model.Tracker Boario.Model.Create
  Boario.Model.RecoveryFns Boario.Model.InitSim
  Boario.Spec.Statements Boario.Spec.StatementsEv Boario.Spec.StatementsRun
  Boario.Spec.StatementsWF Boario.Spec.StatementsInit.
Require Import Boario.Proofs.C01Aux Boario.Proofs.C08Proofs Boario.Proofs.C09Proofs
  Boario.Proofs.C20Aux Boario.Proofs.C20Proofs.
From Coq Require Import Permutation.
Open Scope Qc_scope.

(* ================================================================== *)
(* the built-in recovery curves                                        *)

Lemma c20i_scale_nonneg (c : Qc) (v : vec) :
  0 <= c -> vec_nonneg v -> vec_nonneg (map (fun x => x * c) v).
Proof.
  intros Hc Hv. apply c20_getv_map_nonneg; [|exact Hv].
  intros x Hx. apply Qc_mul_nonneg; assumption.
Qed.

Lemma c20i_scale_le1 (c : Qc) (v : vec) :
  0 <= c -> c <= 1 -> vec_le1 v -> vec_le1 (map (fun x => x * c) v).
Proof.
  intros Hc0 Hc1 Hv. apply c20_getv_map_le1; [|exact Hv].
  intros x Hx. destruct (Qclt_le_dec x 0) as [L|L]; qc2q; nra.
Qed.

Lemma c20i_linear_factor (tau e : nat) : (0 < tau)%nat ->
  0 <= qpos (1 - qnat e / qnat tau) /\ qpos (1 - qnat e / qnat tau) <= 1.
Proof.
  intro Htau. split; [apply qpos_nonneg|]. apply c09_qpos_le1.
  assert (H : 0 <= qnat e / qnat tau).
  { apply Qc_div_nonneg; apply c09_qnat_nonneg. }
  set (q := qnat e / qnat tau) in *. clearbody q. qc2q. lra.
Qed.

Lemma c20_builtin_rf : C20_builtin_rf.
Proof.
  intros tau e init Htau Hinit.
  destruct (c20i_linear_factor tau e Htau) as [L0 L1].
  destruct (c09_base_range tau Htau) as [B0 B1].
  destruct (c09_qpow_range _ e B0 B1) as [P0 P1].
  destruct (c09_qpow_range _ (4 * e) B0 B1) as [S0 S1].
  unfold linear_rec, convexe_rec, convexe_scaled_rec.
  split.
  - split; [|split]; apply c20i_scale_nonneg; assumption.
  - intro H1. split; [|split]; apply c20i_scale_le1; assumption.
Qed.
Print Assumptions c20_builtin_rf.

(* ================================================================== *)
(* EventTracker.__init__                                               *)

(* non-negativity inside the table only: what [valid_table] gives *)
Definition mat_nonneg_in (n m : nat) (M : mat) : Prop :=
  forall i j, (i < n)%nat -> (j < m)%nat -> 0 <= get M i j.

Lemma c20i_nonneg_in n m M : mat_nonneg M -> mat_nonneg_in n m M.
Proof. intros H i j _ _. apply H. Qed.

Lemma c20i_conv_nonneg eps mu v :
  0 < eps -> 0 < mu -> vec_nonneg v -> vec_nonneg (conv eps mu v).
Proof.
  intros He Hm Hv. unfold conv. apply c20i_scale_nonneg; [|exact Hv].
  apply Qc_div_nonneg; apply Qclt_le_weak; assumption.
Qed.

Lemma c20i_share_nonneg shares k :
  (forall p, In p shares -> 0 <= snd p) -> 0 <= share_of shares k.
Proof.
  induction shares as [|a l IH]; intro H; unfold share_of; cbn [fold_right].
  - apply Qcle_refl.
  - fold (share_of l k).
    assert (Hl : 0 <= share_of l k) by (apply IH; intros p Hp; apply H; right; exact Hp).
    destruct (Nat.eqb (fst a) k); [|exact Hl].
    apply Qc_add_nonneg; [apply H; left; reflexivity|exact Hl].
Qed.

Lemma c20i_colsec_nonneg nr ns flows W k j :
  mat_nonneg_in (nr * ns) W flows -> (k < ns)%nat -> (j < W)%nat ->
  0 <= colsec nr ns flows k j.
Proof.
  intros Hf Hk Hj. unfold colsec. apply sumn_nonneg. intros r Hr.
  apply Hf; [apply c01_idx_lt; assumption|exact Hj].
Qed.

Lemma c20i_mk_rem_nonneg nr ns flows W shares phi imp m :
  mat_nonneg_in (nr * ns) W flows -> (forall p, In p shares -> 0 <= snd p) ->
  0 < phi -> vec_nonneg imp ->
  mk_rem nr ns flows W shares phi imp = Some m -> mat_nonneg m.
Proof.
  intros Hf Hs Hphi Himp Hm.
  apply c08_mk_rem_some in Hm. destruct Hm as [_ ->].
  unfold mat_nonneg. apply c20_get_tab2_nonneg. intros i j Hi Hj.
  destruct (Qceqb (getv imp j) 0); [apply Qcle_refl|].
  apply Qc_mul_nonneg; [apply Qc_mul_nonneg; [apply Qc_mul_nonneg|]|].
  - apply c20i_share_nonneg. exact Hs.
  - apply Himp.
  - apply Qclt_le_weak. exact Hphi.
  - apply Qc_div_nonneg; [apply Hf; assumption|].
    apply (c20i_colsec_nonneg nr ns flows W); [exact Hf| |exact Hj].
    apply (c01_mod_lt nr). exact Hi.
Qed.

Lemma c20i_ok_with_damage v d h ri rh :
  event_ok v -> vec_nonneg d -> ovn h -> omn ri -> omn rh ->
  tracker_ok (with_damage (base_tracker v) d h ri rh).
Proof.
  intros Hv Hd Hh Hri Hrh. unfold ovn, omn in *.
  constructor; unfold with_damage, base_tracker;
    cbn [kind occ dur tau phi rf dmg0 hdmg0 arb0 st rid dmg hdmg arb rem_i rem_h].
  - exact (eo_tau _ Hv).
  - exact (eo_phi _ Hv).
  - intros x X. injection X as <-. exact Hd.
  - exact Hh.
  - intros x X. discriminate X.
  - intros x X. injection X as <-. exact Hd.
  - exact Hh.
  - intros x X. discriminate X.
  - exact Hri.
  - exact Hrh.
  - exact (eo_rf _ Hv).
  - exact (eo_rf1 _ Hv).
Qed.

Lemma c20i_house_nonneg v mu : 0 < mu -> event_ok v ->
  ovn (match v_house v with Some x => Some (conv (v_eps v) mu x) | None => None end).
Proof.
  intros Hmu Hv w X. destruct (v_house v) as [x|] eqn:E; [|discriminate X].
  injection X as <-. apply c20i_conv_nonneg; [exact (eo_eps _ Hv)|exact Hmu|].
  apply (eo_house _ Hv). exact E.
Qed.

Definition C20_wf_create_in : Prop :=
  forall (nr ns nc : nat) (Zy Yy : mat) (mu : Qc) (v : evspec) (tr : tracker),
  0 < mu -> mat_nonneg_in (nr * ns) (nr * ns) Zy -> mat_nonneg_in (nr * ns) (nr * nc) Yy ->
  event_ok v ->
  create nr ns nc Zy Yy mu v = Some tr ->
  tracker_ok tr /\ fresh tr /\ occ tr = v_occ v /\ dur tr = v_dur v /\ kind tr = v_kind v.

Lemma c20_wf_create_in : C20_wf_create_in.
Proof.
  intros nr ns nc Zy Yy mu v tr Hmu HZ HY Hv Hc.
  pose proof (c20i_conv_nonneg _ _ _ (eo_eps _ Hv) Hmu (eo_impact _ Hv)) as Hd.
  pose proof (c20i_house_nonneg v mu Hmu Hv) as Hh.
  unfold create in Hc. cbv zeta in Hc.
  destruct (v_kind v) eqn:K.
  - (* KRebuild *)
    destruct (mk_rem nr ns Zy (nr * ns) (v_shares v) (v_phi v) (conv (v_eps v) mu (v_impact v)))
      as [mi|] eqn:Emi; [|discriminate Hc].
    assert (Hmi : mat_nonneg mi).
    { apply (c20i_mk_rem_nonneg _ _ _ _ _ _ _ _ HZ (eo_shares _ Hv) (eo_phi _ Hv) Hd Emi). }
    destruct (v_house v) as [x|] eqn:Eh.
    + destruct (mk_rem nr ns Yy (nr * nc) (v_shares v) (v_phi v) (conv (v_eps v) mu x))
        as [mh|] eqn:Emh; [|discriminate Hc].
      assert (Hx : vec_nonneg (conv (v_eps v) mu x)) by (apply Hh; reflexivity).
      assert (Hmh : mat_nonneg mh).
      { apply (c20i_mk_rem_nonneg _ _ _ _ _ _ _ _ HY (eo_shares _ Hv) (eo_phi _ Hv) Hx Emh). }
      injection Hc as <-. split; [|split; [split; reflexivity|repeat split; try reflexivity]].
      * apply c20i_ok_with_damage; [exact Hv|exact Hd| | |].
        -- intros w X. injection X as <-. exact Hx.
        -- intros w X. injection X as <-. exact Hmi.
        -- intros w X. injection X as <-. exact Hmh.
      * cbn [kind with_damage base_tracker]. exact K.
    + injection Hc as <-. split; [|split; [split; reflexivity|repeat split; try reflexivity]].
      * apply c20i_ok_with_damage; [exact Hv|exact Hd|apply c20_ovn_None| |apply c20_omn_None].
        intros w X. injection X as <-. exact Hmi.
      * cbn [kind with_damage base_tracker]. exact K.
  - (* KRecover *)
    injection Hc as <-. split; [|split; [split; reflexivity|repeat split; try reflexivity]].
    + apply c20i_ok_with_damage; [exact Hv|exact Hd|exact Hh|apply c20_omn_None|apply c20_omn_None].
    + cbn [kind with_damage base_tracker]. exact K.
  - (* KArb *)
    injection Hc as <-. split; [|split; [split; reflexivity|repeat split; try reflexivity]].
    + pose proof (eo_impact _ Hv) as Hi. pose proof (eo_arb _ Hv K) as Hi1.
      constructor; unfold base_tracker;
        cbn [kind occ dur tau phi rf dmg0 hdmg0 arb0 st rid dmg hdmg arb rem_i rem_h];
        try (intros x X; discriminate X).
      * exact (eo_tau _ Hv).
      * exact (eo_phi _ Hv).
      * intros x X. injection X as <-. split; assumption.
      * intros x X. injection X as <-. split; assumption.
      * exact (eo_rf _ Hv).
      * exact (eo_rf1 _ Hv).
    + cbn [kind base_tracker]. exact K.
Qed.

Lemma c20_wf_create : C20_wf_create.
Proof.
  intros nr ns nc Zy Yy mu v tr Hmu HZ HY Hv Hc.
  apply (c20_wf_create_in nr ns nc Zy Yy mu v tr Hmu); try assumption; apply c20i_nonneg_in; assumption.
Qed.
Print Assumptions c20_wf_create.

(* ------------------------------------------------------------------ *)
(* Simulation(events_list=...) : all or nothing                         *)

Definition C20_wf_create_all_in : Prop :=
  forall (nr ns nc : nat) (Zy Yy : mat) (mu : Qc) (l : list evspec) (trs : list tracker),
  0 < mu -> mat_nonneg_in (nr * ns) (nr * ns) Zy -> mat_nonneg_in (nr * ns) (nr * nc) Yy ->
  Forall event_ok l ->
  create_all nr ns nc Zy Yy mu l = Some trs ->
  length trs = length l /\ Forall tracker_ok trs /\ Forall fresh trs.

Lemma c20_wf_create_all_in : C20_wf_create_all_in.
Proof.
  intros nr ns nc Zy Yy mu l. induction l as [|v r IH]; intros trs Hmu HZ HY Hl Hc.
  - cbn [create_all] in Hc. injection Hc as <-. split; [reflexivity|]. split; constructor.
  - cbn [create_all] in Hc.
    destruct (create nr ns nc Zy Yy mu v) as [t|] eqn:Et; [|discriminate Hc].
    destruct (create_all nr ns nc Zy Yy mu r) as [ts|] eqn:Ets; [|discriminate Hc].
    injection Hc as <-.
    pose proof (Forall_inv Hl) as Hv. pose proof (Forall_inv_tail Hl) as Hr.
    destruct (IH ts Hmu HZ HY Hr eq_refl) as [Hlen [Hok Hfr]].
    destruct (c20_wf_create_in nr ns nc Zy Yy mu v t Hmu HZ HY Hv Et) as [Htok [Htfr _]].
    split; [cbn [length]; rewrite Hlen; reflexivity|].
    split; constructor; assumption.
Qed.

Lemma c20_wf_create_all : C20_wf_create_all.
Proof.
  intros nr ns nc Zy Yy mu l trs Hmu HZ HY Hl Hc.
  apply (c20_wf_create_all_in nr ns nc Zy Yy mu l trs Hmu); try assumption;
    apply c20i_nonneg_in; assumption.
Qed.
Print Assumptions c20_wf_create_all.

(* ================================================================== *)
(* ARIOBaseModel / ARIOPsiModel / Simulation constructors               *)

Lemma c20i_zdist_nonneg (T : table) : valid_table T ->
  forall i j, (i < t_nR T * t_nS T)%nat -> (j < t_nR T * t_nS T)%nat -> 0 <= get (i_zdist T) i j.
Proof.
  intros HT i j Hi Hj. unfold i_zdist. rewrite get_tab2 by assumption. cbv zeta.
  destruct (Qceqb (ZC_year T (i mod t_nS T) j) 0); [apply Qcle_refl|].
  apply Qc_div_nonneg; [apply (c01_Z_nonneg T HT); assumption|].
  unfold ZC_year. apply sumn_nonneg. intros r Hr.
  apply (c01_Z_nonneg T HT); [|exact Hj].
  apply c01_idx_lt; [exact Hr|apply (c01_mod_lt (t_nR T)); exact Hi].
Qed.

Lemma c20i_rho_nonneg (T : table) (C : config) : valid_cfg T C ->
  forall p, (p < t_nS T)%nat -> 0 <= nth p (i_rho T C) 0.
Proof.
  intros HC p Hp. unfold i_rho. rewrite nth_tab by exact Hp.
  destruct (c_psi_class C); [|apply c20_le_0_1].
  apply Qc_div_nonneg; apply Qclt_le_weak; [exact (vc_dt _ _ HC)|exact (vc_rest _ _ HC p Hp)].
Qed.

Lemma c20i_alpha_cfg (T : table) (C : config) : valid_cfg T C ->
  alpha_cfg (init_params T C).
Proof.
  intros HC. destruct (vc_alpha _ _ HC) as [H1 [H2 H3]].
  unfold alpha_cfg. cbn [a_base a_max a_rate init_params].
  split; [exact H1|]. split; [exact H2|].
  unfold Qcdiv. pose proof (Qc_inv_pos _ H3) as Hi. pose proof (vc_dt _ _ HC) as Hd.
  set (i := / c_a_tau C) in *. set (d := c_dt C) in *. clearbody i d. qc2q. nra.
Qed.

Lemma c20i_fresh_ids (l : list tracker) : Forall fresh l -> ids_ok 0 l.
Proof.
  intro H. unfold ids_ok. split.
  - assert (E : reb_ids l = []).
    { unfold reb_ids. induction H as [|x r [Hst Hrid] Hr IH]; cbn [flat_map]; [reflexivity|].
      rewrite IH. unfold is_rebuilding. rewrite Hst. reflexivity. }
    rewrite E. cbn [seq]. apply perm_nil.
  - induction H as [|x r [Hst Hrid] Hr IH]; constructor; [|exact IH].
    unfold is_rebuilding. rewrite Hst. cbn [status_eqb]. exact Hrid.
Qed.

(* No bound on the step relative to the overproduction characteristic time is needed:
   [alpha_cfg] only asks for a positive rate [c_dt C / c_a_tau C], the update being capped
   at a_max. *)
Lemma c20_wf_init : C20_wf_init.
Proof.
  intros T C dtn pr l HT HC Hdt HnS Hok Hfr e. subst e. split.
  - constructor; unfold NN; cbn [P dt nR nS X0 Z0 tech K psi rho zdist init_params].
    + exact Hdt.
    + exact HnS.
    + apply (c01_X0_nonneg T C HT HC).
    + apply (c01_Z0_nonneg T C HT HC).
    + apply (c01_tech_nonneg T HT).
    + apply (c01_K_nonneg T C HC).
    + exact (proj1 (c01_psi_bounds T C HC)).
    + apply c01_invq_nonneg.
    + apply (c20i_rho_nonneg T C HC).
    + apply (c20i_zdist_nonneg T HT).
    + apply c20i_alpha_cfg; assumption.
  - constructor.
    + (* alpha *)
      intros f Hf. unfold NN in Hf. cbn [P nR nS init_params] in Hf.
      cbn [eco init_sim alpha init_eco P a_max init_params].
      unfold i_alpha0. rewrite getv_tab by exact Hf.
      destruct (vc_alpha _ _ HC) as [H1 [H2 _]]. split; assumption.
    + (* stocks *)
      intros p f Hp Hf _. unfold NN in Hf. cbn [P nR nS init_params] in Hp, Hf.
      cbn [eco init_sim stock init_eco]. unfold i_stock0. rewrite get_tab2 by assumption.
      apply Qc_mul_nonneg; [apply Qc_mul_nonneg|].
      * apply (c01_X0_nonneg T C HT HC). exact Hf.
      * apply (c01_tech_nonneg T HT); assumption.
      * apply c01_invq_nonneg.
    + (* production *)
      intros f Hf. unfold NN in Hf. cbn [P nR nS init_params] in Hf.
      cbn [eco init_sim prod init_eco]. apply (c01_X0_nonneg T C HT HC). exact Hf.
    + (* demand: every column, also beyond the width of the matrix *)
      intros f j Hf. unfold NN in Hf. cbn [P nR nS init_params] in Hf.
      cbn [eco init_sim dem init_eco].
      destruct (lt_dec j (t_nR T * t_nS T + t_nR T * t_nC T)) as [Lj|Lj].
      * apply (c01_dem0_nonneg T C HT HC); assumption.
      * unfold i_dem0, get, tab2. rewrite nth_tab by exact Hf.
        rewrite nth_overflow by (rewrite tab_length; lia). apply Qcle_refl.
    + (* delta *)
      intros f Hf. unfold NN in Hf. cbn [P nR nS init_params] in Hf.
      cbn [eco init_sim delta init_eco]. rewrite c01_getv_zeros by exact Hf.
      split; [apply Qcle_refl|apply c20_le_0_1].
    + exact Hok.
    + cbn [eco init_sim nE init_eco trs]. apply c20i_fresh_ids. exact Hfr.
Qed.
Print Assumptions c20_wf_init.

(* ================================================================== *)
(* the whole chain                                                      *)

(* No [mat_nonneg] hypothesis on the table is needed: [create] only reads the flows
   inside the table, where [valid_table] gives the sign - [C20_wf_create_all_in]. *)
Lemma c20_accepted_run : C20_accepted_run.
Proof.
  intros T C dtn pr mu evs trs0 k s' os HT HC Hdt HnS Hmu Hevs Hc e Hrun.
  destruct (c20_wf_create_all_in (t_nR T) (t_nS T) (t_nC T) (t_Z T) (t_Y T) mu evs trs0 Hmu
              (vt_Z _ HT) (vt_Y _ HT) Hevs Hc) as [_ [Hok Hfr]].
  destruct (c20_wf_init T C dtn pr trs0 HT HC Hdt HnS Hok Hfr) as [HP HW].
  exact (c20_wf_run e k (init_sim T C trs0) s' os HP HW Hrun).
Qed.
Print Assumptions c20_accepted_run.
