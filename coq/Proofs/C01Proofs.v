(* Proofs/C01Proofs.v - C01: an economy without events stays at its initial equilibrium. *)
Require Import Boario.Base.QcLib Boario.Base.Vec Boario.Model.Econ Boario.Model.Init Boario.Model.Events Boario.Model.Sim Boario.Model.RecoveryFns Boario.Model.InitSim Boario.Spec.StatementsRun.
Require Import Boario.Proofs.C01Aux.
Open Scope Qc_scope.

(* ---- C01_zdist ---- *)
Lemma c01_zdist : C01_zdist.
Proof.
  intros T C Hdt Hyr i j Hi Hj P0 c. exact (c01_zdist_gen T C Hdt Hyr i j Hi Hj).
Qed.
Print Assumptions c01_zdist.

Section Step.
Variable T : table.
Variable C : config.
Hypothesis HT : valid_table T.
Hypothesis HC : valid_cfg T C.
Variable dtn : nat.
Variable pr : Z.

Local Notation nr := (t_nR T).
Local Notation ns := (t_nS T).
Local Notation N := (t_nR T * t_nS T)%nat.
Local Notation F := (t_nR T * t_nC T)%nat.
Local Notation P0 := (init_params T C).
Local Notation X0v := (i_X0 T C).
Local Notation Z0m := (i_Z0 T C).
Local Notation Y0m := (i_Y0 T C).
Local Notation dem0 := (i_dem0 T C).
Local Notation stock0 := (i_stock0 T C).
Local Notation alpha0 := (i_alpha0 T C).
Local Notation e := {| P := init_params T C; dt := dtn; prec := pr |}.

Lemma c01_dtot : dtot_of e 0 dem0 = X0v.
Proof.
  unfold dtot_of. cbv zeta. cbn [P]. rewrite c01_WW0.
  apply (c01_vec_eq N X0v _ _ eq_refl). intros f Hf. apply c01_rowtot; assumption.
Qed.

Lemma c01_sub_rebuild : sub_rebuild e 0 dem0 dem0 = dem0.
Proof.
  unfold sub_rebuild. cbv zeta. cbn [P]. rewrite c01_WW0.
  apply (c01_mat_eq N (N + F) dem0 _ _ eq_refl). intros f j Hf Hj.
  change (NN P0 + FF P0)%nat with (N + F)%nat.
  destruct (Nat.ltb_spec j (N + F)); [reflexivity|lia].
Qed.

Lemma c01_set_orders : set_orders e 0 dem0 Z0m = dem0.
Proof.
  unfold set_orders. cbv zeta. cbn [P]. rewrite c01_WW0.
  apply (c01_mat_eq N (N + F) dem0 _ _ eq_refl). intros f j Hf Hj.
  change (NN P0) with N.
  destruct (Nat.ltb_spec j N); [|reflexivity]. symmetry. apply c01_dem0_Z; assumption.
Qed.

(* step 1 : the events phase does nothing *)
Lemma c01_capital_ok : capital_exceeded P0 (zeros N) = false.
Proof.
  unfold capital_exceeded. apply anyn_false. intros f Hf. change (NN P0) with N in Hf.
  apply c01_qcltb_false. rewrite c01_getv_zeros by exact Hf. apply c01_K_nonneg; assumption.
Qed.

Lemma c01_delta0 : delta_of P0 (zeros N) (zeros N) = zeros N.
Proof.
  unfold delta_of. unfold zeros at 3. apply tab_ext. intros f Hf. cbv zeta.
  rewrite c01_getv_zeros by exact Hf.
  destruct (Qceqb (getv (K P0) f) 0); [apply c01_qmax00|].
  replace (0 / getv (K P0) f) with 0 by (unfold Qcdiv; ring). apply c01_qmax00.
Qed.

Lemma c01_events t :
  events_phase e {| eco := init_eco T C; trs := []; now := t |}
  = Some ({| eco := init_eco T C; trs := []; now := t |}, false).
Proof.
  unfold events_phase. cbv zeta. cbn [trs map eco now start P].
  rewrite c01_klost_nil, c01_arb_nil.
  change (NN P0) with N. rewrite c01_capital_ok, c01_delta0.
  rewrite Nat.eqb_refl. cbn [negb]. unfold dem_events. cbv zeta.
  reflexivity.
Qed.

Lemma c01_step_sec t :
  exists o, step e {| eco := init_eco T C; trs := []; now := t |}
            = (Ok {| eco := init_eco T C; trs := []; now := (t + dtn)%nat |}, Some o)
            /\ eq_obs T C o.
Proof.
  unfold step. rewrite c01_events. cbv beta iota zeta.
  cbn [eco now trs P dt prec].
  change (alpha (init_eco T C)) with alpha0.
  change (stock (init_eco T C)) with stock0.
  change (dem (init_eco T C)) with dem0.
  change (nE (init_eco T C)) with 0%nat.
  change (prod (init_eco T C)) with X0v.
  change (delta (init_eco T C)) with (zeros N).
  change (klost (init_eco T C)) with (zeros N).
  change (unmetv (init_eco T C)) with (zeros N).
  change (rprod (init_eco T C)) with (tab N (fun _ : nat => @nil Qc)).
  rewrite c01_dtot.
  assert (Ha1 : (if Nat.ltb 1 t then overprod P0 alpha0 X0v X0v else alpha0) = alpha0).
  { destruct (Nat.ltb 1 t); [apply c01_overprod; assumption|reflexivity]. }
  rewrite Ha1. clear Ha1.
  rewrite c01_cap by assumption. rewrite c01_cap_negative by assumption.
  rewrite c01_opt by assumption. rewrite c01_production by assumption.
  rewrite c01_deliver by assumption. rewrite c01_stock_add by assumption.
  rewrite c01_distribute_crash by assumption. rewrite c01_stock_update_refl.
  rewrite c01_unmet. rewrite c01_rebuild_prod. rewrite c01_sub_rebuild.
  cbn [existsb].
  change (rebuild_ledgers P0 pr 0 (tab N (fun _ : nat => [])) []) with (@nil tracker).
  change (count_rebuilding []) with 0%nat.
  cbn [Nat.sub Nat.eqb].
  change (recover_ledgers pr t []) with (@nil tracker).
  rewrite c01_dtot. rewrite c01_opt by assumption. rewrite c01_orders by assumption.
  rewrite c01_orders_nonneg by assumption. rewrite c01_set_orders.
  cbn [o_stocks o_alpha o_rebdem o_fd o_io].
  eexists. split; [reflexivity|].
  unfold eq_obs. cbv zeta.
  cbn [o_stocks o_alpha o_rebdem o_fd o_io o_prod o_cap o_klost o_unmet o_rprod].
  rewrite c01_W_rest. change (NN P0) with N. change (FF P0) with F.
  split; [reflexivity|]. split; [reflexivity|]. split; [reflexivity|].
  split; [reflexivity|]. split; [reflexivity|]. split; [reflexivity|].
  split; [reflexivity|].
  split; [|split].
  - intros f Hf. rewrite getv_tab by exact Hf. unfold blocksum.
    apply sumn_ext. intros j Hj. cbn [Nat.add]. apply c01_dem0_Z; assumption.
  - intros f Hf. rewrite getv_tab by exact Hf. unfold blocksum.
    apply sumn_ext. intros c Hc. apply c01_dem0_Y; assumption.
  - intros f Hf. apply c01_capv_get. exact Hf.
Qed.

End Step.

(* ---- C01_step ---- *)
Lemma c01_step : C01_step.
Proof.
  intros T C dtn pr t HT HC Hd e. exact (c01_step_sec T C HT HC dtn pr t).
Qed.
Print Assumptions c01_step.

(* ---- C01_run ---- *)
Lemma c01_run_from (T : table) (C : config) (dtn : nat) (pr : Z) :
  valid_table T -> valid_cfg T C ->
  forall k t, exists os,
    run {| P := init_params T C; dt := dtn; prec := pr |} k
        {| eco := init_eco T C; trs := []; now := t |}
    = (Ok {| eco := init_eco T C; trs := []; now := (t + k * dtn)%nat |}, os)
    /\ length os = k /\ Forall (eq_obs T C) os.
Proof.
  intros HT HC k. induction k as [|k IH]; intro t.
  - exists []. cbn [run]. replace (t + 0 * dtn)%nat with t by lia.
    split; [reflexivity|]. split; [reflexivity|constructor].
  - destruct (c01_step_sec T C HT HC dtn pr t) as [o [Hs Ho]].
    destruct (IH (t + dtn)%nat) as [os [Hr [Hl Hf]]].
    exists (o :: os). cbn [run]. rewrite Hs. cbv beta iota. rewrite Hr.
    replace (t + S k * dtn)%nat with (t + dtn + k * dtn)%nat by lia.
    split; [reflexivity|]. split; [cbn [length]; rewrite Hl; reflexivity|].
    constructor; assumption.
Qed.

Lemma c01_run : C01_run.
Proof.
  intros T C dtn pr k HT HC Hd e.
  destruct (c01_run_from T C dtn pr HT HC k 0%nat) as [os H].
  exists os. exact H.
Qed.
Print Assumptions c01_run.
