(* Proofs/C11CarryProofs.v - when events finish, a surviving event finds under its new id
   the demand block it had under its old id (statements of Spec/StatementsCarry.v). *)
Require Import Boario.Base.QcLib Boario.Base.Vec Boario.Model.Econ Boario.Model.Events Boario.Model.Sim
  Boario.Spec.StatementsEv Boario.Spec.StatementsCarry Boario.Proofs.C11Proofs.
From Coq Require Import List Permutation Arith Lia.
Import ListNotations.
Open Scope nat_scope.

(* ================================================================== *)
(* list facts                                                          *)

Lemma c11c_nodup_app_l (A : Type) (l l' : list A) : NoDup (l ++ l') -> NoDup l.
Proof.
  induction l as [|a l IH]; intro H; [constructor|].
  cbn [app] in H. inversion H as [|x y Hx Hy]; subst. constructor.
  - intro Hin. apply Hx. apply in_or_app. left. exact Hin.
  - apply IH. exact Hy.
Qed.

Lemma c11c_perm_filter_len (f : nat -> bool) l l' :
  Permutation l l' -> length (filter f l) = length (filter f l').
Proof.
  induction 1 as [|x l l' HP IH|x y l|l l' l'' H1 IH1 H2 IH2]; cbn [filter].
  - reflexivity.
  - destruct (f x); cbn [length]; congruence.
  - destruct (f x), (f y); reflexivity.
  - congruence.
Qed.

Lemma c11c_filter_lt_seq k E :
  length (filter (fun x => Nat.ltb x k) (seq 0 E)) = Nat.min k E.
Proof.
  induction E as [|E IH]; [rewrite Nat.min_0_r; reflexivity|].
  rewrite seq_S, filter_app, app_length, IH. cbn [plus filter].
  destruct (Nat.ltb E k) eqn:HE.
  - apply Nat.ltb_lt in HE. cbn [length]. lia.
  - apply Nat.ltb_ge in HE. cbn [length]. lia.
Qed.

(* a permutation of 0..E-1 split in two: the counts below k add up to k *)
Lemma c11c_below_sum S R E k :
  Permutation (S ++ R) (seq 0 E) -> k <= E -> c11_below S k + c11_below R k = k.
Proof.
  intros HP Hk. unfold c11_below.
  rewrite <- app_length, <- filter_app, (c11c_perm_filter_len _ _ _ HP), c11c_filter_lt_seq. lia.
Qed.

(* filtering an initial segment by membership in a duplicate-free list counts its small elements *)
Lemma c11c_filter_mem_len (p : nat -> bool) S k :
  NoDup S -> (forall i, p i = true <-> In i S) ->
  length (filter p (seq 0 k)) = c11_below S k.
Proof.
  intros HN Hp. unfold c11_below. apply Permutation_length, NoDup_Permutation.
  - apply NoDup_filter, seq_NoDup.
  - apply NoDup_filter. exact HN.
  - intro x. rewrite !filter_In, in_seq, Hp, Nat.ltb_lt. split; intros [H1 H2]; split; auto; lia.
Qed.

(* position of a kept element in an ascending filtered segment *)
Lemma c11c_filter_seq_nth (p : nat -> bool) k m :
  p k = true ->
  length (filter p (seq 0 k)) < length (filter p (seq 0 (k + S m))) /\
  nth (length (filter p (seq 0 k))) (filter p (seq 0 (k + S m))) 0 = k.
Proof.
  intro Hk. rewrite seq_app, filter_app. cbn [seq plus filter]. rewrite Hk. split.
  - rewrite app_length. cbn [length]. lia.
  - rewrite app_nth2 by lia. rewrite Nat.sub_diag. reflexivity.
Qed.

(* ================================================================== *)
(* trackers and ids                                                    *)

Lemma c11c_holds_id_in l i : holds_id l i = true <-> In i (reb_ids l).
Proof.
  unfold holds_id. induction l as [|tr l IH].
  - cbn. split; [discriminate|intros []].
  - cbn [existsb]. rewrite c11_reb_ids_cons, Bool.orb_true_iff, in_app_iff, IH.
    apply or_iff_compat_r. unfold c11_ids1.
    destruct (is_rebuilding tr); cbn [andb].
    + destruct (rid tr) as [k|]; cbn [c11_ol].
      * rewrite Nat.eqb_eq. cbn [In]. split; [intro H; left; exact H|intros [H|[]]; exact H].
      * cbn [In]. split; [discriminate|intros []].
    + cbn [In]. split; [discriminate|intros []].
Qed.

Lemma c11c_in_reb_ids l tr k :
  In tr l -> is_rebuilding tr = true -> rid tr = Some k -> In k (reb_ids l).
Proof.
  intros Hin Hr Hk. induction l as [|a l IH]; [destruct Hin|].
  rewrite c11_reb_ids_cons. apply in_or_app. destruct Hin as [->|Hin].
  - left. unfold c11_ids1. rewrite Hr, Hk. left. reflexivity.
  - right. apply IH. exact Hin.
Qed.

(* ================================================================== *)
(* C11_carry_ids                                                       *)

Lemma c11_carry_ids : C11_carry_ids.
Proof.
  intros P prec E rp l Hok l1 tr k Hin Hreb Hrid.
  destruct Hok as [HP HF]. subst l1.
  change (rebuild_ledgers P prec E rp l) with (map (c11_g P prec E rp) l) in *.
  set (g := c11_g P prec E rp) in *.
  assert (Grid : forall x, rid (g x) = rid x) by (intro; apply c11_g_rid).
  assert (Greb : forall x, is_rebuilding (g x) = true -> is_rebuilding x = true)
    by (intro; apply c11_g_reb).
  pose proof (c11_split_ids g Grid Greb l) as Hsplit.
  assert (HSR : Permutation (reb_ids (map g l) ++ c11_removed g l) (seq 0 E)).
  { eapply Permutation_trans; [apply Permutation_sym; exact Hsplit|exact HP]. }
  rewrite (c11_removed_below g l k).
  set (S := reb_ids (map g l)) in *. set (R := c11_removed g l) in *.
  assert (HkS : In k S) by (apply (c11c_in_reb_ids _ tr); assumption).
  assert (HSE : forall x, In x S -> x < E).
  { intros x Hx. assert (Hx' : In x (seq 0 E)).
    { eapply Permutation_in; [exact HSR|]. apply in_or_app. left. exact Hx. }
    apply in_seq in Hx'. lia. }
  assert (HkE : k < E) by (apply HSE; exact HkS).
  assert (HND : NoDup S).
  { apply (c11c_nodup_app_l _ S R). eapply Permutation_NoDup; [apply Permutation_sym; exact HSR|].
    apply seq_NoDup. }
  assert (Hp : forall i, holds_id (map g l) i = true <-> In i S)
    by (intro; apply c11c_holds_id_in).
  assert (Hsum : c11_below S k + c11_below R k = k)
    by (apply (c11c_below_sum S R E k HSR); lia).
  assert (Hlen : length (filter (holds_id (map g l)) (seq 0 k)) = c11_below S k)
    by (apply c11c_filter_mem_len; assumption).
  assert (Hpos : k - c11_below R k = length (filter (holds_id (map g l)) (seq 0 k)))
    by (rewrite Hlen; lia).
  rewrite Hpos. unfold kept_ids.
  assert (Hpk : holds_id (map g l) k = true) by (apply Hp; exact HkS).
  pose proof (c11c_filter_seq_nth (holds_id (map g l)) k (E - Datatypes.S k) Hpk) as Hnth.
  replace (k + Datatypes.S (E - Datatypes.S k)) with E in Hnth by lia.
  destruct Hnth as [Hn1 Hn2].
  split; [exact HkE|]. split; [exact Hn1|]. split; [exact Hn2|].
  rewrite (c11_count_ids (map g l)) by (apply (c11_okw_map g Grid Greb); exact HF).
  fold S. rewrite (c11c_filter_mem_len _ S E HND Hp).
  apply c11_below_all. exact HSE.
Qed.
Print Assumptions c11_carry_ids.

(* ================================================================== *)
(* C11_carry_blocks                                                    *)

Lemma c11_carry_blocks : C11_carry_blocks.
Proof.
  intros P E E' kept d f k' j Hk HE N F. subst N F.
  split; intro Hj; unfold moved_cell.
  - assert (Hlt : Nat.ltb (NN P * k' + j) (NN P * E') = true) by (apply Nat.ltb_lt; nia).
    rewrite Hlt.
    rewrite <- (Nat.div_unique (NN P * k' + j) (NN P) k' j Hj eq_refl).
    rewrite <- (Nat.mod_unique (NN P * k' + j) (NN P) k' j Hj eq_refl).
    reflexivity.
  - assert (Hge : Nat.ltb (NN P * E' + FF P * k' + j) (NN P * E') = false)
      by (apply Nat.ltb_ge; lia).
    rewrite Hge.
    replace (NN P * E' + FF P * k' + j - NN P * E') with (FF P * k' + j) by lia.
    rewrite <- (Nat.div_unique (FF P * k' + j) (FF P) k' j Hj eq_refl).
    rewrite <- (Nat.mod_unique (FF P * k' + j) (FF P) k' j Hj eq_refl).
    reflexivity.
Qed.
Print Assumptions c11_carry_blocks.
