(* Proofs/C03Proofs.v - C03: realised production is feasible and maximal. *)
Require Import Boario.Base.QcLib Boario.Base.Vec Boario.Model.Econ Boario.Model.EconBase Boario.Spec.Statements.
Open Scope Qc_scope.

(* ---- small order facts ---- *)
Lemma c03_div_ge_1 c s : 0 < c -> c <= s -> 1 <= s / c.
Proof.
  intros Hc Hcs. unfold Qcdiv.
  assert (Hi : 0 < / c) by (apply Qc_inv_pos; exact Hc).
  assert (E : c * / c = 1) by (apply Qcmult_inv_r, Qc_pos_neq0; exact Hc).
  set (i := / c) in *. clearbody i. qc2q. nra.
Qed.

Lemma c03_mul_le_l a b c : 0 <= a -> b <= c -> a * b <= a * c.
Proof. intros Ha Hbc. qc2q. nra. Qed.

Lemma c03_mul_1_le a b : 0 <= a -> 1 <= b -> a <= a * b.
Proof. intros Ha Hb. qc2q. nra. Qed.

Lemma c03_mul_1_r a : a * 1 = a.
Proof. ring. Qed.

Lemma c03_nonneg_neq_pos c : 0 <= c -> c <> 0 -> 0 < c.
Proof.
  intros Hc Hn. destruct (Qcle_lt_or_eq _ _ Hc) as [H|H]; [exact H|].
  exfalso. apply Hn. symmetry. exact H.
Qed.

(* ---- unfolding facts about the model ---- *)
Lemma c03_opt_get P dtot capv f :
  (f < NN P)%nat -> getv (opt P dtot capv) f = qmin (getv dtot f) (getv capv f).
Proof. intro Hf. unfold opt. apply getv_tab. exact Hf. Qed.

Lemma c03_cons_get P xv p f :
  (p < nS P)%nat -> (f < NN P)%nat ->
  get (constraints P xv) p f = getv xv f * get (tech P) p f * psi P * invq P p.
Proof. intros Hp Hf. unfold constraints. apply get_tab2; assumption. Qed.

Lemma c03_ratio_cases P stock cons p f :
  ratio P stock cons p f = 1 \/
  (getb (mask P) p f = true /\ isinf P p = false /\ get cons p f <> 0 /\
   ratio P stock cons p f = qmin 1 (get stock p f / get cons p f)).
Proof.
  unfold ratio.
  destruct (getb (mask P) p f); [|left; reflexivity].
  destruct (isinf P p); [left; reflexivity|].
  destruct (Qceqb_spec (get cons p f) 0) as [E0|N0]; [left; reflexivity|].
  right. cbn [andb negb]. repeat split; auto.
Qed.

Lemma c03_ratio_eligible P stock cons p f :
  getb (mask P) p f = true -> isinf P p = false -> get cons p f <> 0 ->
  ratio P stock cons p f = qmin 1 (get stock p f / get cons p f).
Proof.
  intros Hm Hi Hn. unfold ratio. rewrite Hm, Hi.
  destruct (Qceqb_spec (get cons p f) 0) as [E0|N0]; [contradiction|reflexivity].
Qed.

Lemma c03_production_unfold P stock optv :
  production P stock optv =
  if any_short P stock (constraints P optv)
  then tab (NN P) (fun f => prod_min P stock (constraints P optv) optv f)
  else optv.
Proof. reflexivity. Qed.

Lemma c03_prod_min_unfold P stock cons optv f :
  prod_min P stock cons optv f =
  minn (nS P) (fun p => getv optv f * ratio P stock cons p f) (getv optv f).
Proof. reflexivity. Qed.

Lemma c03_no_short P stock cons p f :
  any_short P stock cons = false -> (p < nS P)%nat -> (f < NN P)%nat ->
  getb (mask P) p f = true -> isinf P p = false -> get cons p f <= get stock p f.
Proof.
  intros Hs Hp Hf Hm Hi. unfold any_short in Hs. cbv zeta in Hs.
  rewrite anyn_false in Hs. specialize (Hs p Hp). cbv beta in Hs.
  rewrite anyn_false in Hs. specialize (Hs f Hf). cbv beta in Hs.
  unfold short_cell in Hs. rewrite Hm, Hi in Hs. cbn [andb negb] in Hs.
  destruct (Qcltb_spec (get stock p f) (get cons p f)) as [Hlt|Hnlt]; [discriminate|].
  apply Qcnot_lt_le. exact Hnlt.
Qed.

(* ---- the theorem ---- *)
Lemma c03 : C03_statement.
Proof.
  unfold C03_statement.
  intros P stock dtot capv Htech Hpsi Hinv Hstock Hd Hc. cbv zeta. intros f Hf.
  set (optv := opt P dtot capv).
  set (cons := constraints P optv).
  set (x := production P stock optv).
  assert (Eopt : getv optv f = qmin (getv dtot f) (getv capv f))
    by (apply c03_opt_get; exact Hf).
  assert (Hopt0 : 0 <= getv optv f).
  { rewrite Eopt. apply qmin_glb; [apply Hd|apply Hc]; exact Hf. }
  assert (Hoptd : getv optv f <= getv dtot f) by (rewrite Eopt; apply qmin_l).
  assert (Hoptc : getv optv f <= getv capv f) by (rewrite Eopt; apply qmin_r).
  assert (Hoptcases : getv optv f = getv dtot f \/ getv optv f = getv capv f)
    by (rewrite Eopt; apply qmin_cases).
  assert (Hcons0 : forall p, (p < nS P)%nat -> 0 <= get cons p f).
  { intros p Hp. unfold cons. rewrite c03_cons_get by assumption.
    apply Qc_mul_nonneg; [apply Qc_mul_nonneg; [apply Qc_mul_nonneg|]|].
    - exact Hopt0.
    - apply Htech; assumption.
    - exact Hpsi.
    - apply Hinv. }
  assert (Hconspos : forall p, (p < nS P)%nat -> get cons p f <> 0 -> 0 < get cons p f).
  { intros p Hp Hn. apply c03_nonneg_neq_pos; [apply Hcons0; exact Hp|exact Hn]. }
  assert (Ex : x = if any_short P stock cons
                   then tab (NN P) (fun f0 => prod_min P stock cons optv f0)
                   else optv) by (apply c03_production_unfold).
  clearbody x.
  destruct (any_short P stock cons) eqn:Eshort.
  - (* some cell is short: x_f is the minimum over inputs *)
    assert (Exf : getv x f =
                  minn (nS P) (fun p => getv optv f * ratio P stock cons p f) (getv optv f)).
    { rewrite Ex. rewrite getv_tab by exact Hf. apply c03_prod_min_unfold. }
    assert (Hxopt : getv x f <= getv optv f) by (rewrite Exf; apply minn_le_d).
    assert (Hr0 : forall p, (p < nS P)%nat -> 0 <= ratio P stock cons p f).
    { intros p Hp.
      destruct (c03_ratio_cases P stock cons p f) as [E1|[Hm [Hi [Hn Eq]]]].
      - rewrite E1. unfold Qcle. cbn. discriminate.
      - rewrite Eq. apply qmin_glb.
        + unfold Qcle. cbn. discriminate.
        + apply Qc_div_nonneg; [apply Hstock; assumption|apply Hcons0; exact Hp]. }
    split; [|split; [|split; [|split]]].
    + rewrite Exf. apply minn_glb; [exact Hopt0|].
      intros p Hp. apply Qc_mul_nonneg; [exact Hopt0|apply Hr0; exact Hp].
    + eapply Qcle_trans; [exact Hxopt|exact Hoptd].
    + eapply Qcle_trans; [exact Hxopt|exact Hoptc].
    + intros p Hp Hm Hi Hn.
      eapply Qcle_trans.
      * rewrite Exf. apply (minn_le (nS P) (fun p0 => getv optv f * ratio P stock cons p0 f)).
        exact Hp.
      * cbv beta. rewrite (c03_ratio_eligible P stock cons p f Hm Hi Hn).
        apply c03_mul_le_l; [exact Hopt0|apply qmin_r].
    + destruct (minn_attained (nS P) (fun p => getv optv f * ratio P stock cons p f)
                              (getv optv f)) as [Ed|[p [Hp Ep]]].
      * rewrite <- Exf in Ed. rewrite Ed.
        destruct Hoptcases as [Hc1|Hc2]; [left; exact Hc1|right; left; exact Hc2].
      * rewrite <- Exf in Ep. cbv beta in Ep.
        destruct (c03_ratio_cases P stock cons p f) as [E1|[Hm [Hi [Hn Eq]]]].
        -- rewrite E1, c03_mul_1_r in Ep. rewrite Ep.
           destruct Hoptcases as [Hc1|Hc2]; [left; exact Hc1|right; left; exact Hc2].
        -- destruct (qmin_cases 1 (get stock p f / get cons p f)) as [Q1|Q2].
           ++ rewrite Eq, Q1, c03_mul_1_r in Ep. rewrite Ep.
              destruct Hoptcases as [Hc1|Hc2]; [left; exact Hc1|right; left; exact Hc2].
           ++ right. right. exists p. rewrite Eq, Q2 in Ep.
              repeat split; assumption.
  - (* no cell is short: x = optv *)
    subst x.
    split; [exact Hopt0|]. split; [exact Hoptd|]. split; [exact Hoptc|]. split.
    + intros p Hp Hm Hi Hn.
      apply c03_mul_1_le; [exact Hopt0|].
      apply c03_div_ge_1; [apply Hconspos; assumption|].
      apply (c03_no_short P stock cons p f Eshort Hp Hf Hm Hi).
    + destruct Hoptcases as [Hc1|Hc2]; [left; exact Hc1|right; left; exact Hc2].
Qed.

Print Assumptions c03.
