(* Proofs/C10SessionProofs.v - C10: sessions (steps interleaved with registrations) and
   the commutation of a step with the registration of events that are still to come. *)
Require Import Boario.Base.QcLib Boario.Base.Vec Boario.Model.Econ Boario.Model.Events
  Boario.Model.Sim Boario.Model.Tracker Boario.Model.RecoveryFns Boario.Spec.StatementsEv
  Boario.Proofs.C10Proofs.
From Coq Require Import Lia.
Open Scope nat_scope.

(* ================================================================== *)
(* C10_session                                                          *)

Lemma c10_F2_firstn_app (l new l' : list tracker) :
  Forall2 c10_le (l ++ new) (firstn (length (l ++ new)) l') ->
  Forall2 c10_le l (firstn (length l) l').
Proof.
  revert l'. induction l as [|a l IH]; intros l' H.
  - cbn [length firstn]. constructor.
  - cbn [app length firstn] in *. destruct l' as [|b l'].
    + inversion H.
    + inversion H as [|a0 b0 la lb Hab Hrest]; subst. constructor; [exact Hab|].
      apply IH. exact Hrest.
Qed.

Lemma c10_F2_length (l l' : list tracker) : Forall2 c10_le l l' -> length l = length l'.
Proof. intro H. induction H as [|a b l l' _ _ IH]; [reflexivity|]. cbn [length]. rewrite IH. reflexivity. Qed.

Lemma c10_session : C10_session.
Proof.
  intros e ops. induction ops as [|o r IH]; intros s s' H.
  - cbn [session] in H. injection H as H. subst s'. split; [apply Nat.le_refl|].
    rewrite firstn_all. apply c10_F2_refl.
  - destruct o as [|new]; cbn [session] in H.
    + destruct (step e s) as [out ob] eqn:Hs. cbn [fst] in H.
      destruct out as [s0|s0|x s0]; [|discriminate H|discriminate H].
      pose proof (c10_step_monotone e s s0 ob Hs) as Hm. fold c10_le in Hm.
      destruct (IH s0 s' H) as [IHl IHf]. fold c10_le in IHf. fold c10_le.
      pose proof (c10_F2_length _ _ Hm) as Hlen.
      split; [rewrite Hlen; exact IHl|].
      rewrite Hlen. eapply c10_F2_trans; [exact Hm|exact IHf].
    + destruct (IH (register s new) s' H) as [IHl IHf]. fold c10_le in IHf. fold c10_le.
      cbn [register trs] in IHl, IHf. split.
      * rewrite app_length in IHl. lia.
      * apply (c10_F2_firstn_app _ new). exact IHf.
Qed.
Print Assumptions c10_session.

(* ================================================================== *)
(* C10_late_registration : append lemmas                                *)

(* trackers registered with no rebuilding id *)
Definition c10_noid (l : list tracker) : Prop := Forall (fun tr => rid tr = None) l.

(* generic facts about a suffix the function does not look at *)
Lemma c10_map_id {A} (g : A -> A) (l : list A) : Forall (fun x => g x = x) l -> map g l = l.
Proof. intro H. induction H as [|x l Hx H IH]; [reflexivity|]. cbn [map]. rewrite Hx, IH. reflexivity. Qed.

Lemma c10_existsb_false {A} (f : A -> bool) (l : list A) :
  Forall (fun x => f x = false) l -> existsb f l = false.
Proof. intro H. induction H as [|x l Hx H IH]; [reflexivity|]. cbn [existsb]. rewrite Hx, IH. reflexivity. Qed.

Lemma c10_filter_nil {A} (f : A -> bool) (l : list A) :
  Forall (fun x => f x = false) l -> filter f l = [].
Proof. intro H. induction H as [|x l Hx H IH]; [reflexivity|]. cbn [filter]. rewrite Hx. exact IH. Qed.

Lemma c10_existsb_app_inert {A} (f : A -> bool) (l new : list A) :
  Forall (fun x => f x = false) new -> existsb f (l ++ new) = existsb f l.
Proof. intro H. rewrite existsb_app, (c10_existsb_false f new H). apply Bool.orb_false_r. Qed.

Lemma c10_fold_right_inert {A B} (f : A -> B -> B) (z : B) (l new : list A) :
  Forall (fun x => forall acc, f x acc = acc) new -> fold_right f z (l ++ new) = fold_right f z l.
Proof.
  intro H. rewrite fold_right_app. f_equal.
  induction H as [|x n Hx H IH]; [reflexivity|]. cbn [fold_right]. rewrite Hx. exact IH.
Qed.

Lemma c10_fold_left_inert {A B} (f : B -> A -> B) (z : B) (l new : list A) :
  Forall (fun x => forall acc, f acc x = acc) new -> fold_left f (l ++ new) z = fold_left f l z.
Proof.
  intro H. rewrite fold_left_app. generalize (fold_left f l z). 
  induction H as [|x n Hx H IH]; intro acc; [reflexivity|]. cbn [fold_left]. rewrite Hx. apply IH.
Qed.

Lemma c10_combine_app {A B} (l : list A) (l' : list B) n n' :
  length l = length l' -> combine (l ++ n) (l' ++ n') = combine l l' ++ combine n n'.
Proof.
  revert l'. induction l as [|a l IH]; intros l' H; destruct l' as [|b l']; try discriminate H.
  - reflexivity.
  - cbn [app combine]. rewrite IH; [reflexivity|]. cbn [length] in H. injection H as H. exact H.
Qed.

Lemma c10_set_rid_none tr : rid tr = None -> set_rid tr None = tr.
Proof. intro H. destruct tr. cbn in H. subst. reflexivity. Qed.

(* ---- schedule ---- *)
Lemma c10_activate_app dt t l new : all_later t new ->
  map (activate dt t) (l ++ new) = map (activate dt t) l ++ new.
Proof. intro H. rewrite map_app, (c10_activate_later dt t new H). reflexivity. Qed.

Lemma c10_start_app t new : c10_allP new ->
  forall l n, start t (l ++ new) n = (fst (start t l n) ++ new, snd (start t l n)).
Proof.
  intros H l. induction l as [|a l IH]; intro n.
  - cbn [app start fst snd]. apply c10_start_allP. exact H.
  - cbn [app start].
    destruct (st a); [|destruct (Nat.leb _ _); [destruct (kind a)|]| | |];
      rewrite IH; destruct (start t l _) as [r' n']; reflexivity.
Qed.

(* ---- aggregation ---- *)
Lemma c10_klost_app N l new : c10_allP new -> klost_of N (l ++ new) = klost_of N l.
Proof.
  intro H. unfold klost_of. apply tab_ext. intros f _.
  apply c10_fold_right_inert. eapply Forall_impl; [|exact H].
  intros x Hx acc. cbv beta. unfold active_capital. rewrite Hx. reflexivity.
Qed.

Lemma c10_arb_app N l new : c10_allP new -> arb_of N (l ++ new) = arb_of N l.
Proof.
  intro H. unfold arb_of. apply tab_ext. intros f _.
  apply c10_fold_right_inert. eapply Forall_impl; [|exact H].
  intros x Hx acc. cbv beta. unfold active_arb. rewrite Hx. reflexivity.
Qed.

(* ---- demand blocks ---- *)
Lemma c10_any_rebuilding_app l new : c10_allP new -> any_rebuilding (l ++ new) = any_rebuilding l.
Proof.
  intro H. unfold any_rebuilding. apply c10_existsb_app_inert. eapply Forall_impl; [|exact H].
  intros x Hx. cbv beta. rewrite Hx. reflexivity.
Qed.

Lemma c10_reb_cell_app P dtq E l new f j : c10_noid new ->
  reb_cell P dtq E (l ++ new) f j = reb_cell P dtq E l f j.
Proof.
  intro H. unfold reb_cell. cbv zeta. apply c10_fold_left_inert. eapply Forall_impl; [|exact H].
  intros x Hx acc. cbv beta. rewrite Hx. reflexivity.
Qed.

Lemma c10_dem_events_app P dtq r E l new d : c10_allP new -> c10_noid new ->
  dem_events P dtq r E (l ++ new) d = dem_events P dtq r E l d.
Proof.
  intros HP HN. unfold dem_events. cbv zeta. rewrite (c10_any_rebuilding_app l new HP).
  destruct (any_rebuilding l); [|reflexivity].
  apply tab2_ext. intros i j _ _. destruct (Nat.ltb j (NN P + FF P)); [reflexivity|].
  apply c10_reb_cell_app. exact HN.
Qed.

(* ---- ledgers ---- *)
Lemma c10_noid_check_app l new : c10_allP new ->
  existsb (fun tr => is_rebuilding tr && match rid tr with None => true | Some _ => false end) (l ++ new)
  = existsb (fun tr => is_rebuilding tr && match rid tr with None => true | Some _ => false end) l.
Proof.
  intro H. apply c10_existsb_app_inert. eapply Forall_impl; [|exact H].
  intros x Hx. cbv beta. unfold is_rebuilding. rewrite Hx. reflexivity.
Qed.

Lemma c10_rebuild_app P prec E rp l new : c10_allP new ->
  rebuild_ledgers P prec E rp (l ++ new) = rebuild_ledgers P prec E rp l ++ new.
Proof.
  intro H. unfold rebuild_ledgers. rewrite map_app. f_equal. apply c10_map_id.
  eapply Forall_impl; [|exact H]. intros x Hx. cbv beta. unfold is_rebuilding. rewrite Hx. reflexivity.
Qed.

Lemma c10_recover_app prec t l new : c10_allP new ->
  recover_ledgers prec t (l ++ new) = recover_ledgers prec t l ++ new.
Proof.
  intro H. unfold recover_ledgers. rewrite map_app. f_equal. apply c10_map_id.
  eapply Forall_impl; [|exact H]. intros x Hx. cbv beta. rewrite Hx. reflexivity.
Qed.

Lemma c10_count_app l new : c10_allP new -> count_rebuilding (l ++ new) = count_rebuilding l.
Proof.
  intro H. unfold count_rebuilding. rewrite filter_app, app_length.
  rewrite (c10_filter_nil is_rebuilding new); [cbn [length]; lia|].
  eapply Forall_impl; [|exact H]. intros x Hx. unfold is_rebuilding. rewrite Hx. reflexivity.
Qed.

Lemma c10_removed_below_app l l' new id : c10_allP new -> length l = length l' ->
  removed_below (l ++ new) (l' ++ new) id = removed_below l l' id.
Proof.
  intros H Hlen. unfold removed_below. rewrite (c10_combine_app l l' new new Hlen).
  rewrite filter_app, app_length.
  match goal with |- _ + length ?X = _ => assert (E : X = []) end.
  { clear Hlen. induction H as [|x n Hx H IH]; [reflexivity|].
    cbn [combine filter fst snd]. unfold is_rebuilding at 1 2. rewrite Hx. cbn [status_eqb].
    destruct (rid x) as [k|]; [rewrite Bool.andb_false_r; cbn [andb]|]; exact IH. }
  rewrite E. cbn [length]. lia.
Qed.

Lemma c10_compact_app l l' new : c10_allP new -> c10_noid new -> length l = length l' ->
  compact_ids (l ++ new) (l' ++ new) = compact_ids l l' ++ new.
Proof.
  intros HP HN Hlen. unfold compact_ids. rewrite map_app. f_equal.
  - apply map_ext. intro tr. destruct (is_rebuilding tr); [|reflexivity].
    destruct (rid tr) as [id|]; [|reflexivity].
    rewrite (c10_removed_below_app l l' new id HP Hlen). reflexivity.
  - apply c10_map_id. clear Hlen. generalize (removed_below (l ++ new) (l' ++ new)). intro rb.
    induction HP as [|x n Hx HP IH]; [constructor|].
    inversion HN as [|x0 n0 Hr HN']; subst. constructor; [|apply IH; exact HN'].
    unfold is_rebuilding. rewrite Hx. cbn [status_eqb]. apply c10_set_rid_none. exact Hr.
Qed.

Lemma c10_kept_ids_app E l new : c10_allP new -> kept_ids E (l ++ new) = kept_ids E l.
Proof.
  intro H. unfold kept_ids. apply filter_ext. intro i. unfold holds_id.
  apply c10_existsb_app_inert. eapply Forall_impl; [|exact H].
  intros x Hx. cbv beta. unfold is_rebuilding. rewrite Hx. reflexivity.
Qed.

(* ================================================================== *)
(* the events phase and the step commute with the registration          *)

Definition c10_reg_ev (new : list tracker) (r : option (sim * bool)) : option (sim * bool) :=
  match r with Some (s1, b) => Some (register s1 new, b) | None => None end.

Lemma c10_events_register e s new : all_later (now s) new -> c10_noid new ->
  events_phase e (register s new) = c10_reg_ev new (events_phase e s).
Proof.
  intros HL HN. pose proof (c10_later_allP _ _ HL) as HP.
  unfold events_phase. cbv zeta. cbn [register trs eco now].
  rewrite (c10_activate_app (dt e) (now s) (trs s) new HL).
  rewrite (c10_start_app (now s) new HP).
  destruct (start (now s) (map (activate (dt e) (now s)) (trs s)) (nE (eco s))) as [trs2 E2].
  cbn [fst snd].
  rewrite (c10_klost_app _ trs2 new HP), (c10_arb_app _ trs2 new HP).
  rewrite (c10_dem_events_app _ _ _ _ trs2 new _ HP HN).
  destruct (capital_exceeded _ _); reflexivity.
Qed.

Definition c10_reg_out (new : list tracker) (o : outcome) : outcome :=
  match o with
  | Ok s => Ok (register s new)
  | Crash s => Crash (register s new)
  | Error x s => Error x (register s new)
  end.

Lemma c10_step_register e s new : all_later (now s) new -> c10_noid new ->
  step e (register s new) = (c10_reg_out new (fst (step e s)), snd (step e s)).
Proof.
  intros HL HN. pose proof (c10_later_allP _ _ HL) as HP.
  unfold step. rewrite (c10_events_register e s new HL HN).
  destruct (events_phase e s) as [[s1 r]|]; cbn [c10_reg_ev]; [|reflexivity].
  cbv zeta. cbn [register trs eco now].
  rewrite (c10_noid_check_app (trs s1) new HP).
  rewrite (c10_rebuild_app _ _ _ _ (trs s1) new HP).
  rewrite !(c10_count_app _ new HP).
  rewrite (c10_kept_ids_app _ _ new HP).
  rewrite (c10_compact_app _ _ new HP HN)
    by (unfold rebuild_ledgers; rewrite map_length; reflexivity).
  destruct (cap_negative _ _); [reflexivity|].
  destruct (distribute_crash _ _ _ _); [reflexivity|].
  destruct (existsb _ (trs s1)); [reflexivity|].
  destruct (Nat.eqb _ 0); rewrite (c10_recover_app _ _ _ new HP);
    (destruct (any_negative _ _ _); reflexivity).
Qed.

(* ================================================================== *)
(* C10_late_registration, corrected: the registered trackers hold no rebuilding id *)

Lemma c10_late_registration : C10_late_registration.
Proof.
  intros e s new HL HN. pose proof (c10_step_register e s new HL HN) as H.
  split; [|split].
  - intros s' o Hs. rewrite H, Hs. reflexivity.
  - intros s' o Hs. rewrite H, Hs. reflexivity.
  - intros x s' o Hs. rewrite H, Hs. reflexivity.
Qed.
Print Assumptions c10_late_registration.

(* ================================================================== *)
(* the statement as written is false: a pending tracker holding an id    *)

Module C10Counter.
Definition P0 : params :=
  {| nR := 0; nS := 0; nC := 0; X0 := []; Z0 := []; Y0 := []; tech := []; invd := [];
     psi := 1%Qc; rho := []; alt := false; zdist := []; mask := [];
     a_base := 1%Qc; a_max := 1%Qc; a_rate := 0%Qc; K := [] |}.
Definition e0 : env := {| P := P0; dt := 1; prec := 0%Z |}.
Definition mk_tr (s : status) (o : nat) : tracker :=
  {| kind := KRebuild; occ := o; dur := 1; tau := 1%Qc; phi := 1%Qc; rf := fun _ v => v;
     dmg0 := None; hdmg0 := None; arb0 := None; st := s; rid := Some 0;
     dmg := None; hdmg := None; arb := None; rem_i := None; rem_h := None |}.
Definition ec0 : econ :=
  {| alpha := []; stock := []; dem := []; nE := 1; prod := []; delta := []; klost := [];
     unmetv := []; rprod := [] |}.
(* one rebuilding event that finishes during the step *)
Definition s0 : sim := {| eco := ec0; trs := [mk_tr Rebuilding 0]; now := 5 |}.
(* a pending event, later than [now s0], that (wrongly) holds the id 0 *)
Definition new0 : list tracker := [mk_tr Pending 9].
Definition out_sim (o : outcome) : sim :=
  match o with Ok s => s | Crash s => s | Error _ s => s end.
End C10Counter.

Lemma c10_late_registration_any_id_refuted : ~ C10_late_registration_any_id.
Proof.
  intro H.
  assert (HL : all_later (now C10Counter.s0) C10Counter.new0).
  { constructor; [|constructor]. split; [reflexivity|]. cbn. lia. }
  pose proof (H C10Counter.e0 C10Counter.s0 C10Counter.new0 HL) as Hok.
  assert (Hs : step C10Counter.e0 C10Counter.s0 =
               (Ok (C10Counter.out_sim (fst (step C10Counter.e0 C10Counter.s0))),
                snd (step C10Counter.e0 C10Counter.s0))).
  { vm_compute. reflexivity. }
  apply Hok in Hs.
  apply (f_equal (fun r => map rid (trs (C10Counter.out_sim (fst r))))) in Hs.
  vm_compute in Hs. discriminate Hs.
Qed.
Print Assumptions c10_late_registration_any_id_refuted.
