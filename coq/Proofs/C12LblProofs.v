(* Proofs/C12LblProofs.v - labelled selections of the scalar constructors (C12_labelled). *)
Require Import Boario.Base.QcLib Boario.Base.Vec Boario.Model.RecoveryFns Boario.Model.Ctor
  Boario.Spec.StatementsIO Boario.Proofs.C12Proofs.
From Coq Require Import Lia.
Open Scope Qc_scope.

Lemma c12l_filter_neq_in x y l :
  In y (filter (fun z => negb (Nat.eqb x z)) l) <-> In y l /\ x <> y.
Proof.
  rewrite filter_In. split; intros [H1 H2]; split; auto.
  - intros ->. rewrite Nat.eqb_refl in H2. discriminate.
  - destruct (Nat.eqb_spec x y) as [E|E]; [contradiction|reflexivity].
Qed.

Lemma c12l_dedup_in l : forall x, In x (dedup l) <-> In x l.
Proof.
  induction l as [|a l IH]; intros x; cbn [dedup]; [tauto|].
  cbn [In]. rewrite c12l_filter_neq_in, IH.
  destruct (Nat.eq_dec a x) as [E|E]; [subst; tauto|tauto].
Qed.

Lemma c12l_nodup_filter {A} (f : A -> bool) l : NoDup l -> NoDup (filter f l).
Proof.
  induction 1 as [|a l Hn Hd IH]; cbn [filter]; [constructor|].
  destruct (f a); [constructor; [rewrite filter_In; tauto|exact IH]|exact IH].
Qed.

Lemma c12l_dedup_nodup l : NoDup (dedup l).
Proof.
  induction l as [|a l IH]; cbn [dedup]; constructor.
  - rewrite c12l_filter_neq_in. intros [_ H]. apply H. reflexivity.
  - apply c12l_nodup_filter. exact IH.
Qed.

Lemma c12l_filter_all {A} (f : A -> bool) l : (forall x, In x l -> f x = true) -> filter f l = l.
Proof.
  induction l as [|a l IH]; intros H; cbn [filter]; [reflexivity|].
  rewrite (H a (or_introl eq_refl)). f_equal. apply IH. intros x Hx. apply H. right. exact Hx.
Qed.

Lemma c12l_dedup_id l : NoDup l -> dedup l = l.
Proof.
  induction 1 as [|a l Hn Hd IH]; cbn [dedup]; [reflexivity|].
  rewrite IH. f_equal. apply c12l_filter_all. intros x Hx.
  destruct (Nat.eqb_spec a x) as [E|E]; [subst; contradiction|reflexivity].
Qed.

Lemma c12l_weights_len w lbls l : weights_on w lbls = Some l -> length l = length lbls.
Proof. destruct w as [w|]; cbn; [intros [= <-]; apply map_length|discriminate]. Qed.

Lemma c12l_level_len n ws d : (forall l, ws = Some l -> length l = n) ->
  level_distrib n ws = COk d -> length d = n.
Proof.
  intros Hl. destruct ws as [l|]; cbn [level_distrib].
  - destruct (existsb is_none l); [discriminate|].
    destruct (Qceqb _ 0); [discriminate|]. intros [= <-].
    rewrite !map_length. apply Hl. reflexivity.
  - intros [= <-]. apply repeat_length.
Qed.

Lemma c12_labelled : C12_labelled.
Proof.
  split; [|split; [|split]].
  - intros l. split; [apply c12l_dedup_nodup|apply c12l_dedup_in].
  - apply c12l_dedup_id.
  - intros I aff w v H. cbn [scalar_labelled fst snd] in *.
    split; [reflexivity|].
    apply (c12_total I _ (weights_on w (dedup aff)) v); [|exact H].
    intros l Hl. apply (c12l_weights_len _ _ _ Hl).
  - intros I regs secs wr ws v H. cbn [regsec_labelled fst snd] in *.
    split; [reflexivity|].
    unfold distribute_regions_sectors in H.
    destruct (Nat.eqb (length (dedup regs)) 0 || Nat.eqb (length (dedup secs)) 0)%bool; [discriminate|].
    destruct (level_distrib (length (dedup regs)) (weights_on wr (dedup regs))) as [e|dr] eqn:Er; [discriminate|].
    destruct (level_distrib (length (dedup secs)) (weights_on ws (dedup secs))) as [e|ds] eqn:Es; [discriminate|].
    apply c12l_level_len in Er; [|intros l Hl; apply (c12l_weights_len _ _ _ Hl)].
    apply c12l_level_len in Es; [|intros l Hl; apply (c12l_weights_len _ _ _ Hl)].
    apply (c12_total I _ _ v) in H; [exact H|].
    intros l [= <-]. rewrite map_length, c12_outer_length, Er, Es. reflexivity.
Qed.
