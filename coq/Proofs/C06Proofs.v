(* Proofs/C06Proofs.v - C06: orders conserve needs across suppliers. *)
Require Import Boario.Base.QcLib Boario.Base.Vec Boario.Model.Econ Boario.Model.EconBase Boario.Spec.Statements.
Open Scope Qc_scope.

(* ---- index arithmetic ---- *)
Lemma c06_idx_lt P r p : (r < nR P)%nat -> (p < nS P)%nat -> (r * nS P + p < NN P)%nat.
Proof. unfold NN. nia. Qed.

Lemma c06_idx_mod P r p : (p < nS P)%nat -> ((r * nS P + p) mod nS P = p)%nat.
Proof.
  intro H. rewrite Nat.add_comm, Nat.mod_add by lia. apply Nat.mod_small. exact H.
Qed.

Lemma c06_mod_lt P i : (i < NN P)%nat -> (i mod nS P < nS P)%nat.
Proof. intro H. apply Nat.mod_upper_bound. unfold NN in H. nia. Qed.

(* ---- small Qc facts ---- *)
Lemma c06_zero_div c : 0 / c = 0.
Proof. unfold Qcdiv. ring. Qed.
Lemma c06_zero_mul_l a : 0 * a = 0.
Proof. ring. Qed.
Lemma c06_le_0_1 : 0 <= 1.
Proof. qc2q. lra. Qed.
Lemma c06_mul_div_self a c : c <> 0 -> a * (c * / c) = a.
Proof. intro H. field. exact H. Qed.

(* ---- unfolding of the tabulated matrices ---- *)
Lemma c06_needs_get P stock optv prodv p j :
  (p < nS P)%nat -> (j < NN P)%nat ->
  get (needs P stock optv prodv) p j = need P (goal_close P stock optv) stock optv prodv p j.
Proof. intros Hp Hj. unfold needs. cbv zeta. apply get_tab2; assumption. Qed.

Lemma c06_orders_get P stock optv prodv capv i j :
  (i < NN P)%nat -> (j < NN P)%nat ->
  get (orders P stock optv prodv capv) i j
  = get (needs P stock optv prodv) (i mod nS P) j * share P capv i j.
Proof. intros Hi Hj. unfold orders. cbv zeta. apply get_tab2; assumption. Qed.

Lemma c06_gap_nonneg P gc stock optv p f :
  0 <= nth p (rho P) 0 -> 0 <= gap P gc stock optv p f.
Proof.
  intro H. unfold gap. destruct gc; [apply Qcle_refl|].
  destruct (isinf P p); [apply Qcle_refl|].
  apply Qc_mul_nonneg; [exact H|apply qpos_nonneg].
Qed.

Section C06.
Variable P : params.
Variables (stock : mat) (optv prodv capv : vec).
Hypothesis Hzd : zdist_def P.
Hypothesis HZ0 : forall i j, (i < NN P)%nat -> (j < NN P)%nat -> 0 <= get (Z0 P) i j.
Hypothesis Htech : forall p f, (p < nS P)%nat -> (f < NN P)%nat -> 0 <= get (tech P) p f.
Hypothesis Hrho : forall p, (p < nS P)%nat -> 0 <= nth p (rho P) 0.
Hypothesis HX0 : forall f, (f < NN P)%nat -> 0 <= getv (X0 P) f.
Hypothesis Hprod : forall f, (f < NN P)%nat -> 0 <= getv prodv f.
Hypothesis Hcap : forall f, (f < NN P)%nat -> 0 <= getv capv f.

Let o := orders P stock optv prodv capv.
Let nd := needs P stock optv prodv.
Let gc := goal_close P stock optv.

(* ---- clauses 1-3: the need ---- *)
Lemma c06_need_use p j : (p < nS P)%nat -> (j < NN P)%nat ->
  (gc = true \/ isinf P p = true) -> get nd p j = getv prodv j * get (tech P) p j.
Proof.
  intros Hp Hj H. unfold nd. rewrite c06_needs_get by assumption.
  unfold need, gap. fold gc.
  destruct H as [H|H]; rewrite H.
  - ring.
  - destruct gc; ring.
Qed.

Lemma c06_need_gap p j : (p < nS P)%nat -> (j < NN P)%nat ->
  gc = false -> isinf P p = false ->
  get nd p j = nth p (rho P) 0 * qpos (goal P optv p j - get stock p j)
               + getv prodv j * get (tech P) p j.
Proof.
  intros Hp Hj H1 H2. unfold nd. rewrite c06_needs_get by assumption.
  unfold need, gap. fold gc. rewrite H1, H2. reflexivity.
Qed.

Lemma c06_need_nonneg p j : (p < nS P)%nat -> (j < NN P)%nat -> 0 <= get nd p j.
Proof.
  intros Hp Hj. unfold nd. rewrite c06_needs_get by assumption. unfold need.
  apply Qc_add_nonneg.
  - apply c06_gap_nonneg. apply Hrho. exact Hp.
  - apply Qc_mul_nonneg; [apply Hprod; exact Hj|apply Htech; assumption].
Qed.

(* ---- shares are non-negative ---- *)
Lemma c06_cap_ratio_nonneg i : (i < NN P)%nat -> 0 <= cap_ratio P capv i.
Proof.
  intro Hi. unfold cap_ratio. destruct (Qceqb (getv (X0 P) i) 0).
  - apply c06_le_0_1.
  - apply Qc_div_nonneg; [apply Hcap|apply HX0]; exact Hi.
Qed.

Lemma c06_zprod_nonneg i j : (i < NN P)%nat -> (j < NN P)%nat -> 0 <= zprod P capv i j.
Proof.
  intros Hi Hj. unfold zprod. apply Qc_mul_nonneg.
  - apply HZ0; assumption.
  - apply c06_cap_ratio_nonneg; exact Hi.
Qed.

Lemma c06_zcprod_nonneg p j : (p < nS P)%nat -> (j < NN P)%nat -> 0 <= zcprod P capv p j.
Proof.
  intros Hp Hj. unfold zcprod. apply sumn_nonneg. intros r Hr.
  apply c06_zprod_nonneg; [apply c06_idx_lt; assumption|exact Hj].
Qed.

Lemma c06_ZC0_nonneg p j : (p < nS P)%nat -> (j < NN P)%nat -> 0 <= ZC0 P p j.
Proof.
  intros Hp Hj. unfold ZC0. apply sumn_nonneg. intros r Hr.
  apply HZ0; [apply c06_idx_lt; assumption|exact Hj].
Qed.

Lemma c06_share_nonneg i j : (i < NN P)%nat -> (j < NN P)%nat -> 0 <= share P capv i j.
Proof.
  intros Hi Hj. pose proof (c06_mod_lt P i Hi) as Hm.
  unfold share. destruct (alt P).
  - unfold share_alt. cbv zeta.
    destruct (Qceqb (zcprod P capv (i mod nS P) j) 0); [apply Qcle_refl|].
    apply Qc_div_nonneg; [apply c06_zprod_nonneg|apply c06_zcprod_nonneg]; assumption.
  - rewrite Hzd by assumption.
    destruct (Qceqb (ZC0 P (i mod nS P) j) 0); [apply Qcle_refl|].
    apply Qc_div_nonneg; [apply HZ0|apply c06_ZC0_nonneg]; assumption.
Qed.

Lemma c06_share_zero i j : (i < NN P)%nat -> (j < NN P)%nat ->
  get (Z0 P) i j = 0 -> share P capv i j = 0.
Proof.
  intros Hi Hj HZ. unfold share. destruct (alt P).
  - unfold share_alt. cbv zeta.
    destruct (Qceqb (zcprod P capv (i mod nS P) j) 0); [reflexivity|].
    unfold zprod. rewrite HZ. rewrite c06_zero_mul_l. apply c06_zero_div.
  - rewrite Hzd by assumption.
    destruct (Qceqb (ZC0 P (i mod nS P) j) 0); [reflexivity|].
    rewrite HZ. apply c06_zero_div.
Qed.

(* ---- clause 4 ---- *)
Lemma c06_order_eq p j r : (p < nS P)%nat -> (j < NN P)%nat -> (r < nR P)%nat ->
  get o (r * nS P + p) j = get nd p j * share P capv (r * nS P + p) j.
Proof.
  intros Hp Hj Hr. unfold o, nd.
  rewrite c06_orders_get by (try apply c06_idx_lt; assumption).
  rewrite c06_idx_mod by exact Hp. reflexivity.
Qed.

Lemma c06_orders_sign p j r : (p < nS P)%nat -> (j < NN P)%nat -> (r < nR P)%nat ->
  0 <= get o (r * nS P + p) j /\
  (get (Z0 P) (r * nS P + p) j = 0 -> get o (r * nS P + p) j = 0).
Proof.
  intros Hp Hj Hr. pose proof (c06_idx_lt P r p Hr Hp) as Hi.
  rewrite c06_order_eq by assumption. split.
  - apply Qc_mul_nonneg; [apply c06_need_nonneg|apply c06_share_nonneg]; assumption.
  - intro HZ. rewrite c06_share_zero by assumption. ring.
Qed.

(* ---- clause 5: fixed shares ---- *)
Lemma c06_fixed_each p j : (p < nS P)%nat -> (j < NN P)%nat ->
  alt P = false -> ZC0 P p j <> 0 ->
  forall r, (r < nR P)%nat ->
    get o (r * nS P + p) j = get nd p j * (get (Z0 P) (r * nS P + p) j / ZC0 P p j).
Proof.
  intros Hp Hj Ha Hne r Hr. pose proof (c06_idx_lt P r p Hr Hp) as Hi.
  rewrite c06_order_eq by assumption. f_equal.
  unfold share. rewrite Ha. rewrite Hzd by assumption.
  rewrite c06_idx_mod by exact Hp.
  destruct (Qceqb_spec (ZC0 P p j) 0) as [E|E]; [contradiction|reflexivity].
Qed.

Lemma c06_fixed_sum p j : (p < nS P)%nat -> (j < NN P)%nat ->
  alt P = false -> ZC0 P p j <> 0 ->
  sumn (nR P) (fun r => get o (r * nS P + p) j) = get nd p j.
Proof.
  intros Hp Hj Ha Hne.
  rewrite (sumn_ext _ _ (fun r => get nd p j * (get (Z0 P) (r * nS P + p) j * / ZC0 P p j))).
  2:{ intros r Hr. apply c06_fixed_each; assumption. }
  rewrite sumn_scale_l, sumn_scale_r. fold (ZC0 P p j).
  apply c06_mul_div_self. exact Hne.
Qed.

(* ---- clause 6: capacity-weighted shares ---- *)
Lemma c06_alt_share p j : (p < nS P)%nat -> zcprod P capv p j <> 0 ->
  forall r, share_alt P capv (r * nS P + p) j
            = zprod P capv (r * nS P + p) j * / zcprod P capv p j.
Proof.
  intros Hp Hne r. unfold share_alt. cbv zeta.
  rewrite c06_idx_mod by exact Hp.
  destruct (Qceqb_spec (zcprod P capv p j) 0) as [E|E]; [contradiction|reflexivity].
Qed.

Lemma c06_alt_each p j : (p < nS P)%nat -> (j < NN P)%nat ->
  alt P = true -> zcprod P capv p j <> 0 ->
  forall r, (r < nR P)%nat ->
    get o (r * nS P + p) j
    = get nd p j * (get (Z0 P) (r * nS P + p) j * cap_ratio P capv (r * nS P + p)
                    / zcprod P capv p j).
Proof.
  intros Hp Hj Ha Hne r Hr.
  rewrite c06_order_eq by assumption. f_equal.
  unfold share. rewrite Ha. rewrite c06_alt_share by assumption. reflexivity.
Qed.

Lemma c06_alt_share_sum p j : (p < nS P)%nat -> zcprod P capv p j <> 0 ->
  sumn (nR P) (fun r => share_alt P capv (r * nS P + p) j) = 1.
Proof.
  intros Hp Hne.
  rewrite (sumn_ext _ _ (fun r => zprod P capv (r * nS P + p) j * / zcprod P capv p j)).
  2:{ intros r Hr. apply c06_alt_share; assumption. }
  rewrite sumn_scale_r. fold (zcprod P capv p j).
  apply Qcmult_inv_r. exact Hne.
Qed.

Lemma c06_alt_sum p j : (p < nS P)%nat -> (j < NN P)%nat ->
  alt P = true -> zcprod P capv p j <> 0 ->
  sumn (nR P) (fun r => get o (r * nS P + p) j) = get nd p j.
Proof.
  intros Hp Hj Ha Hne.
  rewrite (sumn_ext _ _ (fun r => get nd p j * share_alt P capv (r * nS P + p) j)).
  2:{ intros r Hr. rewrite c06_order_eq by assumption. unfold share. rewrite Ha. reflexivity. }
  rewrite sumn_scale_l. rewrite c06_alt_share_sum by assumption. ring.
Qed.

End C06.

(* ---- assembly ---- *)
Lemma c06 : C06_statement.
Proof.
  unfold C06_statement.
  intros P stock optv prodv capv Hzd HZ0 Htech Hrho HX0 Hprod Hcap.
  cbv zeta. intros p j Hp Hj.
  split; [|split; [|split; [|split; [|split]]]].
  - intro H. apply c06_need_use; assumption.
  - intros H1 H2. apply c06_need_gap; assumption.
  - apply c06_need_nonneg; assumption.
  - intros r Hr. apply c06_orders_sign; assumption.
  - intros Ha Hne. split.
    + intros r Hr. apply c06_fixed_each; assumption.
    + apply c06_fixed_sum; assumption.
  - intros Ha Hne. split; [|split].
    + intros r Hr. apply c06_alt_each; assumption.
    + apply c06_alt_share_sum; assumption.
    + apply c06_alt_sum; assumption.
Qed.

Print Assumptions c06.
