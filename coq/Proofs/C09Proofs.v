(* Proofs/C09Proofs.v - recovery: ledger update of recover1, shapes of the rational curves. *)
Require Import Boario.Base.QcLib Boario.Base.Vec Boario.Model.Econ Boario.Model.Events Boario.Model.Sim Boario.Model.Tracker Boario.Model.RecoveryFns Boario.Spec.StatementsEv.
From Coq Require Import Permutation.
Open Scope Qc_scope.

(* ================================================================== *)
(* recover1 : projections                                              *)

Definition c09_fin (tr : tracker) (d h a : option vec) : tracker :=
  let tr' := set_ledgers tr d h a (rem_i tr) (rem_h tr) in
  match d, h, a with
  | None, None, None => set_st tr' Finished
  | _, _, _ => tr'
  end.

Definition c09_d (prec : Z) (t : nat) (tr : tracker) : option vec :=
  match kind tr, dmg tr, dmg0 tr with
  | KRecover, Some _, Some i => round_v prec (rf tr (t - (occ tr + dur tr))%nat i)
  | _, x, _ => x end.
Definition c09_h (prec : Z) (t : nat) (tr : tracker) : option vec :=
  match kind tr, hdmg tr, hdmg0 tr with
  | KRecover, Some _, Some i => round_v prec (rf tr (t - (occ tr + dur tr))%nat i)
  | _, x, _ => x end.
Definition c09_a (t : nat) (tr : tracker) : option vec :=
  match arb tr, arb0 tr with
  | Some _, Some i => round_v 6 (rf tr (t - (occ tr + dur tr))%nat i)
  | x, _ => x end.

Lemma c09_recover1_eq prec t tr :
  recover1 prec t tr = c09_fin tr (c09_d prec t tr) (c09_h prec t tr) (c09_a t tr).
Proof. reflexivity. Qed.

Lemma c09_fin_dmg tr d h a : dmg (c09_fin tr d h a) = d.
Proof. unfold c09_fin. destruct d, h, a; reflexivity. Qed.
Lemma c09_fin_hdmg tr d h a : hdmg (c09_fin tr d h a) = h.
Proof. unfold c09_fin. destruct d, h, a; reflexivity. Qed.
Lemma c09_fin_arb tr d h a : arb (c09_fin tr d h a) = a.
Proof. unfold c09_fin. destruct d, h, a; reflexivity. Qed.
Lemma c09_fin_st tr d h a :
  st (c09_fin tr d h a) = match d, h, a with None, None, None => Finished | _, _, _ => st tr end.
Proof. unfold c09_fin. destruct d, h, a; reflexivity. Qed.

Lemma c09_recover1_dmg prec t tr : dmg (recover1 prec t tr) = c09_d prec t tr.
Proof. rewrite c09_recover1_eq. apply c09_fin_dmg. Qed.
Lemma c09_recover1_hdmg prec t tr : hdmg (recover1 prec t tr) = c09_h prec t tr.
Proof. rewrite c09_recover1_eq. apply c09_fin_hdmg. Qed.
Lemma c09_recover1_arb prec t tr : arb (recover1 prec t tr) = c09_a t tr.
Proof. rewrite c09_recover1_eq. apply c09_fin_arb. Qed.
Lemma c09_recover1_st prec t tr :
  st (recover1 prec t tr) =
  match dmg (recover1 prec t tr), hdmg (recover1 prec t tr), arb (recover1 prec t tr) with
  | None, None, None => Finished | _, _, _ => st tr end.
Proof.
  rewrite c09_recover1_dmg, c09_recover1_hdmg, c09_recover1_arb.
  rewrite c09_recover1_eq. apply c09_fin_st.
Qed.

Lemma c09_recover : C09_recover.
Proof.
  intros prec t tr e tr'. subst e tr'.
  split; [|split; [|split; [|split; [|split; [|split]]]]].
  - intros Hk v i Hd Hd0. rewrite c09_recover1_dmg. unfold c09_d. rewrite Hk, Hd, Hd0. reflexivity.
  - intros Hk v i Hd Hd0. rewrite c09_recover1_hdmg. unfold c09_h. rewrite Hk, Hd, Hd0. reflexivity.
  - intros v i Hd Hd0. rewrite c09_recover1_arb. unfold c09_a. rewrite Hd, Hd0. reflexivity.
  - intro Hd. rewrite c09_recover1_dmg. unfold c09_d. rewrite Hd. destruct (kind tr); reflexivity.
  - intro Hd. rewrite c09_recover1_hdmg. unfold c09_h. rewrite Hd. destruct (kind tr); reflexivity.
  - intro Hd. rewrite c09_recover1_arb. unfold c09_a. rewrite Hd. reflexivity.
  - intro Hst. rewrite c09_recover1_st.
    destruct (dmg (recover1 prec t tr)), (hdmg (recover1 prec t tr)), (arb (recover1 prec t tr));
      (split; [intro H; try (exfalso; apply Hst; exact H); try (repeat split; reflexivity)
              | intros [H1 [H2 H3]]; try discriminate H1; try discriminate H2; try discriminate H3;
                try reflexivity]).
Qed.
Print Assumptions c09_recover.

(* ================================================================== *)
(* helpers on getv / qnat / qpow                                       *)

Lemma c09_getv_map (g : Qc -> Qc) (v : vec) j :
  (j < length v)%nat -> getv (map g v) j = g (getv v j).
Proof.
  intro Hj. unfold getv.
  rewrite (nth_indep (map g v) 0 (g 0)) by (rewrite map_length; exact Hj).
  apply map_nth.
Qed.

Lemma c09_qnat_le a b : (a <= b)%nat -> qnat a <= qnat b.
Proof.
  intro H. unfold qnat, Qc_of_Z, Qcle. rewrite !this_Q2Qc. rewrite <- Zle_Qle. lia.
Qed.
Lemma c09_qnat_0 : qnat 0 = 0.
Proof. apply Qc_is_canon. reflexivity. Qed.
Lemma c09_qnat_1 : qnat 1 = 1.
Proof. apply Qc_is_canon. reflexivity. Qed.
Lemma c09_qnat_nonneg a : 0 <= qnat a.
Proof. rewrite <- c09_qnat_0. apply c09_qnat_le. lia. Qed.
Lemma c09_qnat_pos a : (0 < a)%nat -> 0 < qnat a.
Proof.
  intro H. apply Qclt_le_trans with (y := qnat 1).
  - rewrite c09_qnat_1. reflexivity.
  - apply c09_qnat_le. lia.
Qed.

Lemma c09_qpos_spec r : (r <= 0 /\ qpos r = 0) \/ (0 <= r /\ qpos r = r).
Proof.
  unfold qpos, qmax. destruct (Qcleb_spec 0 r) as [H|H]; [right|left]; split; auto.
  apply Qcnot_le_lt in H. apply Qclt_le_weak. exact H.
Qed.

Lemma c09_qpos_mono a b : a <= b -> qpos a <= qpos b.
Proof.
  intro H.
  destruct (c09_qpos_spec a) as [[Ha Ea]|[Ha Ea]]; rewrite Ea.
  - apply qpos_nonneg.
  - destruct (c09_qpos_spec b) as [[Hb Eb]|[Hb Eb]]; rewrite Eb; [|exact H].
    qc2q. lra.
Qed.

Lemma c09_qpos_le1 a : a <= 1 -> qpos a <= 1.
Proof.
  intro H. destruct (c09_qpos_spec a) as [[Ha Ea]|[Ha Ea]]; rewrite Ea; [|exact H].
  qc2q. lra.
Qed.

Lemma c09_qpos_of_nonneg a : 0 <= a -> qpos a = a.
Proof.
  intro H. destruct (c09_qpos_spec a) as [[Ha Ea]|[Ha Ea]]; rewrite Ea; [|reflexivity].
  apply Qcle_antisym; assumption.
Qed.

Lemma c09_qpos_of_nonpos a : a <= 0 -> qpos a = 0.
Proof.
  intro H. destruct (c09_qpos_spec a) as [[Ha Ea]|[Ha Ea]]; rewrite Ea; [reflexivity|].
  apply Qcle_antisym; assumption.
Qed.

Lemma c09_linear_shape : C09_linear_shape.
Proof.
  intros tau e e' init j Htau Hx Hj.
  unfold linear_rec. rewrite !c09_getv_map by exact Hj.
  set (x := getv init j) in *. clearbody x.
  assert (Hqt : 0 < qnat tau) by (apply c09_qnat_pos; exact Htau).
  assert (Hi : 0 < / qnat tau) by (apply Qc_inv_pos; exact Hqt).
  assert (E : qnat tau * / qnat tau = 1) by (apply Qcmult_inv_r, Qc_pos_neq0; exact Hqt).
  unfold Qcdiv.
  (* facts on the un-floored ratio r n := 1 - qnat n / qnat tau *)
  assert (Hr1 : forall n, 1 - qnat n * / qnat tau <= 1).
  { intro n. pose proof (c09_qnat_nonneg n) as Hn.
    set (i := / qnat tau) in *. clearbody i.
    set (qn := qnat n) in *. clearbody qn. clear E Hqt. qc2q. nra. }
  assert (Hanti : forall n m, (n <= m)%nat -> 1 - qnat m * / qnat tau <= 1 - qnat n * / qnat tau).
  { intros n m Hle. pose proof (c09_qnat_le n m Hle) as Hq.
    set (i := / qnat tau) in *. clearbody i.
    set (qn := qnat n) in *. set (qm := qnat m) in *. clearbody qn qm. clear E Hqt. qc2q. nra. }
  assert (Hge : forall n, (tau <= n)%nat -> 1 - qnat n * / qnat tau <= 0).
  { intros n Hle. pose proof (c09_qnat_le tau n Hle) as Hq.
    set (i := / qnat tau) in *. clearbody i.
    set (qn := qnat n) in *. set (qt := qnat tau) in *. clearbody qn qt. qc2q. nra. }
  assert (Hlt : forall n, (n <= tau)%nat -> 0 <= 1 - qnat n * / qnat tau).
  { intros n Hle. pose proof (c09_qnat_le n tau Hle) as Hq.
    set (i := / qnat tau) in *. clearbody i.
    set (qn := qnat n) in *. set (qt := qnat tau) in *. clearbody qn qt. qc2q. nra. }
  split; [|split; [|split; [|split; [|split]]]].
  - pose proof (qpos_nonneg (1 - qnat e * / qnat tau)) as Hp.
    set (p := qpos (1 - qnat e * / qnat tau)) in *. clearbody p. qc2q. nra.
  - pose proof (qpos_nonneg (1 - qnat e * / qnat tau)) as Hp.
    pose proof (c09_qpos_le1 _ (Hr1 e)) as Hp1.
    set (p := qpos (1 - qnat e * / qnat tau)) in *. clearbody p. qc2q. nra.
  - intro Hle. pose proof (c09_qpos_mono _ _ (Hanti e e' Hle)) as Hm.
    set (p := qpos (1 - qnat e * / qnat tau)) in *.
    set (p' := qpos (1 - qnat e' * / qnat tau)) in *. clearbody p p'. qc2q. nra.
  - rewrite c09_qnat_0.
    replace (1 - 0 * / qnat tau) with 1 by ring.
    rewrite c09_qpos_of_nonneg by (qc2q; lra). ring.
  - intro Hle. rewrite c09_qpos_of_nonpos by (apply Hge; exact Hle). ring.
  - intro Hle. rewrite c09_qpos_of_nonneg by (apply Hlt; exact Hle). reflexivity.
Qed.
Print Assumptions c09_linear_shape.

(* ---- convexe ---- *)

Lemma c09_base_range tau : (0 < tau)%nat ->
  0 <= 1 - 1 / qnat tau /\ 1 - 1 / qnat tau <= 1.
Proof.
  intro Htau.
  assert (Hqt : 0 < qnat tau) by (apply c09_qnat_pos; exact Htau).
  assert (Hq1 : 1 <= qnat tau) by (rewrite <- c09_qnat_1; apply c09_qnat_le; lia).
  assert (Hi : 0 < / qnat tau) by (apply Qc_inv_pos; exact Hqt).
  assert (E : qnat tau * / qnat tau = 1) by (apply Qcmult_inv_r, Qc_pos_neq0; exact Hqt).
  unfold Qcdiv.
  set (i := / qnat tau) in *. clearbody i.
  set (qt := qnat tau) in *. clearbody qt.
  split; qc2q; nra.
Qed.

Lemma c09_qpow_range b n : 0 <= b -> b <= 1 -> 0 <= qpow b n /\ qpow b n <= 1.
Proof.
  intros Hb0 Hb1. induction n as [|n [IH0 IH1]]; cbn [qpow].
  - split; qc2q; lra.
  - set (p := qpow b n) in *. clearbody p. split; qc2q; nra.
Qed.

Lemma c09_qpow_anti b n m : 0 <= b -> b <= 1 -> (n <= m)%nat -> qpow b m <= qpow b n.
Proof.
  intros Hb0 Hb1 Hle. induction Hle as [|m Hle IH].
  - apply Qcle_refl.
  - cbn [qpow]. destruct (c09_qpow_range b m Hb0 Hb1) as [H0 H1].
    set (p := qpow b m) in *. set (q := qpow b n) in *. clearbody p q.
    qc2q. nra.
Qed.

Lemma c09_scaled_shape (x b : Qc) n m :
  0 <= x -> 0 <= b -> b <= 1 ->
  0 <= x * qpow b n /\ x * qpow b n <= x /\ ((n <= m)%nat -> x * qpow b m <= x * qpow b n).
Proof.
  intros Hx Hb0 Hb1.
  destruct (c09_qpow_range b n Hb0 Hb1) as [H0 H1].
  split; [|split].
  - set (p := qpow b n) in *. clearbody p. qc2q. nra.
  - set (p := qpow b n) in *. clearbody p. qc2q. nra.
  - intro Hle. pose proof (c09_qpow_anti b n m Hb0 Hb1 Hle) as Ha.
    set (p := qpow b n) in *. set (q := qpow b m) in *. clearbody p q. qc2q. nra.
Qed.

Lemma c09_convexe_shape : C09_convexe_shape.
Proof.
  intros tau e e' init j Htau Hx Hj.
  unfold convexe_rec, convexe_scaled_rec. rewrite !c09_getv_map by exact Hj.
  destruct (c09_base_range tau Htau) as [Hb0 Hb1].
  set (b := 1 - 1 / qnat tau) in *. clearbody b.
  set (x := getv init j) in *. clearbody x.
  destruct (c09_scaled_shape x b e e' Hx Hb0 Hb1) as [A1 [A2 A3]].
  destruct (c09_scaled_shape x b (4 * e) (4 * e') Hx Hb0 Hb1) as [B1 [B2 B3]].
  repeat split; try assumption.
  intro Hle. apply B3. lia.
Qed.
Print Assumptions c09_convexe_shape.
