(* Proofs/C04Proofs.v - C04: proportional rationing. *)
Require Import Boario.Base.QcLib Boario.Base.Vec Boario.Model.Econ Boario.Model.EconBase Boario.Spec.Statements.
Open Scope Qc_scope.

(* ---- reading one delivered cell ---- *)
Lemma get_deliver P W dem x f j :
  (f < NN P)%nat -> (j < W)%nat ->
  get (deliver P W dem x) f j =
    if Qceqb (rowtot W dem f) 0 then 0 else get dem f j / rowtot W dem f * getv x f.
Proof.
  intros Hf Hj. unfold get, deliver. rewrite nth_tab by exact Hf. cbv zeta.
  rewrite nth_tab by exact Hj. reflexivity.
Qed.

(* ---- scalar facts ---- *)
Lemma ration_form d t x : t <> 0 -> d / t * x = d * (x / t).
Proof. intro Ht. field. exact Ht. Qed.

Lemma ration_bounds d t x :
  0 <= d -> 0 <= x -> x <= t -> t <> 0 -> 0 <= d / t * x /\ d / t * x <= d.
Proof.
  intros Hd Hx Hxt Ht.
  assert (Htpos : 0 < t).
  { assert (Ht0 : 0 <= t) by (eapply Qcle_trans; eassumption).
    destruct (Qcle_lt_or_eq _ _ Ht0) as [Hlt|Heq]; [exact Hlt|]. congruence. }
  assert (Hi : 0 < / t) by (apply Qc_inv_pos; exact Htpos).
  assert (Eti : t * / t = 1) by (apply Qcmult_inv_r; exact Ht).
  unfold Qcdiv.
  assert (Hu : 0 <= d * / t) by (apply Qc_mul_nonneg; [exact Hd|apply Qclt_le_weak; exact Hi]).
  assert (Eu : d * / t * t = d) by (rewrite <- Qcmult_assoc, (Qcmult_comm (/ t)), Eti; ring).
  set (u := d * / t) in *. clearbody u. clear Hi Eti.
  split.
  - apply Qc_mul_nonneg; assumption.
  - assert (Hle : u * x <= u * t) by (qc2q; nra).
    rewrite Eu in Hle. exact Hle.
Qed.

Lemma ration_sum W (d : nat -> Qc) x :
  sumn W d <> 0 -> sumn W (fun j => d j / sumn W d * x) = x.
Proof.
  intro Ht.
  rewrite (sumn_ext W _ (fun j => d j * (/ sumn W d * x))).
  - rewrite sumn_scale_r. field. exact Ht.
  - intros j _. unfold Qcdiv. ring.
Qed.

(* ---- the row-level statement, with N F W spelled out ---- *)
Lemma c04_row (P : params) (E : nat) (dem : mat) (x : vec) :
  (forall f j, (f < NN P)%nat -> (j < WW P E)%nat -> 0 <= get dem f j) ->
  (forall f, (f < NN P)%nat -> 0 <= getv x f /\ getv x f <= rowtot (WW P E) dem f) ->
  forall f, (f < NN P)%nat ->
    (rowtot (WW P E) dem f <> 0 ->
       sumn (WW P E) (fun j => get (deliver P (WW P E) dem x) f j) = getv x f) /\
    (forall j, (j < WW P E)%nat ->
        (rowtot (WW P E) dem f <> 0 ->
           get (deliver P (WW P E) dem x) f j
             = get dem f j * (getv x f / rowtot (WW P E) dem f)) /\
        0 <= get (deliver P (WW P E) dem x) f j /\
        get (deliver P (WW P E) dem x) f j <= get dem f j) /\
    getv (unmet P dem (deliver P (WW P E) dem x)) f
      = sumn (FF P) (fun c => get dem f (NN P + c))
        - sumn (FF P) (fun c => get (deliver P (WW P E) dem x) f (NN P + c)) /\
    0 <= getv (unmet P dem (deliver P (WW P E) dem x)) f /\
    getv (unmet P dem (deliver P (WW P E) dem x)) f
      <= sumn (FF P) (fun c => get dem f (NN P + c)) /\
    (forall j, (j < E * (NN P + FF P))%nat ->
       get (rebuild_prod P (WW P E) (deliver P (WW P E) dem x)) f j
         = get (deliver P (WW P E) dem x) f (NN P + FF P + j)).
Proof.
  intros Hdem Hx f Hf.
  destruct (Hx f Hf) as [Hx0 Hxt].
  assert (HWeq : WW P E = (NN P + FF P + E * (NN P + FF P))%nat) by reflexivity.
  set (W := WW P E) in *.
  set (del := deliver P W dem x).
  set (t := rowtot W dem f) in *.
  assert (Hdel : forall j, (j < W)%nat ->
            get del f j = if Qceqb t 0 then 0 else get dem f j / t * getv x f).
  { intros j Hj. unfold del, t. apply get_deliver; assumption. }
  assert (Hdemf : forall j, (j < W)%nat -> 0 <= get dem f j).
  { intros j Hj. apply Hdem; assumption. }
  (* cellwise facts *)
  assert (Hcell : forall j, (j < W)%nat ->
            (t <> 0 -> get del f j = get dem f j * (getv x f / t)) /\
            0 <= get del f j /\ get del f j <= get dem f j).
  { intros j Hj. rewrite (Hdel j Hj).
    destruct (Qceqb_spec t 0) as [Et|Nt].
    - split; [intro Hne; contradiction|].
      split; [apply Qcle_refl|apply Hdemf; exact Hj].
    - split; [intros _; apply ration_form; exact Nt|].
      apply ration_bounds; [apply Hdemf; exact Hj|exact Hx0|exact Hxt|exact Nt]. }
  (* final-demand columns are inside the matrix *)
  assert (HcolF : forall c, (c < FF P)%nat -> (NN P + c < W)%nat).
  { intros c Hc. rewrite HWeq. lia. }
  assert (Hunmet : getv (unmet P dem del) f
            = sumn (FF P) (fun c => get dem f (NN P + c))
              - sumn (FF P) (fun c => get del f (NN P + c))).
  { unfold unmet. rewrite getv_tab by exact Hf. apply sumn_sub. }
  split.
  { (* conservation *)
    intro Nt.
    rewrite (sumn_ext W _ (fun j => get dem f j / t * getv x f)).
    - unfold t, rowtot. apply ration_sum. exact Nt.
    - intros j Hj. rewrite (Hdel j Hj).
      destruct (Qceqb_spec t 0) as [Et|_]; [contradiction|reflexivity]. }
  split; [exact Hcell|].
  split; [exact Hunmet|].
  split.
  { rewrite Hunmet, <- sumn_sub. apply sumn_nonneg. intros c Hc.
    destruct (Hcell _ (HcolF c Hc)) as [_ [_ Hle]].
    set (a := get del f (NN P + c)) in *. set (b := get dem f (NN P + c)) in *.
    clearbody a b. qc2q. lra. }
  split.
  { rewrite Hunmet.
    assert (Hs : 0 <= sumn (FF P) (fun c => get del f (NN P + c))).
    { apply sumn_nonneg. intros c Hc.
      destruct (Hcell _ (HcolF c Hc)) as [_ [Hge _]]. exact Hge. }
    set (a := sumn (FF P) (fun c => get del f (NN P + c))) in *.
    set (b := sumn (FF P) (fun c => get dem f (NN P + c))) in *.
    clearbody a b. qc2q. lra. }
  { intros j Hj. unfold rebuild_prod.
    rewrite get_tab2; [reflexivity|exact Hf|rewrite HWeq; lia]. }
Qed.

Lemma c04 : C04_statement.
Proof.
  intros P E dem x N F W Hdem Hx del f Hf.
  subst N F W del.
  apply c04_row; assumption.
Qed.

Print Assumptions c04.
