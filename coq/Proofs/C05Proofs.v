(* Proofs/C05Proofs.v - stock-flow accounting and the crash rule. *)
Require Import Boario.Base.QcLib Boario.Base.Vec Boario.Model.Econ Boario.Model.EconBase Boario.Spec.Statements.
Open Scope Qc_scope.

(* ---- helpers ---- *)

Lemma c05_close_spec a b :
  close a b = true <-> qabs (a - b) <= atol + rtol * qabs b.
Proof.
  unfold close. destruct (Qcleb_spec (qabs (a - b)) (atol + rtol * qabs b)) as [H|H].
  - split; auto.
  - split; [discriminate|]. intro H'. contradiction.
Qed.

Lemma c05_add_use_close_spec P add use :
  add_use_close P add use = true <->
  forall p f, (p < nS P)%nat -> (f < NN P)%nat ->
    qabs (get add p f - get use p f) <= atol + rtol * qabs (get use p f).
Proof.
  unfold add_use_close. rewrite alln_spec. split.
  - intros H p f Hp Hf. specialize (H p Hp). rewrite alln_spec in H.
    apply c05_close_spec. apply H. exact Hf.
  - intros H p Hp. rewrite alln_spec. intros f Hf. apply c05_close_spec. apply H; assumption.
Qed.

Lemma c05_any_negative_spec n m a :
  any_negative n m a = true <->
  exists i j, (i < n)%nat /\ (j < m)%nat /\ get a i j < 0.
Proof.
  unfold any_negative. rewrite anyn_spec. split.
  - intros [i [Hi H]]. rewrite anyn_spec in H. destruct H as [j [Hj H]].
    exists i, j. split; [exact Hi|]. split; [exact Hj|].
    destruct (Qcltb_spec (get a i j) 0) as [L|L]; [exact L|discriminate].
  - intros [i [j [Hi [Hj H]]]]. exists i. split; [exact Hi|].
    rewrite anyn_spec. exists j. split; [exact Hj|].
    destruct (Qcltb_spec (get a i j) 0) as [L|L]; [reflexivity|contradiction].
Qed.

Lemma c05_stock_negative_spec P stock :
  stock_negative P stock = true <->
  exists p f, (p < nS P)%nat /\ (f < NN P)%nat /\ isinf P p = false /\ get stock p f < 0.
Proof.
  unfold stock_negative. rewrite anyn_spec. split.
  - intros [p [Hp H]]. rewrite andb_true_iff, negb_true_iff, anyn_spec in H.
    destruct H as [Hinf [f [Hf H]]].
    exists p, f. repeat split; try assumption.
    destruct (Qcltb_spec (get stock p f) 0) as [L|L]; [exact L|discriminate].
  - intros [p [f [Hp [Hf [Hinf H]]]]]. exists p. split; [exact Hp|].
    rewrite andb_true_iff, negb_true_iff, anyn_spec. split; [exact Hinf|].
    exists f. split; [exact Hf|].
    destruct (Qcltb_spec (get stock p f) 0) as [L|L]; [reflexivity|contradiction].
Qed.

(* ---- C05 ---- *)

Lemma c05_accounting : C05_accounting.
Proof.
  intros P stock del x. cbv zeta.
  set (use := stock_use P x). set (add := stock_add P del). split.
  - intros p f Hp Hf. subst use add. unfold stock_use, stock_add.
    rewrite !get_tab2 by assumption. split; reflexivity.
  - destruct (add_use_close P add use) eqn:E.
    + right. split; [reflexivity|]. split.
      * unfold stock_update. rewrite E. reflexivity.
      * apply c05_add_use_close_spec. exact E.
    + left. split; [reflexivity|]. intros p f Hp Hf.
      unfold stock_update. rewrite E. rewrite get_tab2 by assumption. reflexivity.
Qed.
Print Assumptions c05_accounting.

Lemma c05_crash : C05_crash.
Proof.
  unfold C05_crash. intros P stock add use. unfold distribute_crash.
  rewrite !orb_true_iff, andb_true_iff, negb_true_iff.
  rewrite !c05_any_negative_spec, c05_stock_negative_spec.
  tauto.
Qed.
Print Assumptions c05_crash.

Lemma c05_infinite : C05_infinite.
Proof.
  unfold C05_infinite. intros P stock optv p f Hinf. split.
  - unfold short_cell. rewrite Hinf. cbn [negb]. rewrite andb_false_r. reflexivity.
  - unfold ratio. rewrite Hinf. cbn [negb]. rewrite andb_false_r. reflexivity.
Qed.
Print Assumptions c05_infinite.
