(* Proofs/C12Proofs.v - C12: building the per-industry impact from a scalar. *)
Require Import Boario.Base.QcLib Boario.Base.Vec Boario.Model.RecoveryFns Boario.Model.Ctor
  Boario.Model.Ingest Boario.Spec.StatementsIO.
Open Scope Qc_scope.

(* ---- numerals ---- *)
Lemma c12_Qc_of_Z_plus a b : Qc_of_Z (a + b) = Qc_of_Z a + Qc_of_Z b.
Proof.
  unfold Qc_of_Z. apply Qc_is_canon. rewrite this_plus, !this_Q2Qc. rewrite inject_Z_plus. reflexivity.
Qed.

Lemma c12_qnat_S k : qnat (S k) = qnat k + 1.
Proof.
  unfold qnat. rewrite Nat2Z.inj_succ. unfold Z.succ. rewrite c12_Qc_of_Z_plus. reflexivity.
Qed.

Lemma c12_qnat_nonneg k : 0 <= qnat k.
Proof.
  induction k as [|k IH]; [apply Qcle_refl|]. rewrite c12_qnat_S. qc2q. lra.
Qed.

Lemma c12_qnat_pos n : n <> 0%nat -> 0 < qnat n.
Proof.
  destruct n as [|k]; [intro H; exfalso; apply H; reflexivity|]. intros _.
  rewrite c12_qnat_S. pose proof (c12_qnat_nonneg k) as H. qc2q. lra.
Qed.

Lemma c12_mul_pos a b : 0 < a -> 0 < b -> 0 < a * b.
Proof. intros Ha Hb. qc2q. nra. Qed.

Lemma c12_div_pos a b : 0 < a -> 0 < b -> 0 < a / b.
Proof. intros Ha Hb. unfold Qcdiv. apply c12_mul_pos; [exact Ha|apply Qc_inv_pos; exact Hb]. Qed.

Lemma c12_div_1 x : x / 1 = x.
Proof.
  assert (E : / 1 = 1) by (apply Qc_is_canon; reflexivity).
  unfold Qcdiv. rewrite E. ring.
Qed.

(* ---- lists ---- *)
Lemma c12_nth_map {A B} (f : A -> B) l i da db :
  (i < length l)%nat -> nth i (map f l) db = f (nth i l da).
Proof.
  intro H. rewrite (nth_indep _ db (f da)) by (rewrite map_length; exact H). apply map_nth.
Qed.

Lemma c12_nth_repeat {A} (c : A) n i d : (i < n)%nat -> nth i (repeat c n) d = c.
Proof.
  revert i. induction n as [|n IH]; intros i H; [lia|].
  cbn [repeat]. destruct i as [|i]; [reflexivity|]. cbn [nth]. apply IH. lia.
Qed.

Lemma c12_sumq_nil : sumq [] = 0.
Proof. reflexivity. Qed.
Lemma c12_sumq_cons x l : sumq (x :: l) = x + sumq l.
Proof. reflexivity. Qed.

Lemma c12_sumq_app a b : sumq (a ++ b) = sumq a + sumq b.
Proof.
  induction a as [|x a IH]; cbn [app]; [rewrite c12_sumq_nil; ring|].
  rewrite !c12_sumq_cons, IH. ring.
Qed.

Lemma c12_sumq_scale c l : sumq (map (fun x => c * x) l) = c * sumq l.
Proof.
  induction l as [|x l IH]; cbn [map]; [rewrite c12_sumq_nil; ring|].
  rewrite !c12_sumq_cons, IH. ring.
Qed.

Lemma c12_sumq_div s l : sumq (map (fun x => x / s) l) = sumq l / s.
Proof.
  unfold Qcdiv. induction l as [|x l IH]; cbn [map]; [rewrite c12_sumq_nil; ring|].
  rewrite !c12_sumq_cons, IH. ring.
Qed.

Lemma c12_sumq_repeat c n : sumq (repeat c n) = qnat n * c.
Proof.
  induction n as [|n IH]; cbn [repeat].
  - rewrite c12_sumq_nil. change (qnat 0) with 0. ring.
  - rewrite c12_sumq_cons, IH, c12_qnat_S. ring.
Qed.

Lemma c12_sumq_pos l : Forall (fun x => 0 < x) l -> 0 <= sumq l /\ (l <> [] -> 0 < sumq l).
Proof.
  intro H. induction H as [|x l Hx H [IH _]].
  - split; [apply Qcle_refl|]. intro E. exfalso. apply E. reflexivity.
  - rewrite c12_sumq_cons. split; [|intros _]; qc2q; lra.
Qed.

(* ---- the outer product ---- *)
Lemma c12_outer_cons x a b : outer (x :: a) b = map (fun y => x * y) b ++ outer a b.
Proof. reflexivity. Qed.

Lemma c12_outer_length a b : length (outer a b) = (length a * length b)%nat.
Proof.
  induction a as [|x a IH]; [reflexivity|].
  rewrite c12_outer_cons, app_length, map_length, IH. cbn [length]. lia.
Qed.

Lemma c12_sumq_outer a b : sumq (outer a b) = sumq a * sumq b.
Proof.
  induction a as [|x a IH].
  - change (outer [] b) with (@nil Qc). rewrite !c12_sumq_nil. ring.
  - rewrite c12_outer_cons, c12_sumq_app, c12_sumq_scale, IH, c12_sumq_cons. ring.
Qed.

Lemma c12_outer_nth a b : forall r s, (r < length a)%nat -> (s < length b)%nat ->
  nth (r * length b + s) (outer a b) 0 = nth r a 0 * nth s b 0.
Proof.
  induction a as [|x a IH]; intros r s Hr Hs; [cbn [length] in Hr; lia|].
  rewrite c12_outer_cons. destruct r as [|r].
  - cbn [Nat.mul Nat.add nth].
    rewrite app_nth1 by (rewrite map_length; exact Hs).
    apply (c12_nth_map (fun y => x * y)). exact Hs.
  - rewrite app_nth2 by (rewrite map_length; lia).
    rewrite map_length.
    replace (S r * length b + s - length b)%nat with (r * length b + s)%nat by lia.
    cbn [nth]. apply IH; [cbn [length] in Hr; lia|exact Hs].
Qed.

(* ---- weights ---- *)
Lemma c12_all_some_not_none l : all_some_pos l -> existsb is_none l = false.
Proof.
  intro H. induction H as [|o l [w [E _]] H IH]; [reflexivity|].
  cbn [existsb]. rewrite E, IH. reflexivity.
Qed.

Lemma c12_all_some_pos_oget l : all_some_pos l -> Forall (fun x => 0 < x) (map oget l).
Proof.
  intro H. induction H as [|o l [w [E Hw]] H IH]; cbn [map]; [constructor|].
  constructor; [rewrite E; exact Hw|exact IH].
Qed.

Lemma c12_map_oget_some l : map oget (map Some l) = l.
Proof. rewrite map_map. cbn [oget]. apply map_id. Qed.

(* ---- inversion of the constructors ---- *)
Lemma c12_level_some n l d : level_distrib n (Some l) = COk d ->
  existsb is_none l = false /\ sumq (map oget l) <> 0 /\
  d = map (fun x => x / sumq (map oget l)) (map oget l).
Proof.
  unfold level_distrib. destruct (existsb is_none l); [discriminate|]. cbv zeta.
  destruct (Qceqb_spec (sumq (map oget l)) 0) as [E|E]; [discriminate|].
  intro H. injection H as H. split; [reflexivity|]. split; [exact E|]. symmetry. exact H.
Qed.

Lemma c12_scalar_ok I n ws v : distribute_scalar I n ws = COk v ->
  0 < I /\ n <> 0%nat /\ exists d, level_distrib n ws = COk d /\ v = map (fun x => I * x) d.
Proof.
  unfold distribute_scalar.
  destruct (Qcleb_spec I 0) as [HI|HI]; [discriminate|].
  destruct (Nat.eqb_spec n 0) as [Hn|Hn]; [discriminate|].
  destruct (level_distrib n ws) as [er|d]; [discriminate|].
  intro H. injection H as H. split; [apply Qcnot_le_lt; exact HI|]. split; [exact Hn|].
  exists d. split; [reflexivity|]. symmetry. exact H.
Qed.

(* ---- C12 ---- *)
Lemma c12_total : C12_total.
Proof.
  intros I n ws v Hlen H.
  apply c12_scalar_ok in H. destruct H as [HI [Hn [d [Hd Hv]]]]. subst v.
  rewrite map_length, c12_sumq_scale.
  destruct ws as [l|].
  - apply c12_level_some in Hd. destruct Hd as [_ [Hs Hd]]. subst d.
    rewrite !map_length, c12_sumq_div. split; [apply Hlen; reflexivity|].
    field. exact Hs.
  - cbn [level_distrib] in Hd. injection Hd as Hd. subst d.
    rewrite repeat_length, c12_sumq_repeat. split; [reflexivity|].
    field. apply Qc_pos_neq0. apply c12_qnat_pos. exact Hn.
Qed.
Print Assumptions c12_total.

Lemma c12_proportions : C12_proportions.
Proof.
  intros I n v. split.
  - intros H i Hi.
    apply c12_scalar_ok in H. destruct H as [_ [_ [d [Hd Hv]]]]. subst v.
    cbn [level_distrib] in Hd. injection Hd as Hd. subst d.
    rewrite (c12_nth_map (fun x => I * x) _ i 0 0) by (rewrite repeat_length; exact Hi).
    rewrite c12_nth_repeat by exact Hi. unfold Qcdiv. ring.
  - intros l H i Hi.
    apply c12_scalar_ok in H. destruct H as [_ [_ [d [Hd Hv]]]]. subst v.
    apply c12_level_some in Hd. destruct Hd as [_ [_ Hd]]. subst d.
    rewrite (c12_nth_map (fun x => I * x) _ i 0 0) by (rewrite !map_length; exact Hi).
    rewrite (c12_nth_map (fun x => x / sumq (map oget l)) _ i 0 0) by (rewrite map_length; exact Hi).
    rewrite (c12_nth_map oget _ i None 0) by exact Hi.
    reflexivity.
Qed.
Print Assumptions c12_proportions.

Lemma c12_positive : C12_positive.
Proof.
  intros I n ws v Hws H i Hi.
  pose proof (c12_proportions I n v) as [PN PS].
  pose proof (c12_scalar_ok _ _ _ _ H) as [HI [Hn _]].
  destruct ws as [l|].
  - destruct (Hws l eq_refl) as [Hlen Hpos].
    rewrite (PS l H i) by (rewrite Hlen; exact Hi).
    apply c12_all_some_pos_oget in Hpos.
    apply c12_mul_pos; [exact HI|]. apply c12_div_pos.
    + rewrite <- (c12_nth_map oget l i None 0) by (rewrite Hlen; exact Hi).
      rewrite Forall_forall in Hpos. apply Hpos. apply nth_In.
      rewrite map_length, Hlen. exact Hi.
    + apply c12_sumq_pos; [exact Hpos|].
      intro E. apply (f_equal (@length Qc)) in E. rewrite map_length, Hlen in E.
      cbn [length] in E. lia.
  - rewrite (PN H i Hi). apply c12_div_pos; [exact HI|]. apply c12_qnat_pos. exact Hn.
Qed.
Print Assumptions c12_positive.

Lemma c12_product : C12_product.
Proof.
  intros I nr ns lr ls v Hlr Hls Hpr Hps H.
  unfold distribute_regions_sectors in H.
  destruct (Nat.eqb nr 0 || Nat.eqb ns 0)%bool; [discriminate H|].
  destruct (level_distrib nr (Some lr)) as [er|dr] eqn:Er; [discriminate H|].
  destruct (level_distrib ns (Some ls)) as [es|ds] eqn:Es; [discriminate H|].
  apply c12_level_some in Er. destruct Er as [_ [Hsr Er]].
  apply c12_level_some in Es. destruct Es as [_ [Hss Es]].
  apply c12_scalar_ok in H. destruct H as [_ [_ [d [Hd Hv]]]].
  apply c12_level_some in Hd. destruct Hd as [_ [_ Hd]].
  rewrite c12_map_oget_some in Hd.
  assert (Ldr : length dr = nr) by (rewrite Er, !map_length; exact Hlr).
  assert (Lds : length ds = ns) by (rewrite Es, !map_length; exact Hls).
  assert (Sdr : sumq dr = 1) by (rewrite Er, c12_sumq_div; field; exact Hsr).
  assert (Sds : sumq ds = 1) by (rewrite Es, c12_sumq_div; field; exact Hss).
  assert (So : sumq (outer dr ds) = 1) by (rewrite c12_sumq_outer, Sdr, Sds; ring).
  rewrite So in Hd. subst d. subst v.
  split; [rewrite !map_length, c12_outer_length, Ldr, Lds; reflexivity|].
  split; [rewrite c12_sumq_scale, c12_sumq_div, So, c12_div_1; ring|].
  intros r s Hr Hs.
  assert (Hlt : (r * ns + s < length (outer dr ds))%nat).
  { rewrite c12_outer_length, Ldr, Lds. nia. }
  rewrite (c12_nth_map (fun x => I * x) _ _ 0 0) by (rewrite map_length; exact Hlt).
  rewrite (c12_nth_map (fun x => x / 1) _ _ 0 0) by exact Hlt.
  rewrite c12_div_1.
  rewrite <- Lds at 1.
  rewrite c12_outer_nth by (rewrite ?Ldr, ?Lds; assumption).
  rewrite Er at 1. rewrite Es at 1.
  rewrite (c12_nth_map (fun x => x / sumq (map oget lr)) _ r 0 0) by (rewrite map_length, Hlr; exact Hr).
  rewrite (c12_nth_map (fun x => x / sumq (map oget ls)) _ s 0 0) by (rewrite map_length, Hls; exact Hs).
  rewrite (c12_nth_map oget lr r None 0) by (rewrite Hlr; exact Hr).
  rewrite (c12_nth_map oget ls s None 0) by (rewrite Hls; exact Hs).
  field. split; assumption.
Qed.
Print Assumptions c12_product.

Lemma c12_reject : C12_reject.
Proof.
  unfold C12_reject. repeat split.
  - intros I n ws HI. unfold distribute_scalar.
    destruct (Qcleb_spec I 0) as [H|H]; [reflexivity|contradiction].
  - intros I ws HI. unfold distribute_scalar.
    destruct (Qcleb_spec I 0) as [H|H]; [exfalso; revert H; apply Qclt_not_le; exact HI|].
    reflexivity.
  - intros I n l HI Hn Hin. unfold distribute_scalar.
    destruct (Qcleb_spec I 0) as [H|H]; [exfalso; revert H; apply Qclt_not_le; exact HI|].
    destruct (Nat.eqb_spec n 0) as [E|E]; [contradiction|].
    unfold level_distrib.
    assert (Hex : existsb is_none l = true).
    { apply existsb_exists. exists None. split; [exact Hin|reflexivity]. }
    rewrite Hex. reflexivity.
  - intros v [x [Hin Hx]].
    destruct v as [|q v]; [contradiction|].
    unfold from_series. cbv zeta.
    assert (Hex : existsb (fun x => Qcleb x 0) (filter (fun x => negb (Qceqb x 0)) (q :: v)) = true).
    { apply existsb_exists. exists x. split.
      - apply filter_In. split; [exact Hin|].
        destruct (Qceqb_spec x 0) as [E|E]; [|reflexivity].
        subst x. exfalso. revert Hx. apply Qlt_irrefl.
      - destruct (Qcleb_spec x 0) as [L|L]; [reflexivity|].
        exfalso. apply L. apply Qclt_le_weak. exact Hx. }
    rewrite Hex. reflexivity.
  - intros v v' H.
    destruct v as [|q v]; [discriminate H|].
    unfold from_series in H. cbv zeta in H.
    destruct (existsb (fun x => Qcleb x 0) (filter (fun x => negb (Qceqb x 0)) (q :: v))) eqn:Hex;
      [discriminate H|].
    injection H as H. subst v'.
    apply Forall_forall. intros x Hx.
    destruct (Qcleb_spec x 0) as [L|L]; [|apply Qcnot_le_lt; exact L].
    exfalso.
    assert (Ht : existsb (fun x => Qcleb x 0) (filter (fun x => negb (Qceqb x 0)) (q :: v)) = true).
    { apply existsb_exists. exists x. split; [exact Hx|].
      destruct (Qcleb_spec x 0) as [L'|L']; [reflexivity|contradiction]. }
    rewrite Ht in Hex. discriminate Hex.
Qed.
Print Assumptions c12_reject.
