(* Proofs/C19Aux.v - helper lemmas for C19 (time-shift invariance): every phase of the
   step commutes with delaying the occurrence of all trackers. *)
Require Import Boario.Base.QcLib Boario.Base.Vec Boario.Model.Econ Boario.Model.Init
  Boario.Model.Events Boario.Model.Sim Boario.Model.RecoveryFns Boario.Model.InitSim
  Boario.Spec.StatementsEv Boario.Spec.StatementsRun Boario.Spec.StatementsShift.
Open Scope nat_scope.

(* ---- generic list facts ---- *)
Lemma c19_leb_iff a b a' b' : (a <= b <-> a' <= b') -> Nat.leb a b = Nat.leb a' b'.
Proof.
  intro H. destruct (Nat.leb_spec a b) as [H1|H1]; destruct (Nat.leb_spec a' b') as [H2|H2];
    try reflexivity; exfalso; lia.
Qed.

Lemma c19_map_comm {A} (f g g' : A -> A) l :
  (forall x, g' (f x) = f (g x)) -> map g' (map f l) = map f (map g l).
Proof. intro H. rewrite !map_map. apply map_ext. exact H. Qed.

Lemma c19_fold_right_inv {A B} (g : B -> A -> A) (f : B -> B) a l :
  (forall x acc, g (f x) acc = g x acc) -> fold_right g a (map f l) = fold_right g a l.
Proof.
  intro H. induction l as [|x l IH]; [reflexivity|].
  cbn [map fold_right]. rewrite IH. apply H.
Qed.

Lemma c19_fold_left_inv {A B} (g : A -> B -> A) (f : B -> B) l :
  (forall acc x, g acc (f x) = g acc x) -> forall a, fold_left g (map f l) a = fold_left g l a.
Proof.
  intro H. induction l as [|x l IH]; intro a; [reflexivity|].
  cbn [map fold_left]. rewrite H. apply IH.
Qed.

Lemma c19_existsb_inv {A} (g : A -> bool) (f : A -> A) l :
  (forall x, g (f x) = g x) -> existsb g (map f l) = existsb g l.
Proof.
  intro H. induction l as [|x l IH]; [reflexivity|].
  cbn [map existsb]. rewrite H, IH. reflexivity.
Qed.

Lemma c19_filter_len_inv {A} (g : A -> bool) (f : A -> A) l :
  (forall x, g (f x) = g x) -> length (filter g (map f l)) = length (filter g l).
Proof.
  intro H. induction l as [|x l IH]; [reflexivity|].
  cbn [map filter]. rewrite H. destruct (g x); cbn [length]; rewrite IH; reflexivity.
Qed.

Lemma c19_filter_combine_inv {A} (h : A * A -> bool) (f : A -> A) :
  (forall a b, h (f a, f b) = h (a, b)) ->
  forall l1 l2, length (filter h (combine (map f l1) (map f l2))) = length (filter h (combine l1 l2)).
Proof.
  intro H. induction l1 as [|a l1 IH]; intros [|b l2]; cbn [map combine filter]; try reflexivity.
  rewrite H. destruct (h (a, b)); cbn [length]; rewrite IH; reflexivity.
Qed.

(* ---- projections of a shifted tracker ---- *)
Lemma c19_set_st_shift d tr s : set_st (shift_tr d tr) s = shift_tr d (set_st tr s).
Proof. reflexivity. Qed.
Lemma c19_set_rid_shift d tr r : set_rid (shift_tr d tr) r = shift_tr d (set_rid tr r).
Proof. reflexivity. Qed.

(* ---- schedule ---- *)
Lemma c19_activate_shift dt t d tr :
  activate dt (t + d) (shift_tr d tr) = shift_tr d (activate dt t tr).
Proof.
  unfold activate.
  change (st (shift_tr d tr)) with (st tr).
  change (occ (shift_tr d tr)) with (occ tr + d).
  destruct (st tr); try reflexivity.
  assert (H1 : Nat.leb (t + d - dt) (occ tr + d) = Nat.leb (t - dt) (occ tr)) by (apply c19_leb_iff; lia).
  assert (H2 : Nat.leb (occ tr + d) (t + d) = Nat.leb (occ tr) t) by (apply c19_leb_iff; lia).
  rewrite H1, H2. destruct (Nat.leb (t - dt) (occ tr) && Nat.leb (occ tr) t); reflexivity.
Qed.

Lemma c19_activate_map dt t d l :
  map (activate dt (t + d)) (map (shift_tr d) l) = map (shift_tr d) (map (activate dt t) l).
Proof. apply c19_map_comm. intro x. apply c19_activate_shift. Qed.

Lemma c19_start_shift d t l : forall n,
  start (t + d) (map (shift_tr d) l) n
  = (map (shift_tr d) (fst (start t l n)), snd (start t l n)).
Proof.
  induction l as [|a l IH]; intro n; [reflexivity|].
  cbn [map start].
  change (st (shift_tr d a)) with (st a). change (kind (shift_tr d a)) with (kind a).
  change (occ (shift_tr d a) + dur (shift_tr d a)) with (occ a + d + dur a).
  destruct (st a); try (rewrite IH; destruct (start t l n) as [r' n']; reflexivity).
  assert (Hb : Nat.leb (occ a + d + dur a) (t + d) = Nat.leb (occ a + dur a) t)
    by (apply c19_leb_iff; lia).
  rewrite Hb. destruct (Nat.leb (occ a + dur a) t).
  - destruct (kind a); rewrite IH;
      match goal with |- context [start t l ?m] => destruct (start t l m) as [r' n'] end; reflexivity.
  - rewrite IH. destruct (start t l n) as [r' n']. reflexivity.
Qed.

(* ---- aggregates never read the occurrence ---- *)
Lemma c19_klost_shift d n l : klost_of n (map (shift_tr d) l) = klost_of n l.
Proof.
  unfold klost_of. apply tab_ext. intros f _.
  apply c19_fold_right_inv. intros x acc. reflexivity.
Qed.

Lemma c19_arb_shift d n l : arb_of n (map (shift_tr d) l) = arb_of n l.
Proof.
  unfold arb_of. apply tab_ext. intros f _.
  apply c19_fold_right_inv. intros x acc. reflexivity.
Qed.

Lemma c19_any_rebuilding_shift d l : any_rebuilding (map (shift_tr d) l) = any_rebuilding l.
Proof. unfold any_rebuilding. apply c19_existsb_inv. intro x. reflexivity. Qed.

Lemma c19_reb_cell_shift P dtq E d l f j :
  reb_cell P dtq E (map (shift_tr d) l) f j = reb_cell P dtq E l f j.
Proof.
  unfold reb_cell. cbv zeta. apply c19_fold_left_inv. intros acc x. reflexivity.
Qed.

Lemma c19_dem_events_shift P dtq rs E d l dm :
  dem_events P dtq rs E (map (shift_tr d) l) dm = dem_events P dtq rs E l dm.
Proof.
  unfold dem_events. cbv zeta. rewrite c19_any_rebuilding_shift.
  destruct (any_rebuilding l); [|reflexivity].
  apply tab2_ext. intros f j _ _. rewrite c19_reb_cell_shift. reflexivity.
Qed.

(* ---- ledgers ---- *)
Lemma c19_noid_shift d l :
  existsb (fun tr => is_rebuilding tr && match rid tr with None => true | Some _ => false end)
          (map (shift_tr d) l)
  = existsb (fun tr => is_rebuilding tr && match rid tr with None => true | Some _ => false end) l.
Proof. apply c19_existsb_inv. intro x. reflexivity. Qed.

Lemma c19_finish2_shift d tr (dd hh aa : option vec) (ri rh : option mat) :
  match dd, hh with
  | None, None => set_st (set_ledgers (shift_tr d tr) dd hh aa ri rh) Finished
  | _, _ => set_ledgers (shift_tr d tr) dd hh aa ri rh
  end
  = shift_tr d (match dd, hh with
                | None, None => set_st (set_ledgers tr dd hh aa ri rh) Finished
                | _, _ => set_ledgers tr dd hh aa ri rh
                end).
Proof. destruct dd, hh; reflexivity. Qed.

Lemma c19_finish3_shift d tr (dd hh aa : option vec) (ri rh : option mat) :
  match dd, hh, aa with
  | None, None, None => set_st (set_ledgers (shift_tr d tr) dd hh aa ri rh) Finished
  | _, _, _ => set_ledgers (shift_tr d tr) dd hh aa ri rh
  end
  = shift_tr d (match dd, hh, aa with
                | None, None, None => set_st (set_ledgers tr dd hh aa ri rh) Finished
                | _, _, _ => set_ledgers tr dd hh aa ri rh
                end).
Proof. destruct dd, hh, aa; reflexivity. Qed.

Lemma c19_receive_shift P prec E rp d tr :
  receive P prec E rp (shift_tr d tr) = shift_tr d (receive P prec E rp tr).
Proof.
  unfold receive. cbv zeta.
  change (rid (shift_tr d tr)) with (rid tr).
  change (rem_i (shift_tr d tr)) with (rem_i tr).
  change (rem_h (shift_tr d tr)) with (rem_h tr).
  change (dmg (shift_tr d tr)) with (dmg tr).
  change (hdmg (shift_tr d tr)) with (hdmg tr).
  change (arb (shift_tr d tr)) with (arb tr).
  change (phi (shift_tr d tr)) with (phi tr).
  destruct (rid tr) as [id|]; [|reflexivity].
  match goal with |- context [let '(_, _) := ?M in _] => destruct M as [ri dd] end.
  match goal with |- context [let '(_, _) := ?M in _] => destruct M as [rh hh] end.
  apply c19_finish2_shift.
Qed.

Lemma c19_is_rebuilding_shift d tr : is_rebuilding (shift_tr d tr) = is_rebuilding tr.
Proof. reflexivity. Qed.

Lemma c19_rebuild_ledgers_shift P prec E rp d l :
  rebuild_ledgers P prec E rp (map (shift_tr d) l) = map (shift_tr d) (rebuild_ledgers P prec E rp l).
Proof.
  unfold rebuild_ledgers. apply c19_map_comm. intro x.
  rewrite c19_is_rebuilding_shift. destruct (is_rebuilding x); [apply c19_receive_shift|reflexivity].
Qed.

Lemma c19_count_rebuilding_shift d l : count_rebuilding (map (shift_tr d) l) = count_rebuilding l.
Proof. unfold count_rebuilding. apply c19_filter_len_inv. intro x. reflexivity. Qed.

Lemma c19_removed_below_shift d old new id :
  removed_below (map (shift_tr d) old) (map (shift_tr d) new) id = removed_below old new id.
Proof.
  unfold removed_below. apply c19_filter_combine_inv. intros a b. reflexivity.
Qed.

Lemma c19_compact_ids_shift d old new :
  compact_ids (map (shift_tr d) old) (map (shift_tr d) new) = map (shift_tr d) (compact_ids old new).
Proof.
  unfold compact_ids. apply c19_map_comm. intro x.
  rewrite c19_is_rebuilding_shift. change (rid (shift_tr d x)) with (rid x).
  destruct (is_rebuilding x); [|reflexivity].
  destruct (rid x) as [id|]; [|reflexivity].
  rewrite c19_removed_below_shift. reflexivity.
Qed.

Lemma c19_recover1_shift prec t d tr :
  recover1 prec (t + d) (shift_tr d tr) = shift_tr d (recover1 prec t tr).
Proof.
  unfold recover1. cbv zeta.
  change (occ (shift_tr d tr) + dur (shift_tr d tr)) with (occ tr + d + dur tr).
  replace (t + d - (occ tr + d + dur tr)) with (t - (occ tr + dur tr)) by lia.
  change (kind (shift_tr d tr)) with (kind tr).
  change (dmg (shift_tr d tr)) with (dmg tr).
  change (dmg0 (shift_tr d tr)) with (dmg0 tr).
  change (hdmg (shift_tr d tr)) with (hdmg tr).
  change (hdmg0 (shift_tr d tr)) with (hdmg0 tr).
  change (arb (shift_tr d tr)) with (arb tr).
  change (arb0 (shift_tr d tr)) with (arb0 tr).
  change (rf (shift_tr d tr)) with (rf tr).
  change (rem_i (shift_tr d tr)) with (rem_i tr).
  change (rem_h (shift_tr d tr)) with (rem_h tr).
  apply c19_finish3_shift.
Qed.

Lemma c19_recover_ledgers_shift prec t d l :
  recover_ledgers prec (t + d) (map (shift_tr d) l) = map (shift_tr d) (recover_ledgers prec t l).
Proof.
  unfold recover_ledgers. apply c19_map_comm. intro x.
  change (st (shift_tr d x)) with (st x).
  destruct (status_eqb (st x) Recovering); [apply c19_recover1_shift|reflexivity].
Qed.

(* the ids still held by rebuilding trackers do not depend on the shift *)
Lemma c19_holds_id_shift d l i : holds_id (map (shift_tr d) l) i = holds_id l i.
Proof.
  unfold holds_id. induction l as [|tr l IH]; [reflexivity|].
  cbn [map existsb]. rewrite IH. f_equal.
Qed.
Lemma c19_kept_ids_shift d E l : kept_ids E (map (shift_tr d) l) = kept_ids E l.
Proof.
  unfold kept_ids. apply filter_ext. intro i. apply c19_holds_id_shift.
Qed.

(* ---- the events phase ---- *)
Lemma c19_events_shift e d s :
  events_phase e (shift_sim d s)
  = option_map (fun p => (shift_sim d (fst p), snd p)) (events_phase e s).
Proof.
  unfold events_phase. cbv zeta. cbn [shift_sim now trs eco].
  rewrite c19_activate_map, c19_start_shift.
  destruct (start (now s) (map (activate (dt e) (now s)) (trs s)) (nE (eco s))) as [trs2 E2].
  cbn [fst snd]. cbv beta iota.
  rewrite c19_klost_shift, c19_arb_shift, c19_dem_events_shift.
  destruct (capital_exceeded (P e) (klost_of (NN (P e)) trs2)); reflexivity.
Qed.

(* ---- one step, with the overproduction update abstracted ---- *)
Lemma c19_step_equiv_gen e d s :
  (forall s1 r, events_phase e s = Some (s1, r) ->
     (if Nat.ltb 1 (now s1 + d)
      then overprod (P e) (alpha (eco s1)) (dtot_of e (nE (eco s1)) (dem (eco s1))) (prod (eco s1))
      else alpha (eco s1))
     = (if Nat.ltb 1 (now s1)
        then overprod (P e) (alpha (eco s1)) (dtot_of e (nE (eco s1)) (dem (eco s1))) (prod (eco s1))
        else alpha (eco s1))) ->
  step e (shift_sim d s) = (shift_outcome d (fst (step e s)), snd (step e s)).
Proof.
  intro Hg. unfold step. rewrite c19_events_shift.
  destruct (events_phase e s) as [[s1 r]|] eqn:Hev; cbn [option_map fst snd]; [|reflexivity].
  specialize (Hg s1 r eq_refl).
  destruct s1 as [ec1 l1 t1]. cbn [eco trs now] in Hg.
  cbv zeta. cbn [shift_sim eco trs now].
  rewrite Hg.
  match type of Hg with _ = ?a => generalize a end. clear Hg. intro a1.
  rewrite c19_noid_shift, c19_rebuild_ledgers_shift, !c19_count_rebuilding_shift,
    c19_compact_ids_shift.
  replace (t1 + d + dt e) with (t1 + dt e + d) by lia.
  destruct (cap_negative _ _); [reflexivity|].
  destruct (distribute_crash _ _ _ _); [reflexivity|].
  destruct (existsb _ _); [reflexivity|].
  rewrite ?c19_kept_ids_shift.
  destruct (Nat.eqb _ 0); rewrite c19_recover_ledgers_shift;
    (destruct (any_negative _ _ _); reflexivity).
Qed.
