(* Proofs/C13ScaleProofs.v - C13, second half: scale covariance of the economic phases. *)
Require Import Boario.Base.QcLib Boario.Base.Vec Boario.Model.Econ Boario.Spec.StatementsScale.
Open Scope Qc_scope.

(* ---- reading scaled vectors and matrices ---- *)

Lemma c13s_getv_vscale l v i : getv (vscale l v) i = l * getv v i.
Proof.
  unfold getv, vscale. revert i.
  induction v as [|a v IH]; intros [|i]; cbn [map nth]; try ring.
  apply IH.
Qed.

Lemma c13s_get_mscale l m i j : get (mscale l m) i j = l * get m i j.
Proof.
  unfold get, mscale.
  change (@nil Qc) with (vscale l []) at 1.
  rewrite map_nth. apply c13s_getv_vscale.
Qed.

Lemma c13s_vscale_tab l n g : vscale l (tab n g) = tab n (fun i => l * g i).
Proof. unfold vscale, tab. rewrite map_map. reflexivity. Qed.

Lemma c13s_mscale_tab l n (g : nat -> vec) : mscale l (tab n g) = tab n (fun i => vscale l (g i)).
Proof. unfold mscale, tab. rewrite map_map. reflexivity. Qed.

Lemma c13s_mscale_tab2 l n m g : mscale l (tab2 n m g) = tab2 n m (fun i j => l * g i j).
Proof.
  unfold tab2. rewrite c13s_mscale_tab. apply tab_ext. intros i _. apply c13s_vscale_tab.
Qed.

(* ---- order and ratio facts for a positive factor ---- *)

Lemma c13s_pos_neq0 l : 0 < l -> l <> 0.
Proof. apply Qc_pos_neq0. Qed.

Lemma c13s_Qcleb_scale l a b : 0 < l -> Qcleb (l * a) (l * b) = Qcleb a b.
Proof.
  intro Hl.
  destruct (Qcleb_spec (l * a) (l * b)) as [H|H], (Qcleb_spec a b) as [H'|H']; try reflexivity; exfalso.
  - apply H'. qc2q. nra.
  - apply H. qc2q. nra.
Qed.

Lemma c13s_Qcltb_scale l a b : 0 < l -> Qcltb (l * a) (l * b) = Qcltb a b.
Proof.
  intro Hl.
  destruct (Qcltb_spec (l * a) (l * b)) as [H|H], (Qcltb_spec a b) as [H'|H']; try reflexivity; exfalso.
  - apply H'. qc2q. nra.
  - apply H. qc2q. nra.
Qed.

Lemma c13s_Qceqb_scale l a : l <> 0 -> Qceqb (l * a) 0 = Qceqb a 0.
Proof.
  intro Hl.
  destruct (Qceqb_spec (l * a) 0) as [H|H], (Qceqb_spec a 0) as [H'|H']; try reflexivity; exfalso.
  - apply Qcmult_integral in H. destruct H; contradiction.
  - apply H. subst a. ring.
Qed.

Lemma c13s_inv0 : / 0 = 0.
Proof. apply Qc_is_canon. reflexivity. Qed.

Lemma c13s_div_scale l a b : l <> 0 -> (l * a) / (l * b) = a / b.
Proof.
  intro Hl. destruct (Qceqb_spec b 0) as [E|E].
  - subst b. unfold Qcdiv. replace (l * 0) with 0 by ring. rewrite c13s_inv0. ring.
  - field. split; assumption.
Qed.

Lemma c13s_qmin_scale l a b : 0 < l -> qmin (l * a) (l * b) = l * qmin a b.
Proof.
  intro Hl. unfold qmin. rewrite c13s_Qcleb_scale by exact Hl.
  destruct (Qcleb a b); reflexivity.
Qed.

Lemma c13s_qmax_scale l a b : 0 < l -> qmax (l * a) (l * b) = l * qmax a b.
Proof.
  intro Hl. unfold qmax. rewrite c13s_Qcleb_scale by exact Hl.
  destruct (Qcleb a b); reflexivity.
Qed.

Lemma c13s_qpos_scale l a : 0 < l -> qpos (l * a) = l * qpos a.
Proof.
  intro Hl. unfold qpos. rewrite <- c13s_qmax_scale by exact Hl.
  f_equal. ring.
Qed.

Lemma c13s_qabs_scale l a : 0 < l -> qabs (l * a) = l * qabs a.
Proof.
  intro Hl. unfold qabs.
  replace (Qcleb 0 (l * a)) with (Qcleb (l * 0) (l * a)) by (f_equal; ring).
  rewrite c13s_Qcleb_scale by exact Hl.
  destruct (Qcleb 0 a); ring.
Qed.

Lemma c13s_minn_scale l n g d : 0 < l -> minn n (fun p => l * g p) (l * d) = l * minn n g d.
Proof.
  intro Hl. induction n as [|n IH]; cbn [minn]; [reflexivity|].
  rewrite IH. apply c13s_qmin_scale. exact Hl.
Qed.

(* ---- C13: capacity and optimal production ---- *)

Lemma c13_scale_cap : C13_scale_cap.
Proof.
  intros P l alpha delta _.
  unfold cap. rewrite c13s_vscale_tab.
  change (NN (scaleP l P)) with (NN P). apply tab_ext. intros f _.
  cbn [X0 scaleP]. rewrite c13s_getv_vscale. ring.
Qed.
Print Assumptions c13_scale_cap.

Lemma c13_scale_opt : C13_scale_opt.
Proof.
  intros P l dtot capv Hl _ _.
  unfold opt. rewrite c13s_vscale_tab.
  change (NN (scaleP l P)) with (NN P). apply tab_ext. intros f _.
  rewrite !c13s_getv_vscale. apply c13s_qmin_scale. exact Hl.
Qed.
Print Assumptions c13_scale_opt.

(* ---- the scaled parameters keep coefficients and durations ---- *)

Lemma c13s_invq_scaleP l P p : invq (scaleP l P) p = invq P p.
Proof. reflexivity. Qed.
Lemma c13s_isinf_scaleP l P p : isinf (scaleP l P) p = isinf P p.
Proof. reflexivity. Qed.

(* ---- C13: realised production ---- *)

Lemma c13s_constraints_scale P l optv :
  constraints (scaleP l P) (vscale l optv) = mscale l (constraints P optv).
Proof.
  unfold constraints. rewrite c13s_mscale_tab2.
  change (NN (scaleP l P)) with (NN P). cbn [nS tech psi scaleP].
  apply tab2_ext. intros p f _ _.
  rewrite c13s_getv_vscale, c13s_invq_scaleP. ring.
Qed.

Lemma c13s_short_cell_scale P l stock cons p f : 0 < l ->
  short_cell (scaleP l P) (mscale l stock) (mscale l cons) p f = short_cell P stock cons p f.
Proof.
  intro Hl. unfold short_cell.
  rewrite !c13s_get_mscale, c13s_Qcltb_scale by exact Hl. reflexivity.
Qed.

Lemma c13s_any_short_scale P l stock cons : 0 < l ->
  any_short (scaleP l P) (mscale l stock) (mscale l cons) = any_short P stock cons.
Proof.
  intro Hl. unfold any_short.
  change (NN (scaleP l P)) with (NN P). cbn [nS scaleP].
  apply anyn_ext. intros p _. apply anyn_ext. intros f _.
  apply c13s_short_cell_scale. exact Hl.
Qed.

Lemma c13s_ratio_scale P l stock cons p f : 0 < l ->
  ratio (scaleP l P) (mscale l stock) (mscale l cons) p f = ratio P stock cons p f.
Proof.
  intro Hl. assert (Hn : l <> 0) by (apply c13s_pos_neq0; exact Hl).
  unfold ratio.
  rewrite !c13s_get_mscale, c13s_Qceqb_scale, c13s_div_scale by exact Hn. reflexivity.
Qed.

Lemma c13s_prod_min_scale P l stock cons optv f : 0 < l ->
  prod_min (scaleP l P) (mscale l stock) (mscale l cons) (vscale l optv) f
    = l * prod_min P stock cons optv f.
Proof.
  intro Hl. unfold prod_min. cbn [nS scaleP].
  rewrite c13s_getv_vscale.
  rewrite (minn_ext _ _ (fun p => l * (getv optv f * ratio P stock cons p f))).
  - apply c13s_minn_scale. exact Hl.
  - intros p _. rewrite c13s_ratio_scale by exact Hl. ring.
Qed.

Lemma c13_scale_production : C13_scale_production.
Proof.
  intros P l stock optv Hl _ _.
  unfold production.
  rewrite c13s_constraints_scale, c13s_any_short_scale by exact Hl.
  destruct (any_short P stock (constraints P optv)); [|reflexivity].
  rewrite c13s_vscale_tab. change (NN (scaleP l P)) with (NN P).
  apply tab_ext. intros f _. apply c13s_prod_min_scale. exact Hl.
Qed.
Print Assumptions c13_scale_production.

(* ---- C13: distribution ---- *)

Lemma c13s_rowtot_scale l W dem f : rowtot W (mscale l dem) f = l * rowtot W dem f.
Proof.
  unfold rowtot. rewrite <- sumn_scale_l. apply sumn_ext. intros j _. apply c13s_get_mscale.
Qed.

Lemma c13s_deliver_scale P l W dem x : 0 < l ->
  deliver (scaleP l P) W (mscale l dem) (vscale l x) = mscale l (deliver P W dem x).
Proof.
  intro Hl. assert (Hn : l <> 0) by (apply c13s_pos_neq0; exact Hl).
  unfold deliver. rewrite c13s_mscale_tab. change (NN (scaleP l P)) with (NN P).
  apply tab_ext. intros f _. cbv zeta. rewrite c13s_vscale_tab.
  apply tab_ext. intros j _.
  rewrite c13s_rowtot_scale, c13s_get_mscale, c13s_getv_vscale, c13s_Qceqb_scale by exact Hn.
  destruct (Qceqb (rowtot W dem f) 0); [ring|].
  rewrite c13s_div_scale by exact Hn. ring.
Qed.

Lemma c13s_unmet_scale P l dem del :
  unmet (scaleP l P) (mscale l dem) (mscale l del) = vscale l (unmet P dem del).
Proof.
  unfold unmet. rewrite c13s_vscale_tab.
  change (NN (scaleP l P)) with (NN P). change (FF (scaleP l P)) with (FF P).
  apply tab_ext. intros f _. rewrite <- sumn_scale_l. apply sumn_ext. intros c _.
  rewrite !c13s_get_mscale. ring.
Qed.

Lemma c13_scale_deliver : C13_scale_deliver.
Proof.
  intros P l W dem x Hl _ _. split.
  - apply c13s_deliver_scale. exact Hl.
  - apply c13s_unmet_scale.
Qed.
Print Assumptions c13_scale_deliver.

(* ---- C13: overproduction ---- *)

Lemma c13s_scarcity_scale l dtot prodv f : l <> 0 ->
  scarcity (vscale l dtot) (vscale l prodv) f = scarcity dtot prodv f.
Proof.
  intro Hn. unfold scarcity.
  rewrite !c13s_getv_vscale, c13s_Qceqb_scale by exact Hn.
  replace (l * getv dtot f - l * getv prodv f) with (l * (getv dtot f - getv prodv f)) by ring.
  rewrite c13s_div_scale by exact Hn. reflexivity.
Qed.

Lemma c13_scale_overprod : C13_scale_overprod.
Proof.
  intros P l alpha dtot prodv Hl _ _.
  unfold overprod. change (NN (scaleP l P)) with (NN P).
  apply tab_ext. intros f _.
  rewrite c13s_scarcity_scale by (apply c13s_pos_neq0; exact Hl). reflexivity.
Qed.
Print Assumptions c13_scale_overprod.

(* ---- C13: inventories ---- *)

Lemma c13_scale_stock : C13_scale_stock.
Proof.
  intros P l stock add use Hl _ _ _ Hc.
  unfold stock_update. rewrite Hc.
  destruct (add_use_close P add use); [reflexivity|].
  rewrite c13s_mscale_tab2. change (NN (scaleP l P)) with (NN P). cbn [nS scaleP].
  apply tab2_ext. intros p f _ _. rewrite !c13s_get_mscale. ring.
Qed.
Print Assumptions c13_scale_stock.

(* ---- C13: orders ---- *)

Lemma c13s_goal_scale P l optv p f :
  goal (scaleP l P) (vscale l optv) p f = l * goal P optv p f.
Proof.
  unfold goal. rewrite c13s_getv_vscale, c13s_invq_scaleP. cbn [tech scaleP]. ring.
Qed.

Lemma c13s_need_scale P l gc stock optv prodv p f : 0 < l ->
  need (scaleP l P) gc (mscale l stock) (vscale l optv) (vscale l prodv) p f
    = l * need P gc stock optv prodv p f.
Proof.
  intro Hl. unfold need, gap.
  rewrite c13s_goal_scale, c13s_get_mscale, c13s_getv_vscale, c13s_isinf_scaleP.
  cbn [rho tech scaleP].
  destruct gc; [ring|]. destruct (isinf P p); [ring|].
  replace (l * goal P optv p f - l * get stock p f)
    with (l * (goal P optv p f - get stock p f)) by ring.
  rewrite c13s_qpos_scale by exact Hl. ring.
Qed.

Lemma c13s_needs_scale P l stock optv prodv : 0 < l ->
  goal_close (scaleP l P) (mscale l stock) (vscale l optv) = goal_close P stock optv ->
  needs (scaleP l P) (mscale l stock) (vscale l optv) (vscale l prodv)
    = mscale l (needs P stock optv prodv).
Proof.
  intros Hl Hgc. unfold needs. rewrite Hgc, c13s_mscale_tab2.
  change (NN (scaleP l P)) with (NN P). cbn [nS scaleP].
  apply tab2_ext. intros p f _ _. apply c13s_need_scale. exact Hl.
Qed.

Lemma c13s_cap_ratio_scale P l capv i : l <> 0 ->
  cap_ratio (scaleP l P) (vscale l capv) i = cap_ratio P capv i.
Proof.
  intro Hn. unfold cap_ratio. cbn [X0 scaleP].
  rewrite !c13s_getv_vscale, c13s_Qceqb_scale, c13s_div_scale by exact Hn. reflexivity.
Qed.

Lemma c13s_zprod_scale P l capv i j : l <> 0 ->
  zprod (scaleP l P) (vscale l capv) i j = l * zprod P capv i j.
Proof.
  intro Hn. unfold zprod. rewrite c13s_cap_ratio_scale by exact Hn.
  cbn [Z0 scaleP]. rewrite c13s_get_mscale. ring.
Qed.

Lemma c13s_zcprod_scale P l capv p j : l <> 0 ->
  zcprod (scaleP l P) (vscale l capv) p j = l * zcprod P capv p j.
Proof.
  intro Hn. unfold zcprod. cbn [nR nS scaleP].
  rewrite <- sumn_scale_l. apply sumn_ext. intros r _.
  apply c13s_zprod_scale. exact Hn.
Qed.

Lemma c13s_share_alt_scale P l capv i j : l <> 0 ->
  share_alt (scaleP l P) (vscale l capv) i j = share_alt P capv i j.
Proof.
  intro Hn. unfold share_alt. cbn [nS scaleP].
  rewrite c13s_zcprod_scale, c13s_zprod_scale, c13s_Qceqb_scale, c13s_div_scale by exact Hn.
  reflexivity.
Qed.

Lemma c13s_share_scale P l capv i j : l <> 0 ->
  share (scaleP l P) (vscale l capv) i j = share P capv i j.
Proof.
  intro Hn. unfold share. cbn [alt zdist scaleP].
  rewrite c13s_share_alt_scale by exact Hn. reflexivity.
Qed.

Lemma c13_scale_orders : C13_scale_orders.
Proof.
  intros P l stock optv prodv capv Hl _ _ _ _ _ _ Hgc.
  assert (Hn : l <> 0) by (apply c13s_pos_neq0; exact Hl).
  unfold orders. rewrite c13s_needs_scale by assumption.
  rewrite c13s_mscale_tab2. change (NN (scaleP l P)) with (NN P). cbn [nS scaleP].
  apply tab2_ext. intros i j _ _.
  rewrite c13s_get_mscale, c13s_share_scale by exact Hn. ring.
Qed.
Print Assumptions c13_scale_orders.
