(* Proofs/C02Proofs.v - C02: the functional model refines the documented ARIO recurrences. *)
Require Import Boario.Base.QcLib Boario.Base.Vec Boario.Model.Econ Boario.Model.EconBase
  Boario.Model.Events Boario.Model.Sim Boario.Spec.Statements Boario.Spec.ArioSpec
  Boario.Spec.StatementsSpec.
Require Import Boario.Proofs.C03Proofs Boario.Proofs.C04Proofs Boario.Proofs.C05Proofs
  Boario.Proofs.C06Proofs.
Open Scope Qc_scope.

(* ------------------------------------------------------------------ *)
(* scalar facts *)

Lemma c02_le_0_1 : 0 <= 1.
Proof. qc2q. lra. Qed.

Lemma c02_div_lt_1 s c : 0 <= s -> s < c -> s / c < 1.
Proof.
  intros Hs Hsc. unfold Qcdiv.
  assert (Hc : 0 < c) by (eapply Qcle_lt_trans; eassumption).
  assert (Hi : 0 < / c) by (apply Qc_inv_pos; exact Hc).
  assert (E : c * / c = 1) by (apply Qcmult_inv_r, Qc_pos_neq0; exact Hc).
  set (i := / c) in *. clearbody i. qc2q. nra.
Qed.

Lemma c02_lt_of_le_mul m a q : 0 < a -> q < 1 -> m <= a * q -> m < a.
Proof. intros Ha Hq Hm. qc2q. nra. Qed.

Lemma c02_mul3_nonneg a b c : 0 <= a -> 0 <= b -> 0 <= c -> 0 <= a * b * c.
Proof. intros. apply Qc_mul_nonneg; [apply Qc_mul_nonneg|]; assumption. Qed.

Lemma c02_one_minus_nonneg d : d <= 1 -> 0 <= 1 - d.
Proof. intro H. qc2q. lra. Qed.

Lemma c02_qmax1_nonneg a : 0 <= qmax 1 a.
Proof. eapply Qcle_trans; [apply c02_le_0_1|apply qmax_l]. Qed.

Lemma c02_lt_irrefl (a : Qc) : ~ a < a.
Proof. intro H. revert H. apply Qlt_irrefl. Qed.

(* ------------------------------------------------------------------ *)
(* the fields of [econ_step] *)

Definition c02_dtot (Pm : params) (s : pre) : vec :=
  tab (NN Pm) (fun f => rowtot (WW Pm (p_E s)) (p_dem s) f).

Lemma c02_q_alpha Pm s :
  q_alpha (econ_step Pm s) =
  if p_guard s then overprod Pm (p_alpha s) (c02_dtot Pm s) (p_prev s) else p_alpha s.
Proof. reflexivity. Qed.
Lemma c02_q_cap Pm s :
  q_cap (econ_step Pm s) = cap Pm (q_alpha (econ_step Pm s)) (p_delta s).
Proof. reflexivity. Qed.
Lemma c02_q_opt Pm s :
  q_opt (econ_step Pm s) = opt Pm (c02_dtot Pm s) (q_cap (econ_step Pm s)).
Proof. reflexivity. Qed.
Lemma c02_q_prod Pm s :
  q_prod (econ_step Pm s) = production Pm (p_stock s) (q_opt (econ_step Pm s)).
Proof. reflexivity. Qed.
Lemma c02_q_del Pm s :
  q_del (econ_step Pm s) = deliver Pm (WW Pm (p_E s)) (p_dem s) (q_prod (econ_step Pm s)).
Proof. reflexivity. Qed.
Lemma c02_q_stock Pm s :
  q_stock (econ_step Pm s) =
  stock_update Pm (p_stock s) (stock_add Pm (q_del (econ_step Pm s)))
                  (stock_use Pm (q_prod (econ_step Pm s))).
Proof. reflexivity. Qed.
Lemma c02_q_unmet Pm s :
  q_unmet (econ_step Pm s) = unmet Pm (p_dem s) (q_del (econ_step Pm s)).
Proof. reflexivity. Qed.

Lemma c02_dtot_get Pm s f : (f < NN Pm)%nat ->
  getv (c02_dtot Pm s) f = tot (WW Pm (p_E s)) (p_dem s) f.
Proof. intro Hf. unfold c02_dtot. rewrite getv_tab by exact Hf. reflexivity. Qed.

(* ------------------------------------------------------------------ *)
(* (1) overproduction *)

Lemma c02_overprod1_cases Pm a z :
  (0 < z -> overprod1 Pm a z = qmin (a_max Pm) (qmax 1 (a + (a_max Pm - a) * z * a_rate Pm))) /\
  (z = 0 -> overprod1 Pm a z = qmin (a_max Pm) (qmax 1 (a + (a_base Pm - a) * a_rate Pm))) /\
  (z < 0 -> overprod1 Pm a z = qmin (a_max Pm) (qmax 1 (a + (a_base Pm - a) * a_rate Pm)) \/
            overprod1 Pm a z = qmin (a_max Pm) (qmax 1 (a + (a_max Pm - a) * z * a_rate Pm))).
Proof.
  unfold overprod1. cbv zeta. split; [|split].
  - intro Hz. destruct (Qceqb_spec z 0) as [E|E].
    + exfalso. rewrite E in Hz. exact (c02_lt_irrefl _ Hz).
    + f_equal. f_equal. ring.
  - intro Hz. rewrite Hz. destruct (Qceqb_spec 0 0) as [E|E]; [|congruence].
    f_equal. f_equal. ring.
  - intro Hz. right. destruct (Qceqb_spec z 0) as [E|E].
    + exfalso. rewrite E in Hz. exact (c02_lt_irrefl _ Hz).
    + f_equal. f_equal. ring.
Qed.

Lemma c02_alpha_rel Pm a d x :
  alpha_rel Pm a d x (overprod1 Pm a (if Qceqb d 0 then 0 else (d - x) / d)).
Proof. unfold alpha_rel. apply c02_overprod1_cases. Qed.

Lemma c02_overprod_get Pm al dtot prev f : (f < NN Pm)%nat ->
  getv (overprod Pm al dtot prev) f = overprod1 Pm (getv al f) (scarcity dtot prev f).
Proof. intro Hf. unfold overprod. apply getv_tab. exact Hf. Qed.

Lemma c02_clause_alpha Pm s f : (f < NN Pm)%nat ->
  if p_guard s
  then alpha_rel Pm (getv (p_alpha s) f) (tot (WW Pm (p_E s)) (p_dem s) f)
         (getv (p_prev s) f) (getv (q_alpha (econ_step Pm s)) f)
  else getv (q_alpha (econ_step Pm s)) f = getv (p_alpha s) f.
Proof.
  intro Hf. rewrite c02_q_alpha. destruct (p_guard s); [|reflexivity].
  rewrite c02_overprod_get by exact Hf. unfold scarcity.
  rewrite c02_dtot_get by exact Hf. apply c02_alpha_rel.
Qed.

(* the updated factor is min(a_max, max(1, .)): its sign is the sign of a_max
   (no sign condition on a_max is part of [WFpre]) *)
Lemma c02_alpha_nonneg Pm s f : (f < NN Pm)%nat ->
  (p_guard s = true -> 0 <= a_max Pm) ->
  (forall f, (f < NN Pm)%nat -> 0 <= getv (p_alpha s) f) ->
  0 <= getv (q_alpha (econ_step Pm s)) f.
Proof.
  intros Hf HM Ha. rewrite c02_q_alpha. destruct (p_guard s); [|apply Ha; exact Hf].
  rewrite c02_overprod_get by exact Hf. unfold overprod1. cbv zeta.
  apply qmin_glb; [apply HM; reflexivity|apply c02_qmax1_nonneg].
Qed.

Lemma c02_alpha_neg Pm s f : (f < NN Pm)%nat ->
  p_guard s = true -> a_max Pm < 0 ->
  getv (q_alpha (econ_step Pm s)) f <= 0.
Proof.
  intros Hf Hg HM. rewrite c02_q_alpha, Hg.
  rewrite c02_overprod_get by exact Hf. unfold overprod1. cbv zeta.
  eapply Qcle_trans; [apply qmin_l|apply Qclt_le_weak; exact HM].
Qed.

(* ------------------------------------------------------------------ *)
(* (2) capacity, optimal production *)

Lemma c02_cap_get Pm al de f : (f < NN Pm)%nat ->
  getv (cap Pm al de) f = getv al f * (1 - getv de f) * getv (X0 Pm) f.
Proof. intro Hf. unfold cap. rewrite getv_tab by exact Hf. ring. Qed.

Lemma c02_clause_cap Pm s f : (f < NN Pm)%nat ->
  getv (q_cap (econ_step Pm s)) f
    = getv (q_alpha (econ_step Pm s)) f * (1 - getv (p_delta s) f) * getv (X0 Pm) f /\
  getv (q_opt (econ_step Pm s)) f
    = qmin (tot (WW Pm (p_E s)) (p_dem s) f) (getv (q_cap (econ_step Pm s)) f).
Proof.
  intro Hf. split.
  - rewrite c02_q_cap. apply c02_cap_get. exact Hf.
  - rewrite c02_q_opt. rewrite c03_opt_get by exact Hf.
    rewrite c02_dtot_get by exact Hf. reflexivity.
Qed.

Lemma c02_opt_nonneg Pm s f : WFpre Pm s -> (f < NN Pm)%nat ->
  (p_guard s = true -> 0 <= a_max Pm) ->
  0 <= getv (q_opt (econ_step Pm s)) f.
Proof.
  intros WF Hf HM. destruct (c02_clause_cap Pm s f Hf) as [Ec Eo]. rewrite Eo.
  apply qmin_glb.
  - unfold tot. apply sumn_nonneg. intros j Hj. apply (wq_dem _ _ WF); assumption.
  - rewrite Ec. apply c02_mul3_nonneg.
    + apply c02_alpha_nonneg; [exact Hf|exact HM|apply (wq_alpha _ _ WF)].
    + apply c02_one_minus_nonneg. apply (wq_delta _ _ WF). exact Hf.
    + apply (wq_X0 _ _ WF). exact Hf.
Qed.

Lemma c02_mul_nonpos_nonneg a b : a <= 0 -> 0 <= b -> a * b <= 0.
Proof. intros Ha Hb. qc2q. nra. Qed.

(* with a negative maximum every updated factor, hence every capacity and every
   optimal production, is non-positive *)
Lemma c02_opt_nonpos Pm s f : WFpre Pm s -> (f < NN Pm)%nat ->
  p_guard s = true -> a_max Pm < 0 ->
  getv (q_opt (econ_step Pm s)) f <= 0.
Proof.
  intros WF Hf Hg HM. destruct (c02_clause_cap Pm s f Hf) as [Ec Eo]. rewrite Eo.
  eapply Qcle_trans; [apply qmin_r|]. rewrite Ec.
  apply c02_mul_nonpos_nonneg; [apply c02_mul_nonpos_nonneg|].
  - apply c02_alpha_neg; assumption.
  - apply c02_one_minus_nonneg. apply (wq_delta _ _ WF). exact Hf.
  - apply (wq_X0 _ _ WF). exact Hf.
Qed.

(* ------------------------------------------------------------------ *)
(* (3) realised production *)

Section Production.
Variable Pm : params.
Variables (stk : mat) (optv : vec) (f : nat).
Hypothesis Hf : (f < NN Pm)%nat.
Hypothesis Htech : forall p, (p < nS Pm)%nat -> 0 <= get (tech Pm) p f.
Hypothesis Hpsi : 0 <= psi Pm.
Hypothesis Hinv : forall p, 0 <= invq Pm p.
Hypothesis Hstk : forall p, (p < nS Pm)%nat -> isinf Pm p = false -> 0 <= get stk p f.
Hypothesis Hopt : 0 <= getv optv f.

Let cons (p : nat) : Qc := invq Pm p * getv optv f * get (tech Pm) p f * psi Pm.
Let cm : mat := constraints Pm optv.
Let x : vec := production Pm stk optv.

Lemma c02_cons_eq p : (p < nS Pm)%nat -> get cm p f = cons p.
Proof. intro Hp. unfold cm, cons. rewrite c03_cons_get by assumption. ring. Qed.

Lemma c02_cons_nonneg p : (p < nS Pm)%nat -> 0 <= cons p.
Proof.
  intro Hp. unfold cons.
  apply Qc_mul_nonneg; [apply c02_mul3_nonneg|]; auto.
Qed.

Lemma c02_x_short : any_short Pm stk cm = true ->
  getv x f = minn (nS Pm) (fun p => getv optv f * ratio Pm stk cm p f) (getv optv f).
Proof.
  intro Hs. unfold x. rewrite c03_production_unfold. fold cm. rewrite Hs.
  rewrite getv_tab by exact Hf. apply c03_prod_min_unfold.
Qed.

Lemma c02_prod_caseA :
  (forall p, (p < nS Pm)%nat -> real_input Pm p f -> cons p <= get stk p f) ->
  getv x f = getv optv f.
Proof.
  intro HA. destruct (any_short Pm stk cm) eqn:Hs.
  - rewrite (c02_x_short Hs).
    rewrite (minn_ext _ _ (fun _ => getv optv f)); [apply minn_const|].
    intros p Hp.
    assert (Er : ratio Pm stk cm p f = 1).
    { destruct (c03_ratio_cases Pm stk cm p f) as [E1|[Hm [Hi [Hn Eq]]]]; [exact E1|].
      rewrite Eq. rewrite (c02_cons_eq p Hp) in *. apply qmin_le_l.
      apply c03_div_ge_1.
      - apply c03_nonneg_neq_pos; [apply c02_cons_nonneg; exact Hp|exact Hn].
      - apply HA; [exact Hp|split; assumption]. }
    rewrite Er. ring.
  - unfold x. rewrite c03_production_unfold. fold cm. rewrite Hs. reflexivity.
Qed.

Lemma c02_prod_caseB :
  (exists p, (p < nS Pm)%nat /\ real_input Pm p f /\ get stk p f < cons p) ->
  (forall p, (p < nS Pm)%nat -> real_input Pm p f -> cons p <> 0 ->
     getv x f <= getv optv f * (get stk p f / cons p)) /\
  (exists p, (p < nS Pm)%nat /\ real_input Pm p f /\ cons p <> 0 /\
     getv x f = getv optv f * (get stk p f / cons p)).
Proof.
  intros [p0 [Hp0 [[Hm0 Hi0] Hlt0]]].
  assert (Hs : any_short Pm stk cm = true).
  { unfold any_short. apply anyn_spec. exists p0. split; [exact Hp0|].
    apply anyn_spec. exists f. split; [exact Hf|].
    unfold short_cell. rewrite Hm0, Hi0. cbn [andb negb].
    rewrite (c02_cons_eq p0 Hp0).
    destruct (Qcltb_spec (get stk p0 f) (cons p0)) as [L|L]; [reflexivity|contradiction]. }
  pose proof (c02_x_short Hs) as Ex.
  assert (Hbound : forall p, (p < nS Pm)%nat -> real_input Pm p f -> cons p <> 0 ->
     getv x f <= getv optv f * (get stk p f / cons p)).
  { intros p Hp [Hm Hi] Hn.
    eapply Qcle_trans.
    - rewrite Ex. apply (minn_le (nS Pm) (fun p1 => getv optv f * ratio Pm stk cm p1 f)). exact Hp.
    - cbv beta. rewrite (c03_ratio_eligible Pm stk cm p f Hm Hi)
        by (rewrite (c02_cons_eq p Hp); exact Hn).
      rewrite (c02_cons_eq p Hp).
      apply c03_mul_le_l; [exact Hopt|apply qmin_r]. }
  split; [exact Hbound|].
  assert (Hs0 : 0 <= get stk p0 f) by (apply Hstk; assumption).
  assert (Hc0 : 0 < cons p0) by (eapply Qcle_lt_trans; eassumption).
  assert (Hoptpos : 0 < getv optv f).
  { apply c03_nonneg_neq_pos; [exact Hopt|]. intro E0.
    unfold cons in Hc0. rewrite E0 in Hc0.
    replace (invq Pm p0 * 0 * get (tech Pm) p0 f * psi Pm) with 0 in Hc0 by ring.
    exact (c02_lt_irrefl _ Hc0). }
  assert (Hxlt : getv x f < getv optv f).
  { apply (c02_lt_of_le_mul _ _ (get stk p0 f / cons p0)).
    - exact Hoptpos.
    - apply c02_div_lt_1; assumption.
    - apply Hbound; [exact Hp0|split; assumption|apply Qc_pos_neq0; exact Hc0]. }
  destruct (minn_attained (nS Pm) (fun p => getv optv f * ratio Pm stk cm p f) (getv optv f))
    as [Ed|[p [Hp Ep]]].
  - exfalso. rewrite <- Ex in Ed. rewrite Ed in Hxlt. exact (c02_lt_irrefl _ Hxlt).
  - rewrite <- Ex in Ep. cbv beta in Ep.
    destruct (c03_ratio_cases Pm stk cm p f) as [E1|[Hm [Hi [Hn Eq]]]].
    + exfalso. rewrite E1, c03_mul_1_r in Ep. rewrite Ep in Hxlt. exact (c02_lt_irrefl _ Hxlt).
    + destruct (qmin_cases 1 (get stk p f / get cm p f)) as [Q1|Q2].
      * exfalso. rewrite Eq, Q1, c03_mul_1_r in Ep. rewrite Ep in Hxlt.
        exact (c02_lt_irrefl _ Hxlt).
      * rewrite Eq, Q2 in Ep. rewrite (c02_cons_eq p Hp) in *.
        exists p. split; [exact Hp|]. split; [split; assumption|]. split; assumption.
Qed.

End Production.

(* no optimal production is positive: nothing is short, production = optimal production *)
Section ProductionNonpos.
Variable Pm : params.
Variables (stk : mat) (optv : vec).
Hypothesis Htech : forall p f, (p < nS Pm)%nat -> (f < NN Pm)%nat -> 0 <= get (tech Pm) p f.
Hypothesis Hpsi : 0 <= psi Pm.
Hypothesis Hinv : forall p, 0 <= invq Pm p.
Hypothesis Hstk : forall p f, (p < nS Pm)%nat -> (f < NN Pm)%nat -> isinf Pm p = false ->
  0 <= get stk p f.
Hypothesis Hopt : forall f, (f < NN Pm)%nat -> getv optv f <= 0.

Lemma c02_cons_nonpos p f : (p < nS Pm)%nat -> (f < NN Pm)%nat ->
  invq Pm p * getv optv f * get (tech Pm) p f * psi Pm <= 0.
Proof.
  intros Hp Hf.
  replace (invq Pm p * getv optv f * get (tech Pm) p f * psi Pm)
    with (getv optv f * (invq Pm p * get (tech Pm) p f * psi Pm)) by ring.
  apply c02_mul_nonpos_nonneg; [apply Hopt; exact Hf|].
  apply c02_mul3_nonneg; auto.
Qed.

Lemma c02_no_short : any_short Pm stk (constraints Pm optv) = false.
Proof.
  destruct (any_short Pm stk (constraints Pm optv)) eqn:Hs; [|reflexivity].
  exfalso. unfold any_short in Hs. apply anyn_spec in Hs. destruct Hs as [p [Hp Hs]].
  apply anyn_spec in Hs. destruct Hs as [f [Hf Hs]].
  unfold short_cell in Hs.
  apply andb_true_iff in Hs. destruct Hs as [Hs Hlt].
  apply andb_true_iff in Hs. destruct Hs as [Hm Hi].
  apply negb_true_iff in Hi.
  destruct (Qcltb_spec (get stk p f) (get (constraints Pm optv) p f)) as [L|L]; [|discriminate Hlt].
  rewrite c03_cons_get in L by assumption.
  pose proof (c02_cons_nonpos p f Hp Hf) as Hc.
  replace (getv optv f * get (tech Pm) p f * psi Pm * invq Pm p)
    with (invq Pm p * getv optv f * get (tech Pm) p f * psi Pm) in L by ring.
  pose proof (Hstk p f Hp Hf Hi) as H0.
  apply (c02_lt_irrefl 0).
  eapply Qcle_lt_trans; [exact H0|]. eapply Qclt_le_trans; [exact L|exact Hc].
Qed.

Lemma c02_prod_nonpos : production Pm stk optv = optv.
Proof. rewrite c03_production_unfold, c02_no_short. reflexivity. Qed.

End ProductionNonpos.

Lemma c02_clause_prod Pm s f : WFpre Pm s -> (f < NN Pm)%nat ->
  let r := econ_step Pm s in
  let cons p := invq Pm p * getv (q_opt r) f * get (tech Pm) p f * psi Pm in
  ((forall p, (p < nS Pm)%nat -> real_input Pm p f -> cons p <= get (p_stock s) p f) ->
     getv (q_prod r) f = getv (q_opt r) f) /\
  ((exists p, (p < nS Pm)%nat /\ real_input Pm p f /\ get (p_stock s) p f < cons p) ->
     (forall p, (p < nS Pm)%nat -> real_input Pm p f -> cons p <> 0 ->
        getv (q_prod r) f <= getv (q_opt r) f * (get (p_stock s) p f / cons p)) /\
     (exists p, (p < nS Pm)%nat /\ real_input Pm p f /\ cons p <> 0 /\
        getv (q_prod r) f = getv (q_opt r) f * (get (p_stock s) p f / cons p))).
Proof.
  intros WF Hf r cons. subst cons. unfold r. rewrite c02_q_prod.
  assert (Htech : forall p, (p < nS Pm)%nat -> 0 <= get (tech Pm) p f)
    by (intros p Hp; apply (wq_tech _ _ WF); assumption).
  assert (Hstk : forall p, (p < nS Pm)%nat -> isinf Pm p = false -> 0 <= get (p_stock s) p f)
    by (intros p Hp Hi; apply (wq_stock _ _ WF); assumption).
  assert (Hcase : (p_guard s = true -> 0 <= a_max Pm) \/ (p_guard s = true /\ a_max Pm < 0)).
  { destruct (p_guard s); [|left; discriminate].
    destruct (Qclt_le_dec (a_max Pm) 0) as [Hn|Hp]; [right; split; [reflexivity|exact Hn]|].
    left. intros _. exact Hp. }
  destruct Hcase as [HM|[Hg HM]].
  - pose proof (c02_opt_nonneg Pm s f WF Hf HM) as Hopt.
    split.
    + apply c02_prod_caseA; auto; try apply (wq_psi _ _ WF); try apply (wq_inv _ _ WF).
    + apply c02_prod_caseB; auto; try apply (wq_psi _ _ WF); try apply (wq_inv _ _ WF).
  - (* a negative maximum: every optimal production is non-positive, nothing is short *)
    assert (Hopt : forall f0, (f0 < NN Pm)%nat -> getv (q_opt (econ_step Pm s)) f0 <= 0)
      by (intros f0 Hf0; apply c02_opt_nonpos; assumption).
    split.
    + intros _. f_equal. apply c02_prod_nonpos.
      * intros p f0 Hp Hf0. apply (wq_tech _ _ WF); assumption.
      * apply (wq_psi _ _ WF).
      * apply (wq_inv _ _ WF).
      * intros p f0 Hp Hf0 Hi. apply (wq_stock _ _ WF); assumption.
      * exact Hopt.
    + intros [p [Hp [[Hm Hi] Hlt]]]. exfalso.
      apply (c02_lt_irrefl 0).
      eapply Qcle_lt_trans; [apply (Hstk p Hp Hi)|].
      eapply Qclt_le_trans; [exact Hlt|].
      apply (c02_cons_nonpos Pm (q_opt (econ_step Pm s))); try assumption.
      * intros p0 f0 Hp0 Hf0. apply (wq_tech _ _ WF); assumption.
      * apply (wq_psi _ _ WF).
      * apply (wq_inv _ _ WF).
Qed.

(* ------------------------------------------------------------------ *)
(* (4) rationing *)

Lemma c02_clause_del Pm s f j : (f < NN Pm)%nat -> (j < WW Pm (p_E s))%nat ->
  let r := econ_step Pm s in
  get (q_del r) f j =
    if Qceqb (tot (WW Pm (p_E s)) (p_dem s) f) 0 then 0
    else get (p_dem s) f j / tot (WW Pm (p_E s)) (p_dem s) f * getv (q_prod r) f.
Proof.
  intros Hf Hj r. unfold r. rewrite c02_q_del.
  rewrite get_deliver by assumption. reflexivity.
Qed.

(* ------------------------------------------------------------------ *)
(* (5) inventories *)

Lemma c02_clause_stock Pm s :
  let r := econ_step Pm s in
  let add p f := sumn (nR Pm) (fun rg => get (q_del r) (rg * nS Pm + p) f) in
  let use p f := getv (q_prod r) f * get (tech Pm) p f in
  (forall p f, (p < nS Pm)%nat -> (f < NN Pm)%nat ->
     get (q_stock r) p f = get (p_stock s) p f + add p f - use p f)
  \/
  ((forall p f, (p < nS Pm)%nat -> (f < NN Pm)%nat ->
      qabs (add p f - use p f) <= atol + rtol * qabs (use p f)) /\
   q_stock r = p_stock s).
Proof.
  intros r add use. subst add use. unfold r. rewrite c02_q_stock.
  set (del := q_del (econ_step Pm s)). set (x := q_prod (econ_step Pm s)).
  destruct (c05_accounting Pm (p_stock s) del x) as [Hcell [[_ Hupd]|[_ [Heq Hclose]]]].
  - left. intros p f Hp Hf. rewrite (Hupd p f Hp Hf).
    destruct (Hcell p f Hp Hf) as [Eu Ea]. rewrite Eu, Ea. ring.
  - right. split; [|exact Heq]. intros p f Hp Hf.
    pose proof (Hclose p f Hp Hf) as Hc.
    destruct (Hcell p f Hp Hf) as [Eu Ea]. rewrite Eu, Ea in Hc. exact Hc.
Qed.

(* ------------------------------------------------------------------ *)
(* (6) unmet final demand *)

Lemma c02_clause_unmet Pm s f : (f < NN Pm)%nat ->
  let r := econ_step Pm s in
  getv (q_unmet r) f
    = sumn (FF Pm) (fun c => get (p_dem s) f (NN Pm + c) - get (q_del r) f (NN Pm + c)).
Proof.
  intros Hf r. unfold r. rewrite c02_q_unmet. unfold unmet. apply getv_tab. exact Hf.
Qed.

(* ------------------------------------------------------------------ *)
Lemma c02_refines : C02_refines.
Proof.
  intros Pm s WF. unfold step_rel. cbv zeta.
  split; [|split; [|split; [|split; [|split]]]].
  - intros f Hf. apply c02_clause_alpha. exact Hf.
  - intros f Hf. apply c02_clause_cap. exact Hf.
  - intros f Hf. apply (c02_clause_prod Pm s f WF Hf).
  - intros f j Hf Hj. apply (c02_clause_del Pm s f j Hf Hj).
  - apply (c02_clause_stock Pm s).
  - intros f Hf. apply (c02_clause_unmet Pm s f Hf).
Qed.
Print Assumptions c02_refines.

(* ------------------------------------------------------------------ *)
(* C02_orders *)

Lemma c02_need_cases Pm stock' optv prodv p f : (p < nS Pm)%nat -> (f < NN Pm)%nat ->
  let nd := get (needs Pm stock' optv prodv) p f in
  nd = getv prodv f * get (tech Pm) p f
       + (if isinf Pm p then 0
          else nth p (rho Pm) 0 * qpos (invq Pm p * getv optv f * get (tech Pm) p f - get stock' p f))
  \/ (nd = getv prodv f * get (tech Pm) p f /\ goal_close Pm stock' optv = true).
Proof.
  intros Hp Hf nd. subst nd. rewrite c06_needs_get by assumption. unfold need, gap.
  destruct (goal_close Pm stock' optv) eqn:Egc.
  - right. split; [ring|reflexivity].
  - left. unfold goal. destruct (isinf Pm p); [ring|].
    replace (getv optv f * get (tech Pm) p f * invq Pm p)
      with (invq Pm p * getv optv f * get (tech Pm) p f) by ring.
    ring.
Qed.

Lemma c02_order_cell Pm stock' optv prodv capv p f rg :
  (p < nS Pm)%nat -> (f < NN Pm)%nat -> (rg < nR Pm)%nat ->
  get (orders Pm stock' optv prodv capv) (rg * nS Pm + p) f
  = get (needs Pm stock' optv prodv) p f * share Pm capv (rg * nS Pm + p) f.
Proof.
  intros Hp Hf Hrg. pose proof (c06_idx_lt Pm rg p Hrg Hp) as Hi.
  rewrite c06_orders_get by assumption. rewrite c06_idx_mod by exact Hp. reflexivity.
Qed.

Lemma c02_orders : C02_orders.
Proof.
  intros Pm stock' optv prodv capv HnS. unfold orders_rel. cbv zeta.
  intros p f Hp Hf.
  exists (get (needs Pm stock' optv prodv) p f). split.
  - apply c02_need_cases; assumption.
  - intros rg Hrg. rewrite c02_order_cell by assumption.
    unfold share. destruct (alt Pm).
    + unfold share_alt. cbv zeta. rewrite c06_idx_mod by exact Hp.
      unfold zcprod, zprod, cap_ratio.
      match goal with |- context [Qceqb ?d 0] => destruct (Qceqb d 0) end.
      * ring.
      * reflexivity.
    + reflexivity.
Qed.
Print Assumptions c02_orders.

(* ------------------------------------------------------------------ *)
(* C02_compose *)

Lemma c02_sumn_split a b g :
  sumn (a + b) g = sumn a g + sumn b (fun j => g (a + j)%nat).
Proof.
  induction b as [|b IH].
  - rewrite Nat.add_0_r. cbn [sumn]. ring.
  - replace (a + S b)%nat with (S (a + b)) by lia. cbn [sumn]. rewrite IH. ring.
Qed.

Lemma c02_events_now e s s1 r : events_phase e s = Some (s1, r) -> now s1 = now s.
Proof.
  unfold events_phase. cbv zeta. intro H.
  destruct (start (now s) (map (activate (dt e) (now s)) (trs s)) (nE (eco s))) as [trs2 E2].
  destruct (capital_exceeded (P e) (klost_of (NN (P e)) trs2)); [discriminate H|].
  injection H as H _. rewrite <- H. reflexivity.
Qed.

Lemma c02_rowtot_split n k d f g1 g2 :
  (forall j, (j < n)%nat -> get d f j = g1 j) ->
  (forall j, (j < k)%nat -> get d f (n + j) = g2 j) ->
  rowtot (n + k) d f = sumn n g1 + sumn k g2.
Proof.
  intros H1 H2. unfold rowtot. rewrite c02_sumn_split. f_equal; apply sumn_ext; assumption.
Qed.

Lemma c02_N_le_WW Pm E : (NN Pm <= WW Pm E)%nat.
Proof. unfold WW. lia. Qed.

Lemma c02_set_orders_lo e E d o i j : (i < NN (P e))%nat -> (j < NN (P e))%nat ->
  get (set_orders e E d o) i j = get o i j.
Proof.
  intros Hi Hj. unfold set_orders.
  rewrite get_tab2; [|exact Hi|pose proof (c02_N_le_WW (P e) E); lia].
  destruct (Nat.ltb_spec j (NN (P e))); [reflexivity|lia].
Qed.

Lemma c02_set_orders_hi e E d o i j : (i < NN (P e))%nat -> (NN (P e) + j < WW (P e) E)%nat ->
  get (set_orders e E d o) i (NN (P e) + j) = get d i (NN (P e) + j).
Proof.
  intros Hi Hj. unfold set_orders.
  rewrite get_tab2; [|exact Hi|exact Hj].
  destruct (Nat.ltb_spec (NN (P e) + j) (NN (P e))); [lia|reflexivity].
Qed.

Lemma c02_sub_rebuild_lo e E d del i j : (i < NN (P e))%nat -> (j < NN (P e))%nat ->
  get (sub_rebuild e E d del) i j = get d i j.
Proof.
  intros Hi Hj. unfold sub_rebuild.
  rewrite get_tab2; [|exact Hi|pose proof (c02_N_le_WW (P e) E); lia].
  destruct (Nat.ltb_spec j (NN (P e) + FF (P e))); [reflexivity|lia].
Qed.

Lemma c02_d3_lo e E E' d del (hi : nat -> nat -> Qc) (b : bool) i j :
  (i < NN (P e))%nat -> (j < NN (P e))%nat ->
  get (if b then sub_rebuild e E d del
       else tab2 (NN (P e)) (WW (P e) E')
              (fun f j0 => if Nat.ltb j0 (NN (P e) + FF (P e))
                           then get (sub_rebuild e E d del) f j0 else hi f j0)) i j
  = get d i j.
Proof.
  intros Hi Hj. destruct b.
  - apply c02_sub_rebuild_lo; assumption.
  - rewrite get_tab2; [|exact Hi|pose proof (c02_N_le_WW (P e) E'); lia].
    destruct (Nat.ltb_spec j (NN (P e) + FF (P e))); [|lia].
    apply c02_sub_rebuild_lo; assumption.
Qed.

(* the total demand the order module sees *)
Lemma c02_dtot_split e E' d1 d3 ords :
  (forall f j, (f < NN (P e))%nat -> (j < NN (P e))%nat -> get d3 f j = get d1 f j) ->
  dtot_of e E' d3 =
  tab (NN (P e)) (fun f =>
    sumn (NN (P e)) (fun j => get d1 f j)
    + sumn (WW (P e) E' - NN (P e))
        (fun j => get (set_orders e E' d3 ords) f (NN (P e) + j))).
Proof.
  intro Hlo. unfold dtot_of. apply tab_ext. intros f Hf.
  assert (HW : WW (P e) E' = (NN (P e) + (WW (P e) E' - NN (P e)))%nat)
    by (pose proof (c02_N_le_WW (P e) E'); lia).
  etransitivity; [apply (f_equal (fun w => rowtot w d3 f) HW)|].
  apply c02_rowtot_split.
  - intros j Hj. apply Hlo; assumption.
  - intros j Hj. symmetry. apply c02_set_orders_hi; [exact Hf|lia].
Qed.

Lemma c02_compose : C02_compose.
Proof.
  intros e s s' o Hstep. unfold step in Hstep.
  destruct (events_phase e s) as [[s1 r]|] eqn:Hev; [|discriminate Hstep].
  exists s1, r. split; [reflexivity|].
  pose proof (c02_events_now e s s1 r Hev) as Hnow.
  cbv zeta in Hstep.
  destruct (cap_negative _ _) in Hstep; [discriminate Hstep|].
  destruct (distribute_crash _ _ _ _) in Hstep; [discriminate Hstep|].
  destruct (existsb _ _) in Hstep; [discriminate Hstep|].
  destruct (any_negative _ _ _) in Hstep; [discriminate Hstep|].
  injection Hstep as Hs' _. rewrite <- Hs'. clear Hs' s'.
  cbn [eco alpha prod stock unmetv delta dem nE now].
  split; [reflexivity|]. split; [reflexivity|]. split; [reflexivity|].
  split; [reflexivity|]. split; [reflexivity|].
  split; [|rewrite Hnow; reflexivity].
  intros i j Hi Hj.
  match goal with |- context [set_orders e ?E _ _] => set (E' := E) end.
  match goal with |- context [set_orders e E' ?d _] => set (d3 := d) end.
  match goal with |- context [set_orders e E' d3 ?o] => set (ords := o) end.
  rewrite c02_set_orders_lo by assumption.
  rewrite <- (c02_dtot_split e E' (dem (eco s1)) d3 ords).
  - reflexivity.
  - intros f0 j0 Hf0 Hj0. unfold d3.
    match goal with
    | |- get (if _ then _ else tab2 _ _ (fun f j => if _ then _ else @?h f j)) _ _ = _ =>
        apply (c02_d3_lo e _ _ _ _ h); assumption
    end.
Qed.
Print Assumptions c02_compose.
