(* Proofs/C16Proofs.v - C16: the loop is the iteration of the step (records), and the
   run-level part of C05 (stocks stay non-negative, the loop stops at a crash). *)
Require Import Boario.Base.QcLib Boario.Base.Vec Boario.Model.Econ Boario.Model.Init
  Boario.Model.Events Boario.Model.Sim Boario.Model.RecoveryFns Boario.Model.InitSim
  Boario.Spec.Statements Boario.Spec.StatementsRun Boario.Proofs.C05Proofs.
Open Scope Qc_scope.
Open Scope nat_scope.

(* ---- what the events phase keeps ---- *)
Lemma c16_events_keep e s s1 r : events_phase e s = Some (s1, r) ->
  now s1 = now s /\ stock (eco s1) = stock (eco s).
Proof.
  unfold events_phase. cbv zeta. intro H.
  destruct (start (now s) (map (activate (dt e) (now s)) (trs s)) (nE (eco s))) as [trs2 E2].
  destruct (capital_exceeded (P e) (klost_of (NN (P e)) trs2)); [discriminate H|].
  injection H as H _. rewrite <- H. cbn [now eco stock]. split; reflexivity.
Qed.

(* ---- the shape of an Ok step ---- *)
Lemma c16_step_ok_shape e s s' o : step e s = (Ok s', o) ->
  exists s1 r add use,
    events_phase e s = Some (s1, r) /\
    (exists ob, o = Some ob) /\
    now s' = now s1 + dt e /\
    stock (eco s') = stock_update (P e) (stock (eco s1)) add use /\
    distribute_crash (P e) (stock (eco s1)) add use = false.
Proof.
  intro H. unfold step in H.
  destruct (events_phase e s) as [[s1 r]|]; [|discriminate H].
  exists s1, r. cbv zeta in H.
  destruct (cap_negative _ _) in H; [discriminate H|].
  match type of H with
  | context [if distribute_crash ?a ?b ?c ?d then _ else _] =>
      destruct (distribute_crash a b c d) eqn:Ec; [discriminate H|exists c, d]
  end.
  destruct (existsb _ _) in H; [discriminate H|].
  destruct (any_negative _ _ _) in H; [discriminate H|].
  split; [reflexivity|].
  injection H as H Ho. rewrite <- H. cbn [now eco stock].
  split; [eexists; symmetry; exact Ho|].
  split; [reflexivity|]. split; [reflexivity|exact Ec].
Qed.

Lemma c16_step_ok_some e s s' o : step e s = (Ok s', o) -> exists ob, o = Some ob.
Proof.
  intro H. destruct (c16_step_ok_shape e s s' o H) as [s1 [r [add [use [_ [Ho _]]]]]]. exact Ho.
Qed.

Lemma c16_step_ok_now e s s' o : step e s = (Ok s', o) -> now s' = now s + dt e.
Proof.
  intro H. destruct (c16_step_ok_shape e s s' o H) as [s1 [r [add [use [Hev [_ [Hn _]]]]]]].
  apply c16_events_keep in Hev. destruct Hev as [Hev _]. rewrite Hn, Hev. reflexivity.
Qed.

(* ---- C16_compose ---- *)
Lemma c16_compose : C16_compose.
Proof.
  intros e a. induction a as [|a IH]; intros b s.
  - change (0 + b) with b. cbn [run]. destruct (run e b s) as [r os2]. reflexivity.
  - change (S a + b) with (S (a + b)). cbn [run].
    destruct (step e s) as [[s1|s1|er s1] [o|]]; try reflexivity.
    + rewrite IH. destruct (run e a s1) as [[s2|s2|er s2] os1]; try reflexivity.
      destruct (run e b s2) as [r os2]. reflexivity.
    + apply IH.
Qed.
Print Assumptions c16_compose.

(* ---- C16_length ---- *)
Lemma c16_length : C16_length.
Proof.
  intros e k. induction k as [|k IH]; intros s s' os H.
  - cbn [run] in H. injection H as H1 H2. subst. cbn [length]. split; [reflexivity|lia].
  - cbn [run] in H.
    destruct (step e s) as [[s1|s1|er s1] [o|]] eqn:Es; try discriminate H.
    + destruct (run e k s1) as [r os'] eqn:Er.
      injection H as H1 H2. subst r os.
      destruct (IH s1 s' os' Er) as [Hl Hn].
      apply c16_step_ok_now in Es.
      cbn [length]. split; [lia|]. rewrite Hn, Es. lia.
    + apply c16_step_ok_some in Es. destruct Es as [ob Es]. discriminate Es.
Qed.
Print Assumptions c16_length.

(* ---- one more step ---- *)
Lemma c16_run1_len e s : length (snd (run e 1 s)) <= 1.
Proof.
  cbn [run]. destruct (step e s) as [[s1|s1|er s1] [o|]]; cbn [snd length]; lia.
Qed.

Lemma c16_prefix : C16_prefix.
Proof.
  intros e k s. replace (S k) with (k + 1) by lia.
  rewrite (c16_compose e k 1 s).
  destruct (run e k s) as [[s1|s1|er s1] os1].
  - pose proof (c16_run1_len e s1) as Hl.
    destruct (run e 1 s1) as [r os2]. cbn [snd] in *.
    exists os2. split; [reflexivity|exact Hl].
  - exists []. cbn [snd length]. split; [rewrite app_nil_r; reflexivity|lia].
  - exists []. cbn [snd length]. split; [rewrite app_nil_r; reflexivity|lia].
Qed.
Print Assumptions c16_prefix.

(* ---- the first row written by a run of at least one step ---- *)
Lemma c16_run_head e m st : nth_error (snd (run e (S m) st)) 0 = snd (step e st).
Proof.
  cbn [run]. destruct (step e st) as [[s1|s1|er s1] [o|]] eqn:Es; cbn [snd]; try reflexivity.
  - destruct (run e m s1) as [r os]. reflexivity.
  - apply c16_step_ok_some in Es. destruct Es as [ob Es]. discriminate Es.
Qed.

Lemma c16_rows : C16_rows.
Proof.
  intros e k t s st os1 Hlt H.
  destruct (c16_length e t s st os1 H) as [Hl _].
  split; [exact Hl|].
  replace k with (t + S (k - t - 1)) by lia.
  rewrite (c16_compose e t (S (k - t - 1)) s), H.
  pose proof (c16_run_head e (k - t - 1) st) as Hh.
  destruct (run e (S (k - t - 1)) st) as [r os2]. cbn [snd] in *.
  rewrite nth_error_app2 by lia. rewrite Hl, Nat.sub_diag. exact Hh.
Qed.
Print Assumptions c16_rows.

(* ---- C05 over runs ---- *)
Lemma c05_nonneg_step : C05_nonneg_step.
Proof.
  intros e s s' o Hs H.
  destruct (c16_step_ok_shape e s s' o H) as [s1 [r [add [use [Hev [_ [_ [Hst Hc]]]]]]]].
  apply c16_events_keep in Hev. destruct Hev as [_ Hev].
  intros p f Hp Hf Hinf. rewrite Hst.
  unfold distribute_crash in Hc.
  apply orb_false_iff in Hc. destruct Hc as [_ Hc].
  apply andb_false_iff in Hc. destruct Hc as [Hc|Hc].
  - apply negb_false_iff in Hc. unfold stock_update. rewrite Hc, Hev.
    apply Hs; assumption.
  - apply Qcnot_lt_le. intro Hneg.
    assert (Ht : stock_negative (P e) (stock_update (P e) (stock (eco s1)) add use) = true).
    { apply c05_stock_negative_spec. exists p, f. repeat split; assumption. }
    rewrite Ht in Hc. discriminate Hc.
Qed.
Print Assumptions c05_nonneg_step.

Lemma c05_nonneg_run : C05_nonneg_run.
Proof.
  intros e k. induction k as [|k IH]; intros s s' os Hs H.
  - cbn [run] in H. injection H as H1 H2. subst. exact Hs.
  - cbn [run] in H.
    destruct (step e s) as [[s1|s1|er s1] [o|]] eqn:Es; try discriminate H.
    + destruct (run e k s1) as [r os'] eqn:Er.
      injection H as H1 H2. subst r.
      apply (IH s1 s' os'); [|exact Er].
      eapply c05_nonneg_step; [exact Hs|exact Es].
    + apply (IH s1 s' os); [|exact H].
      eapply c05_nonneg_step; [exact Hs|exact Es].
Qed.
Print Assumptions c05_nonneg_run.

Lemma c05_stops : C05_stops.
Proof.
  intros e a b s s1 os H. rewrite (c16_compose e a b s), H. reflexivity.
Qed.
Print Assumptions c05_stops.
