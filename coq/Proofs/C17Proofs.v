(* Proofs/C17Proofs.v - default output directories are pairwise distinct iff the default
   is created per call. *)
From Coq Require Import List Arith Lia.
Import ListNotations.
Require Import Boario.Model.Process.

Lemma fold_max_ge l x : In x l -> x <= fold_right Nat.max 0 l.
Proof.
  induction l as [|a l IH]; intro H; [inversion H|].
  cbn [fold_right]. destruct H as [->|H]; [lia|]. specialize (IH H). lia.
Qed.
Lemma fresh_not_used p : ~ In (fresh_name p) (used p).
Proof. intro H. apply fold_max_ge in H. unfold fresh_name in H. lia. Qed.

(* invariant: every directory handed out so far is recorded in [used] *)
Lemma new_sims_percall imp k : forall p ds p',
  new_sims PerCall imp k p = (ds, p') ->
  NoDup ds /\ (forall d, In d ds -> ~ In d (used p)) /\ (forall d, In d (used p) \/ In d ds -> In d (used p')).
Proof.
  induction k as [|k IH]; intros p ds p' H; cbn [new_sims] in H.
  - inversion H; subst. repeat split; [constructor|intros d []|intros d [Hd|[]]; exact Hd].
  - cbn [new_sim mkdtemp] in H.
    destruct (new_sims PerCall imp k {| used := fresh_name p :: used p |}) as [ds1 p1] eqn:E.
    inversion H; subst. destruct (IH _ _ _ E) as [ND [Hfresh Hrec]]. cbn [used] in *.
    repeat split.
    + constructor; [|exact ND]. intro Hin. apply (Hfresh _ Hin). left. reflexivity.
    + intros d [<-|Hd]; [apply fresh_not_used|]. intro Hu. apply (Hfresh _ Hd). right. exact Hu.
    + intros d [Hd|[<-|Hd]]; apply Hrec; [left; right; exact Hd|left; left; reflexivity|right; exact Hd].
Qed.

Theorem c17_paths_percall : forall imp k p ds p',
  new_sims PerCall imp k p = (ds, p') -> NoDup ds.
Proof. intros imp k p ds p' H. exact (proj1 (new_sims_percall imp k p ds p' H)). Qed.

(* with a default evaluated at import, already two simulations share their directory *)
Theorem c17_paths_atimport_refuted : forall imp p,
  exists ds p', new_sims AtImport imp 2 p = (ds, p') /\ ~ NoDup ds.
Proof.
  intros imp p. exists [imp; imp], p. split; [reflexivity|].
  intro H. inversion H as [|x l Hn _]; subst. apply Hn. left. reflexivity.
Qed.

(* an explicit directory is used as given *)
Theorem c17_explicit : forall shape imp d p, new_sim shape imp (Some d) p = (d, p).
Proof. reflexivity. Qed.
