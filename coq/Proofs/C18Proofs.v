(* Proofs/C18Proofs.v - the model variants coincide. *)
Require Import Boario.Base.QcLib Boario.Base.Vec Boario.Model.Econ Boario.Model.EconBase Boario.Spec.Statements.
Open Scope Qc_scope.

(* ---- helpers: psi = 1, rho = 1 ---- *)

Lemma c18_constraints_eq P xv :
  psi P = 1 -> constraints P xv = constraints_base P xv.
Proof.
  intro Hpsi. unfold constraints, constraints_base. apply tab2_ext.
  intros p f _ _. rewrite Hpsi. ring.
Qed.

Lemma c18_gap_eq P gc stock optv p f :
  nth p (rho P) 0 = 1 -> gap P gc stock optv p f = gap_base P gc stock optv p f.
Proof.
  intro Hrho. unfold gap, gap_base. destruct gc; [reflexivity|].
  destruct (isinf P p); [reflexivity|]. rewrite Hrho. ring.
Qed.

Lemma c18_needs_eq P stock optv prodv :
  (forall p, (p < nS P)%nat -> nth p (rho P) 0 = 1) ->
  needs P stock optv prodv = needs_base P stock optv prodv.
Proof.
  intro Hrho. unfold needs, needs_base. apply tab2_ext.
  intros p f Hp _. unfold need. rewrite c18_gap_eq by (apply Hrho; exact Hp). reflexivity.
Qed.

Lemma c18_psi1 : C18_psi1.
Proof.
  unfold C18_psi1. intros P Hpsi Hrho. split; [|split; [|split]].
  - intro xv. apply c18_constraints_eq. exact Hpsi.
  - intros gc stock optv p f Hp. apply c18_gap_eq. apply Hrho. exact Hp.
  - intros stock optv. unfold production, production_base.
    rewrite (c18_constraints_eq P optv Hpsi). reflexivity.
  - intros stock optv prodv capv. unfold orders, orders_base.
    rewrite (c18_needs_eq P stock optv prodv Hrho). reflexivity.
Qed.
Print Assumptions c18_psi1.

(* ---- helpers: capacity-weighted shares under a uniform capacity ratio ---- *)

Lemma c18_mod_idx r n p : (p < n)%nat -> ((r * n + p) mod n = p)%nat.
Proof.
  intro Hp. rewrite Nat.add_comm. rewrite Nat.mod_add by lia. apply Nat.mod_small. exact Hp.
Qed.

Lemma c18_idx_lt r p nr ns : (r < nr)%nat -> (p < ns)%nat -> (r * ns + p < nr * ns)%nat.
Proof. intros Hr Hp. nia. Qed.

Lemma c18_zcprod_scale P capv c p j :
  (forall r, (r < nR P)%nat -> get (Z0 P) (r * nS P + p) j <> 0 ->
             cap_ratio P capv (r * nS P + p) = c) ->
  zcprod P capv p j = ZC0 P p j * c.
Proof.
  intro Hc. unfold zcprod, ZC0, zprod. rewrite <- sumn_scale_r.
  apply sumn_ext. intros r Hr.
  destruct (Qceqb_spec (get (Z0 P) (r * nS P + p) j) 0) as [E|E].
  - rewrite E. ring.
  - rewrite (Hc r Hr E). reflexivity.
Qed.

Lemma c18_alt_noalt : C18_alt_noalt.
Proof.
  unfold C18_alt_noalt. intros P capv c p j Hzd Hp Hj Hc0 Hc r Hr.
  assert (Hi : (r * nS P + p < NN P)%nat) by (unfold NN; apply c18_idx_lt; assumption).
  rewrite (Hzd _ _ Hi Hj). unfold share_alt.
  rewrite (c18_mod_idx r (nS P) p Hp).
  rewrite (c18_zcprod_scale P capv c p j Hc).
  destruct (Qceqb_spec (ZC0 P p j) 0) as [Z|Z].
  - rewrite Z.
    destruct (Qceqb_spec (0 * c) 0) as [_|W]; [reflexivity|].
    exfalso. apply W. ring.
  - destruct (Qceqb_spec (ZC0 P p j * c) 0) as [W|W].
    + exfalso. apply Qcmult_integral in W. destruct W; contradiction.
    + unfold zprod.
      destruct (Qceqb_spec (get (Z0 P) (r * nS P + p) j) 0) as [E|E].
      * rewrite E. field. split; assumption.
      * rewrite (Hc r Hr E). field. split; assumption.
Qed.
Print Assumptions c18_alt_noalt.
