(* Spec/StatementsInit.v - C20, first link of the chain: what the constructors accept is
   well-formed.  A valid table and configuration give well-formed parameters and a well-formed
   initial state; an event inside the documented domain gives a well-formed, fresh tracker
   (pending, without id); the built-in recovery curves keep damages non-negative and capacity
   losses within [0, 1].  With C20_wf_run / C20_obs (Spec/StatementsWF.v) every quantity computed
   along any history of an accepted input is then a non-negative rational within its bounds. *)
Require Import Boario.Base.QcLib Boario.Base.Vec Boario.Model.Econ Boario.Model.Init
  Boario.Model.Events Boario.Model.Sim Boario.Model.Tracker Boario.Model.Create
  Boario.Model.RecoveryFns Boario.Model.InitSim
  Boario.Spec.Statements Boario.Spec.StatementsEv Boario.Spec.StatementsRun Boario.Spec.StatementsWF.
Open Scope Qc_scope.
Open Scope nat_scope.

(* an event inside the documented domain *)
Record event_ok (v : evspec) : Prop := {
  eo_tau : (0 < v_tau v)%Qc;
  eo_phi : (0 < v_phi v)%Qc;
  eo_eps : (0 < v_eps v)%Qc;
  eo_impact : vec_nonneg (v_impact v);
  eo_arb : v_kind v = KArb -> vec_le1 (v_impact v);
  eo_house : forall h, v_house v = Some h -> vec_nonneg h;
  eo_shares : forall p, In p (v_shares v) -> (0 <= snd p)%Qc;
  eo_rf : forall n init, vec_nonneg init -> vec_nonneg (v_rf v n init);
  eo_rf1 : forall n init, vec_nonneg init -> vec_le1 init -> vec_le1 (v_rf v n init)
}.

Definition fresh (tr : tracker) : Prop := st tr = Pending /\ rid tr = None.

(* EventTracker.__init__ *)
Definition C20_wf_create : Prop :=
  forall (nr ns nc : nat) (Zy Yy : mat) (mu : Qc) (v : evspec) (tr : tracker),
  (0 < mu)%Qc -> mat_nonneg Zy -> mat_nonneg Yy -> event_ok v ->
  create nr ns nc Zy Yy mu v = Some tr ->
  tracker_ok tr /\ fresh tr /\ occ tr = v_occ v /\ dur tr = v_dur v /\ kind tr = v_kind v.

Definition C20_wf_create_all : Prop :=
  forall (nr ns nc : nat) (Zy Yy : mat) (mu : Qc) (l : list evspec) (trs : list tracker),
  (0 < mu)%Qc -> mat_nonneg Zy -> mat_nonneg Yy -> Forall event_ok l ->
  create_all nr ns nc Zy Yy mu l = Some trs ->
  length trs = length l /\ Forall tracker_ok trs /\ Forall fresh trs.

(* ARIOBaseModel / ARIOPsiModel / Simulation constructors *)
Definition C20_wf_init : Prop :=
  forall (T : table) (C : config) (dtn : nat) (pr : Z) (l : list tracker),
  valid_table T -> valid_cfg T C -> 0 < dtn -> 0 < t_nS T ->
  Forall tracker_ok l -> Forall fresh l ->
  let e := {| P := init_params T C; dt := dtn; prec := pr |} in
  WFP e /\ WF e (init_sim T C l).

(* the built-in recovery curves (tau a positive number of temporal units) *)
Definition C20_builtin_rf : Prop :=
  forall (tau e : nat) (init : vec), 0 < tau -> vec_nonneg init ->
  (vec_nonneg (linear_rec tau e init) /\ vec_nonneg (convexe_rec tau e init) /\
   vec_nonneg (convexe_scaled_rec tau e init)) /\
  (vec_le1 init ->
   vec_le1 (linear_rec tau e init) /\ vec_le1 (convexe_rec tau e init) /\
   vec_le1 (convexe_scaled_rec tau e init)).

(* the whole chain: accepted input -> everything recorded along any run is within bounds *)
Definition C20_accepted_run : Prop :=
  forall (T : table) (C : config) (dtn : nat) (pr : Z) (mu : Qc) (evs : list evspec)
         (trs0 : list tracker) (k : nat) (s' : sim) (os : list obs),
  valid_table T -> valid_cfg T C -> 0 < dtn -> 0 < t_nS T -> (0 < mu)%Qc ->
  Forall event_ok evs ->
  create_all (t_nR T) (t_nS T) (t_nC T) (t_Z T) (t_Y T) mu evs = Some trs0 ->
  let e := {| P := init_params T C; dt := dtn; prec := pr |} in
  run e k (init_sim T C trs0) = (Ok s', os) -> WF e s'.
