(* Spec/StatementsEv.v - statements of the event-side property theorems
   (C07 C08 C09 C10 C11 C13).  Props/Cxx.v prove exactly these. *)
Require Import Boario.Base.QcLib Boario.Base.Vec Boario.Model.Econ Boario.Model.Events
  Boario.Model.Sim Boario.Model.Tracker Boario.Model.RecoveryFns.
From Coq Require Import Permutation.
Open Scope Qc_scope.
Open Scope nat_scope.

(* ================================================================== *)
(* C07 - capacity loss = share of capital destroyed                     *)
Definition cap_contrib (tr : tracker) (f : nat) : Qc :=
  match (if active_capital tr then dmg tr else None) with Some v => getv v f | None => 0%Qc end.
Definition arb_contrib (tr : tracker) (f : nat) : Qc :=
  match (if active_arb tr then arb tr else None) with Some v => getv v f | None => 0%Qc end.
Definition sum_list (l : list Qc) : Qc := fold_right Qcplus 0%Qc l.
Definition max_list (l : list Qc) : Qc := fold_right qmax 0%Qc l.

Definition C07_formula : Prop :=
  forall (P : params) (trs : list tracker) (f : nat), f < NN P ->
  let kl := klost_of (NN P) trs in
  let ar := arb_of (NN P) trs in
  getv kl f = sum_list (map (fun tr => cap_contrib tr f) trs) /\
  getv ar f = max_list (map (fun tr => arb_contrib tr f) trs) /\
  getv (delta_of P kl ar) f =
    qmax (if Qceqb (getv (K P) f) 0 then 0 else getv kl f / getv (K P) f)%Qc (getv ar f).

Definition C07_range : Prop :=
  forall (P : params) (trs : list tracker),
  (forall f, f < NN P -> (0 <= getv (K P) f)%Qc) ->
  (forall tr f, In tr trs -> (0 <= cap_contrib tr f)%Qc /\ (0 <= arb_contrib tr f)%Qc /\ (arb_contrib tr f <= 1)%Qc) ->
  capital_exceeded P (klost_of (NN P) trs) = false ->
  forall f, f < NN P ->
    let d := getv (delta_of P (klost_of (NN P) trs) (arb_of (NN P) trs)) f in
    (0 <= d)%Qc /\ (d <= 1)%Qc.

Definition C07_support : Prop :=
  forall (P : params) (trs : list tracker) (f : nat), f < NN P ->
  (forall tr, In tr trs -> cap_contrib tr f = 0%Qc /\ arb_contrib tr f = 0%Qc) ->
  getv (delta_of P (klost_of (NN P) trs) (arb_of (NN P) trs)) f = 0%Qc.

Definition C07_reject : Prop :=
  forall (P : params) (kl : vec),
  capital_exceeded P kl = true <-> exists f, f < NN P /\ (getv (K P) f < getv kl f)%Qc.

(* aggregates do not depend on the order in which events were added (C11) *)
Definition C07_perm : Prop :=
  forall (n : nat) (trs trs' : list tracker), Permutation trs trs' ->
  klost_of n trs = klost_of n trs' /\ arb_of n trs = arb_of n trs'.

(* ================================================================== *)
(* C10 - schedule                                                       *)
Definition C10_activate : Prop :=
  forall (dt t : nat) (tr : tracker),
  rank (st tr) <= rank (st (activate dt t tr)) /\
  (st tr = Pending -> t < occ tr -> activate dt t tr = tr) /\
  (st tr = Pending -> occ tr <= t -> t - dt <= occ tr -> st (activate dt t tr) = Happening) /\
  (st tr <> Pending -> activate dt t tr = tr).

Definition C10_start : Prop :=
  forall (t : nat) (trs : list tracker) (n : nat),
  length (fst (start t trs n)) = length trs /\
  forall i a, nth_error trs i = Some a ->
    exists b, nth_error (fst (start t trs n)) i = Some b /\
      rank (st a) <= rank (st b) /\
      (st a = Happening -> occ a + dur a <= t ->
         st b = (match kind a with KRebuild => Rebuilding | _ => Recovering end)) /\
      (st a = Happening -> t < occ a + dur a -> b = a) /\
      (st a <> Happening -> b = a).

Definition C10_ledgers_monotone : Prop :=
  forall (P : params) (prec : Z) (E t : nat) (rp : mat) (tr : tracker),
  rank (st tr) <= rank (st (receive P prec E rp tr)) /\
  rank (st tr) <= rank (st (recover1 prec t tr)).

Definition C10_step_monotone : Prop :=
  forall (e : env) (s s' : sim) (o : option obs),
  step e s = (Ok s', o) ->
  Forall2 (fun a b => rank (st a) <= rank (st b)) (trs s) (trs s').

(* before the earliest occurrence the step is the event-free step *)
Definition all_later (t : nat) (l : list tracker) : Prop :=
  Forall (fun tr => st tr = Pending /\ t < occ tr) l.
Definition strip (s : sim) : sim := {| eco := eco s; trs := []; now := now s |}.
Definition same_eco (a b : outcome * option obs) : Prop :=
  snd a = snd b /\
  match fst a, fst b with
  | Ok x, Ok y => eco x = eco y /\ now x = now y
  | Crash x, Crash y => eco x = eco y /\ now x = now y
  | Error e1 x, Error e2 y => e1 = e2 /\ eco x = eco y
  | _, _ => False
  end.
Definition C10_prefix : Prop :=
  forall (e : env) (s : sim), all_later (now s) (trs s) ->
  same_eco (step e s) (step e (strip s)) /\
  (forall s' o, step e s = (Ok s', o) -> trs s' = trs s).

(* events registered while the simulation is running: whatever the interleaving of steps and
   registrations, the events already registered keep their place and never go backwards *)
Definition C10_session : Prop :=
  forall (e : env) (ops : list op) (s s' : sim),
  session e ops s = Ok s' ->
  length (trs s) <= length (trs s') /\
  Forall2 (fun a b => rank (st a) <= rank (st b)) (trs s) (firstn (length (trs s)) (trs s')).

(* registering an event before it occurs, at any moment, is the same as having registered it
   from the start: a step commutes with the registration of events that are still to come.
   Freshly created trackers are pending and hold no rebuilding id (obligation reg.fresh); without
   [rid = None] the statement is false (a pending tracker holding the id of an active event would
   overwrite its demand block: refuted in Proofs/C10SessionProofs.v). *)
Definition C10_late_registration : Prop :=
  forall (e : env) (s : sim) (new : list tracker),
  all_later (now s) new -> Forall (fun tr => rid tr = None) new ->
  (forall s' o, step e s = (Ok s', o) -> step e (register s new) = (Ok (register s' new), o)) /\
  (forall s' o, step e s = (Crash s', o) -> step e (register s new) = (Crash (register s' new), o)) /\
  (forall x s' o, step e s = (Error x s', o) -> step e (register s new) = (Error x (register s' new), o)).
(* the same statement without the hypothesis on the ids (kept to document why it is needed) *)
Definition C10_late_registration_any_id : Prop :=
  forall (e : env) (s : sim) (new : list tracker),
  all_later (now s) new ->
  (forall s' o, step e s = (Ok s', o) -> step e (register s new) = (Ok (register s' new), o)).

(* ================================================================== *)
(* C08 - reconstruction demand                                          *)
Definition quantum (prec : Z) : Qc := pow10 (- prec).

Definition C08_ledger_cell : Prop :=
  forall (prec : Z) (r d : Qc),
  (0 <= ledger_cell prec r d)%Qc /\
  ((0 <= r - d)%Qc -> (qabs (ledger_cell prec r d - (r - d)) <= quantum prec / Qc_of_Z 2)%Qc) /\
  ((r - d < 0)%Qc -> ledger_cell prec r d = 0%Qc).

(* a remaining demand that is a multiple of the quantum never increases *)
Definition C08_ledger_monotone : Prop :=
  forall (prec : Z) (r d : Qc) (z : Z),
  r = (Qc_of_Z z * quantum prec)%Qc -> (0 <= d)%Qc -> (0 <= r)%Qc ->
  (ledger_cell prec r d <= r)%Qc /\
  exists z', ledger_cell prec r d = (Qc_of_Z z' * quantum prec)%Qc.

Definition C08_receive : Prop :=
  forall (P : params) (prec : Z) (E : nat) (rp : mat) (tr : tracker) (id : nat),
  rid tr = Some id -> st tr <> Finished ->
  let N := NN P in let F := FF P in
  let tr' := receive P prec E rp tr in
  (forall m, rem_i tr = Some m ->
     let m' := tab2 N N (fun f j => ledger_cell prec (get m f j) (get rp f (N * id + j))) in
     (all_zero_m m' = true -> rem_i tr' = None /\ dmg tr' = None) /\
     (all_zero_m m' = false ->
        rem_i tr' = Some m' /\
        dmg tr' = Some (tab N (fun j => sumn N (fun i => get m' i j) / phi tr)%Qc))) /\
  (forall m, rem_h tr = Some m ->
     let m' := tab2 N F (fun f j => ledger_cell prec (get m f j) (get rp f (N * E + F * id + j))) in
     (all_zero_m m' = true -> rem_h tr' = None /\ hdmg tr' = None) /\
     (all_zero_m m' = false ->
        rem_h tr' = Some m' /\
        hdmg tr' = Some (tab F (fun j => sumn N (fun i => get m' i j) / phi tr)%Qc))) /\
  (rem_i tr = None -> rem_i tr' = None /\ dmg tr' = dmg tr) /\
  (rem_h tr = None -> rem_h tr' = None /\ hdmg tr' = hdmg tr) /\
  (st tr' = Finished <-> (dmg tr' = None /\ hdmg tr' = None)).

(* the demand presented to producers is remaining demand x dt / tau, in the event's own block *)
Definition C08_presented : Prop :=
  forall (P : params) (dtq : Qc) (E : nat) (trs : list tracker) (tr : tracker) (id f j : nat),
  In tr trs -> rid tr = Some id -> id < E ->
  (forall tr', In tr' trs -> rid tr' = Some id -> tr' = tr) ->
  let N := NN P in let F := FF P in
  (j < N -> forall m, rem_i tr = Some m ->
     reb_cell P dtq E trs f (N * id + j) = (get m f j * (dtq / tau tr))%Qc) /\
  (j < F -> forall m v, rem_h tr = Some m -> hdmg tr = Some v ->
     reb_cell P dtq E trs f (N * E + F * id + j) = (get m f j * (dtq / tau tr))%Qc).

(* creation: split among the rebuilding sectors in the declared shares, total conserved *)
Definition C08_creation : Prop :=
  forall (nr ns W : nat) (flows : mat) (shares : list (nat * Qc)) (phi : Qc) (imp : vec) (m : mat),
  mk_rem nr ns flows W shares phi imp = Some m ->
  forall k j, k < ns -> j < W ->
    sumn nr (fun r => get m (r * ns + k) j) = (share_of shares k * getv imp j * phi)%Qc.
Definition C08_creation_total : Prop :=
  forall (nr ns W : nat) (flows : mat) (shares : list (nat * Qc)) (phi : Qc) (imp : vec) (m : mat),
  mk_rem nr ns flows W shares phi imp = Some m ->
  sumn ns (fun k => share_of shares k) = 1%Qc ->
  forall j, j < W ->
    sumn (nr * ns) (fun i => get m i j) = (getv imp j * phi)%Qc.
Definition C08_creation_rejects : Prop :=
  forall (nr ns W : nat) (flows : mat) (shares : list (nat * Qc)) (phi : Qc) (imp : vec),
  mk_rem nr ns flows W shares phi imp = None <->
  exists p j, In p shares /\ j < W /\ getv imp j <> 0%Qc /\ colsec nr ns flows (fst p) j = 0%Qc.

(* ================================================================== *)
(* C13 - the same event in another monetary unit gives the same tracker data *)
Definition C13_conversion : Prop :=
  forall (eps eps' mu : Qc) (v : vec), eps' <> 0%Qc -> mu <> 0%Qc ->
  conv eps' mu (map (fun x => x * (eps / eps'))%Qc v) = conv eps mu v.

(* ================================================================== *)
(* C09 - recovery                                                       *)
Definition C09_recover : Prop :=
  forall (prec : Z) (t : nat) (tr : tracker),
  let e := t - (occ tr + dur tr) in
  let tr' := recover1 prec t tr in
  (kind tr = KRecover -> forall v i, dmg tr = Some v -> dmg0 tr = Some i ->
     dmg tr' = round_v prec (rf tr e i)) /\
  (kind tr = KRecover -> forall v i, hdmg tr = Some v -> hdmg0 tr = Some i ->
     hdmg tr' = round_v prec (rf tr e i)) /\
  (forall v i, arb tr = Some v -> arb0 tr = Some i -> arb tr' = round_v 6 (rf tr e i)) /\
  (dmg tr = None -> dmg tr' = None) /\ (hdmg tr = None -> hdmg tr' = None) /\
  (arb tr = None -> arb tr' = None) /\
  (st tr <> Finished ->
     (st tr' = Finished <-> (dmg tr' = None /\ hdmg tr' = None /\ arb tr' = None))).

(* rounding: within half a quantum, monotone, sign-preserving *)
Definition C09_rounding : Prop :=
  forall (prec : Z) (x y : Qc),
  (qabs (round_dec prec x - x) <= quantum prec / Qc_of_Z 2)%Qc /\
  ((x <= y)%Qc -> (round_dec prec x <= round_dec prec y)%Qc) /\
  ((0 <= x)%Qc -> (0 <= round_dec prec x)%Qc).

(* shapes of the rational built-in curves *)
Definition C09_linear_shape : Prop :=
  forall (tau e e' : nat) (init : vec) (j : nat), 0 < tau -> (0 <= getv init j)%Qc -> j < length init ->
  (0 <= getv (linear_rec tau e init) j)%Qc /\ (getv (linear_rec tau e init) j <= getv init j)%Qc /\
  (e <= e' -> (getv (linear_rec tau e' init) j <= getv (linear_rec tau e init) j)%Qc) /\
  getv (linear_rec tau 0 init) j = getv init j /\
  (tau <= e -> getv (linear_rec tau e init) j = 0%Qc) /\
  (e <= tau -> getv (linear_rec tau e init) j = (getv init j * (1 - qnat e / qnat tau))%Qc).
Definition C09_convexe_shape : Prop :=
  forall (tau e e' : nat) (init : vec) (j : nat), 0 < tau -> (0 <= getv init j)%Qc -> j < length init ->
  (0 <= getv (convexe_rec tau e init) j)%Qc /\ (getv (convexe_rec tau e init) j <= getv init j)%Qc /\
  (e <= e' -> (getv (convexe_rec tau e' init) j <= getv (convexe_rec tau e init) j)%Qc) /\
  (0 <= getv (convexe_scaled_rec tau e init) j)%Qc /\ (getv (convexe_scaled_rec tau e init) j <= getv init j)%Qc /\
  (e <= e' -> (getv (convexe_scaled_rec tau e' init) j <= getv (convexe_scaled_rec tau e init) j)%Qc).

(* ================================================================== *)
(* C11 - rebuild ids stay a bijection onto 0..E-1                       *)
Definition reb_ids (l : list tracker) : list nat :=
  flat_map (fun tr => if is_rebuilding tr then match rid tr with Some i => [i] | None => [] end else []) l.
Definition ids_ok (E : nat) (l : list tracker) : Prop :=
  Permutation (reb_ids l) (seq 0 E) /\
  Forall (fun tr => if is_rebuilding tr then rid tr <> None else rid tr = None) l.

Definition C11_ids_start : Prop :=
  forall (t : nat) (l : list tracker) (E : nat),
  ids_ok E l -> ids_ok (snd (start t l E)) (fst (start t l E)).
Definition C11_ids_activate : Prop :=
  forall (dt t E : nat) (l : list tracker), ids_ok E l -> ids_ok E (map (activate dt t) l).
Definition C11_ids_ledgers : Prop :=
  forall (P : params) (prec : Z) (E t : nat) (rp : mat) (l : list tracker),
  ids_ok E l ->
  let l1 := rebuild_ledgers P prec E rp l in
  let nfin := count_rebuilding l - count_rebuilding l1 in
  let l2 := if Nat.eqb nfin 0 then l1 else compact_ids l l1 in
  ids_ok (E - nfin) l2 /\ ids_ok (E - nfin) (recover_ledgers prec t l2).
Definition C11_ids_step : Prop :=
  forall (e : env) (s s' : sim) (o : option obs),
  ids_ok (nE (eco s)) (trs s) -> step e s = (Ok s', o) -> ids_ok (nE (eco s')) (trs s').
(* with the invariant, the internal error "rebuilding event has no id" cannot happen *)
Definition C11_no_internal_error : Prop :=
  forall (e : env) (s s' : sim) (o : option obs),
  ids_ok (nE (eco s)) (trs s) -> fst (step e s) <> Error NoRebuildId s'.
