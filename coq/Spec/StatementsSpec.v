(* Spec/StatementsSpec.v - C02: every step of the model refines the documented recurrences. *)
Require Import Boario.Base.QcLib Boario.Base.Vec Boario.Model.Econ Boario.Model.Events
  Boario.Model.Sim Boario.Spec.ArioSpec.
Open Scope Qc_scope.
Open Scope nat_scope.

Record WFpre (P : params) (s : pre) : Prop := {
  wq_tech : forall p f, p < nS P -> f < NN P -> (0 <= get (tech P) p f)%Qc;
  wq_psi : (0 <= psi P)%Qc;
  wq_inv : forall p, (0 <= invq P p)%Qc;
  wq_X0 : forall f, f < NN P -> (0 <= getv (X0 P) f)%Qc;
  wq_dem : forall f j, f < NN P -> j < WW P (p_E s) -> (0 <= get (p_dem s) f j)%Qc;
  wq_stock : forall p f, p < nS P -> f < NN P -> isinf P p = false -> (0 <= get (p_stock s) p f)%Qc;
  wq_delta : forall f, f < NN P -> (getv (p_delta s) f <= 1)%Qc;
  wq_alpha : forall f, f < NN P -> (0 <= getv (p_alpha s) f)%Qc
}.

Definition C02_refines : Prop :=
  forall (P : params) (s : pre), WFpre P s -> step_rel P s (econ_step P s).

Definition C02_orders : Prop :=
  forall (P : params) (stock' : mat) (optv prodv capv : vec),
  0 < nS P ->
  orders_rel P stock' optv prodv capv (orders P stock' optv prodv capv).

(* the simulation step is: events ; economic step ; ledgers ; orders ; tick *)
Definition pre_of (e : env) (s1 : sim) : pre :=
  {| p_alpha := alpha (eco s1); p_stock := stock (eco s1); p_dem := dem (eco s1); p_E := nE (eco s1);
     p_prev := prod (eco s1); p_delta := delta (eco s1); p_guard := Nat.ltb 1 (now s1) |}.
Definition C02_compose : Prop :=
  forall (e : env) (s s' : sim) (o : option obs),
  step e s = (Ok s', o) ->
  exists s1 r, events_phase e s = Some (s1, r) /\
    let q := econ_step (P e) (pre_of e s1) in
    let N := NN (P e) in
    let W' := WW (P e) (nE (eco s')) in
    (* total demand seen by the order module: last step's orders + final and remaining rebuilding demand *)
    let dtot' := tab N (fun f => (sumn N (fun j => get (dem (eco s1)) f j)
                                  + sumn (W' - N) (fun j => get (dem (eco s')) f (N + j)))%Qc) in
    alpha (eco s') = q_alpha q /\ prod (eco s') = q_prod q /\ stock (eco s') = q_stock q /\
    unmetv (eco s') = q_unmet q /\ delta (eco s') = delta (eco s1) /\
    (forall i j, i < N -> j < N ->
       get (dem (eco s')) i j =
         get (orders (P e) (q_stock q) (opt (P e) dtot' (q_cap q)) (q_prod q) (q_cap q)) i j) /\
    now s' = now s + dt e.
