(* Spec/Statements.v - the property theorems' statements, in one place.
   Props/Cxx.v prove exactly these (Theorem ... exact lemma. Qed.), so a proof
   file can never quietly weaken what is claimed. *)
Require Import Boario.Base.QcLib Boario.Base.Vec Boario.Model.Econ Boario.Model.EconBase.
Open Scope Qc_scope.
Open Scope nat_scope.

(* ================================================================== *)
(* C03 - realised production is feasible and maximal (every WF state)  *)
Definition C03_statement : Prop :=
  forall (P : params) (stock : mat) (dtot capv : vec),
  (forall p f, p < nS P -> f < NN P -> (0 <= get (tech P) p f)%Qc) ->
  (0 <= psi P)%Qc -> (forall p, (0 <= invq P p)%Qc) ->
  (forall p f, p < nS P -> f < NN P -> (0 <= get stock p f)%Qc) ->
  (forall f, f < NN P -> (0 <= getv dtot f)%Qc) ->
  (forall f, f < NN P -> (0 <= getv capv f)%Qc) ->
  let optv := opt P dtot capv in
  let cons := constraints P optv in
  let x := production P stock optv in
  forall f, f < NN P ->
    (0 <= getv x f)%Qc /\ (getv x f <= getv dtot f)%Qc /\ (getv x f <= getv capv f)%Qc /\
    (forall p, p < nS P -> getb (mask P) p f = true -> isinf P p = false -> get cons p f <> 0%Qc ->
        (getv x f <= getv optv f * (get stock p f / get cons p f))%Qc) /\
    (getv x f = getv dtot f \/ getv x f = getv capv f \/
     exists p, p < nS P /\ getb (mask P) p f = true /\ isinf P p = false /\ get cons p f <> 0%Qc /\
               getv x f = (getv optv f * (get stock p f / get cons p f))%Qc).

(* ================================================================== *)
(* C04 - proportional rationing, any number E of rebuilding events     *)
Definition C04_statement : Prop :=
  forall (P : params) (E : nat) (dem : mat) (x : vec),
  let N := NN P in let F := FF P in let W := WW P E in
  (forall f j, f < N -> j < W -> (0 <= get dem f j)%Qc) ->
  (forall f, f < N -> (0 <= getv x f)%Qc /\ (getv x f <= rowtot W dem f)%Qc) ->
  let del := deliver P W dem x in
  forall f, f < N ->
    (rowtot W dem f <> 0%Qc -> sumn W (fun j => get del f j) = getv x f) /\
    (forall j, j < W ->
        (rowtot W dem f <> 0%Qc -> get del f j = (get dem f j * (getv x f / rowtot W dem f))%Qc) /\
        (0 <= get del f j)%Qc /\ (get del f j <= get dem f j)%Qc) /\
    getv (unmet P dem del) f
      = (sumn F (fun c => get dem f (N + c)) - sumn F (fun c => get del f (N + c)))%Qc /\
    (0 <= getv (unmet P dem del) f)%Qc /\
    (getv (unmet P dem del) f <= sumn F (fun c => get dem f (N + c)))%Qc /\
    (forall j, j < E * (N + F) -> get (rebuild_prod P W del) f j = get del f (N + F + j)).

(* ================================================================== *)
(* C05 - stock-flow accounting and the crash rule (one distribution)   *)
Definition C05_accounting : Prop :=
  forall (P : params) (stock del : mat) (x : vec),
  let use := stock_use P x in
  let add := stock_add P del in
  (forall p f, p < nS P -> f < NN P ->
     get use p f = (getv x f * get (tech P) p f)%Qc /\
     get add p f = sumn (nR P) (fun r => get del (r * nS P + p) f)) /\
  ((add_use_close P add use = false /\
    forall p f, p < nS P -> f < NN P ->
      get (stock_update P stock add use) p f = (get stock p f - get use p f + get add p f)%Qc)
   \/
   (add_use_close P add use = true /\ stock_update P stock add use = stock /\
    forall p f, p < nS P -> f < NN P ->
      (qabs (get add p f - get use p f) <= atol + rtol * qabs (get use p f))%Qc)).

Definition C05_crash : Prop :=
  forall (P : params) (stock add use : mat),
  distribute_crash P stock add use = true <->
  ((exists p f, p < nS P /\ f < NN P /\ (get use p f < 0)%Qc) \/
   (exists p f, p < nS P /\ f < NN P /\ (get add p f < 0)%Qc) \/
   (add_use_close P add use = false /\
    exists p f, p < nS P /\ f < NN P /\ isinf P p = false /\
                (get (stock_update P stock add use) p f < 0)%Qc)).

(* infinite inventories never limit production *)
Definition C05_infinite : Prop :=
  forall (P : params) (stock : mat) (optv : vec) p f,
  isinf P p = true ->
  short_cell P stock (constraints P optv) p f = false /\
  ratio P stock (constraints P optv) p f = 1%Qc.

(* ================================================================== *)
(* C06 - orders conserve needs across suppliers                         *)
Definition ZC0 (P : params) (p j : nat) : Qc :=
  sumn (nR P) (fun r => get (Z0 P) (r * nS P + p) j).
(* initial market shares with the documented convention x/0 := 0 *)
Definition zdist_def (P : params) : Prop :=
  forall i j, i < NN P -> j < NN P ->
    get (zdist P) i j =
      (if Qceqb (ZC0 P (i mod nS P) j) 0 then 0 else get (Z0 P) i j / ZC0 P (i mod nS P) j)%Qc.

Definition C06_statement : Prop :=
  forall (P : params) (stock : mat) (optv prodv capv : vec),
  zdist_def P ->
  (forall i j, i < NN P -> j < NN P -> (0 <= get (Z0 P) i j)%Qc) ->
  (forall p f, p < nS P -> f < NN P -> (0 <= get (tech P) p f)%Qc) ->
  (forall p, p < nS P -> (0 <= nth p (rho P) 0)%Qc) ->
  (forall f, f < NN P -> (0 <= getv (X0 P) f)%Qc) ->
  (forall f, f < NN P -> (0 <= getv prodv f)%Qc) ->
  (forall f, f < NN P -> (0 <= getv capv f)%Qc) ->
  let o := orders P stock optv prodv capv in
  let nd := needs P stock optv prodv in
  let gc := goal_close P stock optv in
  forall p j, p < nS P -> j < NN P ->
    let use := (getv prodv j * get (tech P) p j)%Qc in
    (* the need: inputs used plus the model-specific share of the positive gap *)
    ((gc = true \/ isinf P p = true) -> get nd p j = use) /\
    (gc = false -> isinf P p = false ->
       get nd p j = (nth p (rho P) 0 * qpos (goal P optv p j - get stock p j) + use)%Qc) /\
    (0 <= get nd p j)%Qc /\
    (* orders are non-negative and go to initial suppliers only *)
    (forall r, r < nR P ->
       (0 <= get o (r * nS P + p) j)%Qc /\
       (get (Z0 P) (r * nS P + p) j = 0%Qc -> get o (r * nS P + p) j = 0%Qc)) /\
    (* fixed shares *)
    (alt P = false -> ZC0 P p j <> 0%Qc ->
       (forall r, r < nR P ->
          get o (r * nS P + p) j = (get nd p j * (get (Z0 P) (r * nS P + p) j / ZC0 P p j))%Qc) /\
       sumn (nR P) (fun r => get o (r * nS P + p) j) = get nd p j) /\
    (* capacity-weighted shares *)
    (alt P = true -> zcprod P capv p j <> 0%Qc ->
       (forall r, r < nR P ->
          get o (r * nS P + p) j =
            (get nd p j * (get (Z0 P) (r * nS P + p) j * cap_ratio P capv (r * nS P + p)
                           / zcprod P capv p j))%Qc) /\
       sumn (nR P) (fun r => share_alt P capv (r * nS P + p) j) = 1%Qc /\
       sumn (nR P) (fun r => get o (r * nS P + p) j) = get nd p j).

(* ================================================================== *)
(* C14 - overproduction factor                                          *)
(* any positive rate: with steps longer than the characteristic time (rate > 1) the update would
   overshoot; the factor is floored at 1 and capped at its maximum (fix in calc_overproduction) *)
Definition alpha_cfg (P : params) : Prop :=
  (1 <= a_base P)%Qc /\ (a_base P <= a_max P)%Qc /\ (0 < a_rate P)%Qc.

Definition C14_bounds : Prop :=
  forall (P : params) (a z : Qc), alpha_cfg P ->
  (1 <= a)%Qc -> (a <= a_max P)%Qc -> (z <= 1)%Qc ->
  (1 <= overprod1 P a z)%Qc /\ (overprod1 P a z <= a_max P)%Qc.

Definition C14_rise : Prop :=
  forall (P : params) (a z : Qc), alpha_cfg P -> a_base P = 1%Qc ->
  (1 <= a)%Qc -> (a <= a_max P)%Qc -> (z <= 1)%Qc ->
  ((a < overprod1 P a z)%Qc ->
     (0 < z)%Qc /\ overprod1 P a z = qmin (a_max P) (a + (a_max P - a) * z * a_rate P)%Qc /\
     ((a_rate P <= 1)%Qc -> overprod1 P a z = (a + (a_max P - a) * z * a_rate P)%Qc)) /\
  ((z <= 0)%Qc -> (overprod1 P a z <= a)%Qc) /\
  (overprod1 P a z - a <= (a_max P - a) * a_rate P)%Qc.

Definition C14_scarcity : Prop :=
  forall (dtot prodv : vec) (f : nat),
  (0 <= getv prodv f)%Qc -> (0 <= getv dtot f)%Qc ->
  (scarcity dtot prodv f <= 1)%Qc /\
  ((0 < scarcity dtot prodv f)%Qc <-> (getv prodv f < getv dtot f)%Qc).

(* ================================================================== *)
(* C18 - variants coincide                                              *)
Definition C18_psi1 : Prop :=
  forall (P : params),
  psi P = 1%Qc -> (forall p, p < nS P -> nth p (rho P) 0%Qc = 1%Qc) ->
  (forall xv, constraints P xv = constraints_base P xv) /\
  (forall gc stock optv p f, p < nS P ->
     gap P gc stock optv p f = gap_base P gc stock optv p f) /\
  (forall stock optv, production P stock optv = production_base P stock optv) /\
  (forall stock optv prodv capv, orders P stock optv prodv capv = orders_base P stock optv prodv capv).

Definition C18_alt_noalt : Prop :=
  forall (P : params) (capv : vec) (c : Qc) (p j : nat),
  zdist_def P -> p < nS P -> j < NN P -> c <> 0%Qc ->
  (forall r, r < nR P -> get (Z0 P) (r * nS P + p) j <> 0%Qc ->
             cap_ratio P capv (r * nS P + p) = c) ->
  forall r, r < nR P -> share_alt P capv (r * nS P + p) j = get (zdist P) (r * nS P + p) j.
