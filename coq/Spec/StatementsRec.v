(* Spec/StatementsRec.v - C16: what the record arrays hold after any run. *)
Require Import Boario.Base.QcLib Boario.Base.Vec Boario.Model.Econ Boario.Model.Events Boario.Model.Sim
  Boario.Model.Records.
Open Scope nat_scope.

(* row t of a record after the loop wrote the values [vals] (one per executed step):
   the value of step t / dt when t is a step time of an executed step that wrote this record,
   the fill value everywhere else; rows are never moved or overwritten by later steps *)
Definition C16_recorded : Prop :=
  forall (A : Type) (n dt : nat) (vals : list (option A)) (t : nat),
  0 < dt -> t < n ->
  nth t (recorded n dt vals) None =
    (if Nat.eqb (t mod dt) 0 then nth (t / dt) vals None else None).
Definition C16_recorded_length : Prop :=
  forall (A : Type) (n dt : nat) (vals : list (option A)), length (recorded n dt vals) = n.
(* stopping early leaves the rows already written intact: the array after k steps agrees with
   the array after k + m steps on every row below k * dt *)
Definition C16_recorded_prefix : Prop :=
  forall (A : Type) (n dt : nat) (vals more : list (option A)) (t : nat),
  0 < dt -> t < n -> t < length vals * dt ->
  nth t (recorded n dt (vals ++ more)) None = nth t (recorded n dt vals) None.
(* the records of a run are those of its observations: with C16_rows, row i*dt of every record
   is the model's value at step i *)
Definition C16_run_records : Prop :=
  forall (e : env) (k i : nat) (s : sim) (proj : obs -> option vec) (n : nat),
  0 < dt e -> i * dt e < n ->
  nth (i * dt e) (recorded n (dt e) (map proj (snd (run e k s)))) None =
    match nth_error (snd (run e k s)) i with Some o => proj o | None => None end.
