(* Spec/StatementsCarry.v - C11 / C08: when events finish, every event that keeps rebuilding
   finds, under its new id, exactly the demand block it had under its old id. *)
Require Import Boario.Base.QcLib Boario.Base.Vec Boario.Model.Econ Boario.Model.Events Boario.Model.Sim
  Boario.Spec.StatementsEv.
Open Scope nat_scope.

(* the new id of a surviving tracker indexes its old id in [kept_ids] *)
Definition C11_carry_ids : Prop :=
  forall (P : params) (prec : Z) (E : nat) (rp : mat) (l : list tracker),
  ids_ok E l ->
  let l1 := rebuild_ledgers P prec E rp l in
  forall tr k, In tr l1 -> is_rebuilding tr = true -> rid tr = Some k ->
    k < E /\ k - removed_below l l1 k < length (kept_ids E l1) /\
    nth (k - removed_below l l1 k) (kept_ids E l1) 0 = k /\
    length (kept_ids E l1) = count_rebuilding l1.

(* hence the carried-over matrix holds, in the block of the new id, the old block *)
Definition C11_carry_blocks : Prop :=
  forall (P : params) (E E' : nat) (kept : list nat) (d : mat) (f k' j : nat),
  k' < E' -> E' = length kept ->
  let N := NN P in let F := FF P in
  (j < N -> moved_cell P E E' kept d f (N * k' + j) = get d f (N + F + N * nth k' kept 0 + j)) /\
  (j < F -> moved_cell P E E' kept d f (N * E' + F * k' + j)
            = get d f (N + F + N * E + F * nth k' kept 0 + j)).
