(* Spec/StatementsWF.v - C20 (and the run-level clauses of C14, C05, C08, C09):
   for accepted inputs, well-formedness is an invariant of every Ok step, hence
   every quantity the model computes along any history is a non-negative rational
   (a finite number), the overproduction factor stays within [1, max], the capacity
   loss within [0, 1], the remaining damages and demands non-negative. *)
Require Import Boario.Base.QcLib Boario.Base.Vec Boario.Model.Econ Boario.Model.Events
  Boario.Model.Sim Boario.Model.Tracker Boario.Model.RecoveryFns Boario.Spec.Statements
  Boario.Spec.StatementsEv Boario.Spec.StatementsRun.
Open Scope Qc_scope.
Open Scope nat_scope.

(* static parameters inside the documented domain *)
Record WFP (e : env) : Prop := {
  wp_dt : 0 < dt e;
  wp_nS : 0 < nS (P e);
  wp_X0 : forall f, f < NN (P e) -> (0 <= getv (X0 (P e)) f)%Qc;
  wp_Z0 : forall i j, i < NN (P e) -> j < NN (P e) -> (0 <= get (Z0 (P e)) i j)%Qc;
  wp_tech : forall p f, p < nS (P e) -> f < NN (P e) -> (0 <= get (tech (P e)) p f)%Qc;
  wp_K : forall f, f < NN (P e) -> (0 <= getv (K (P e)) f)%Qc;
  wp_psi : (0 <= psi (P e))%Qc;
  wp_inv : forall p, (0 <= invq (P e) p)%Qc;
  wp_rho : forall p, p < nS (P e) -> (0 <= nth p (rho (P e)) 0)%Qc;
  wp_zdist : forall i j, i < NN (P e) -> j < NN (P e) -> (0 <= get (zdist (P e)) i j)%Qc;
  wp_alpha : alpha_cfg (P e)
}.

Definition vec_nonneg (v : vec) : Prop := forall j, (0 <= getv v j)%Qc.
Definition mat_nonneg (m : mat) : Prop := forall i j, (0 <= get m i j)%Qc.
Definition vec_le1 (v : vec) : Prop := forall j, (getv v j <= 1)%Qc.

(* a tracker whose ledgers are non-negative and whose recovery callable maps
   non-negative (resp. <= 1) initial damages to non-negative (resp. <= 1) values,
   as the built-in curves do *)
Record tracker_ok (tr : tracker) : Prop := {
  to_tau : (0 < tau tr)%Qc;
  to_phi : (0 < phi tr)%Qc;
  to_dmg : forall v, dmg tr = Some v -> vec_nonneg v;
  to_hdmg : forall v, hdmg tr = Some v -> vec_nonneg v;
  to_arb : forall v, arb tr = Some v -> vec_nonneg v /\ vec_le1 v;
  to_dmg0 : forall v, dmg0 tr = Some v -> vec_nonneg v;
  to_hdmg0 : forall v, hdmg0 tr = Some v -> vec_nonneg v;
  to_arb0 : forall v, arb0 tr = Some v -> vec_nonneg v /\ vec_le1 v;
  to_rem_i : forall m, rem_i tr = Some m -> mat_nonneg m;
  to_rem_h : forall m, rem_h tr = Some m -> mat_nonneg m;
  to_rf : forall n init, vec_nonneg init -> vec_nonneg (rf tr n init);
  to_rf1 : forall n init, vec_nonneg init -> vec_le1 init -> vec_le1 (rf tr n init)
}.

Record WF (e : env) (s : sim) : Prop := {
  wf_alpha : alpha_in_bounds e s;
  wf_stock : stocks_nonneg e s;
  wf_prod : prod_nonneg e s;
  wf_dem : forall f j, f < NN (P e) -> (0 <= get (dem (eco s)) f j)%Qc;
  wf_delta : forall f, f < NN (P e) ->
               (0 <= getv (delta (eco s)) f)%Qc /\ (getv (delta (eco s)) f <= 1)%Qc;
  wf_trs : Forall tracker_ok (trs s);
  wf_ids : ids_ok (nE (eco s)) (trs s)
}.

(* the invariant *)
Definition C20_wf_step : Prop :=
  forall (e : env) (s s' : sim) (o : option obs),
  WFP e -> WF e s -> step e s = (Ok s', o) -> WF e s'.
Definition C20_wf_run : Prop :=
  forall (e : env) (k : nat) (s s' : sim) (os : list obs),
  WFP e -> WF e s -> run e k s = (Ok s', os) -> WF e s'.

(* what a step records is non-negative and within bounds *)
Definition C20_obs : Prop :=
  forall (e : env) (s : sim) (r : outcome) (o : obs),
  WFP e -> WF e s -> step e s = (r, Some o) ->
  (forall f, f < NN (P e) ->
     (0 <= getv (o_prod o) f)%Qc /\ (0 <= getv (o_cap o) f)%Qc /\
     (getv (o_prod o) f <= getv (o_cap o) f)%Qc /\
     (1 <= getv (o_alpha o) f)%Qc /\ (getv (o_alpha o) f <= a_max (P e))%Qc /\
     (0 <= getv (o_klost o) f)%Qc /\ (0 <= getv (o_rebdem o) f)%Qc /\
     (0 <= getv (o_io o) f)%Qc /\ (0 <= getv (o_fd o) f)%Qc) /\
  (forall u, o_unmet o = Some u -> forall f, f < NN (P e) -> (0 <= getv u f)%Qc) /\
  (forall u, o_rprod o = Some u -> forall f, f < NN (P e) -> (0 <= getv u f)%Qc).

(* C14 along every history *)
Definition C14_invariant : Prop :=
  forall (e : env) (k : nat) (s s' : sim) (os : list obs),
  WFP e -> WF e s -> run e k s = (Ok s', os) -> alpha_in_bounds e s'.
