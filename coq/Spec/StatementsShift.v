(* Spec/StatementsShift.v - C19: delaying all events by k steps delays every recorded
   trajectory by exactly k steps and leaves it otherwise unchanged. *)
Require Import Boario.Base.QcLib Boario.Base.Vec Boario.Model.Econ Boario.Model.Init
  Boario.Model.Events Boario.Model.Sim Boario.Model.RecoveryFns Boario.Model.InitSim
  Boario.Spec.StatementsRun.
Open Scope nat_scope.

Definition shift_tr (d : nat) (tr : tracker) : tracker :=
  {| kind := kind tr; occ := occ tr + d; dur := dur tr; tau := tau tr; phi := phi tr; rf := rf tr;
     dmg0 := dmg0 tr; hdmg0 := hdmg0 tr; arb0 := arb0 tr; st := st tr; rid := rid tr;
     dmg := dmg tr; hdmg := hdmg tr; arb := arb tr; rem_i := rem_i tr; rem_h := rem_h tr |}.
Definition shift_sim (d : nat) (s : sim) : sim :=
  {| eco := eco s; trs := map (shift_tr d) (trs s); now := now s + d |}.
Definition shift_outcome (d : nat) (o : outcome) : outcome :=
  match o with
  | Ok s => Ok (shift_sim d s)
  | Crash s => Crash (shift_sim d s)
  | Error er s => Error er (shift_sim d s)
  end.

(* one step commutes with the shift once the overproduction guard is open on both sides *)
Definition C19_step_equivariant : Prop :=
  forall (e : env) (d : nat) (s : sim), 1 < now s ->
  step e (shift_sim d s) = (shift_outcome d (fst (step e s)), snd (step e s)).

(* whole runs from the equilibrium *)
Definition fresh (tr : tracker) : Prop :=
  st tr = Pending /\ 1 <= occ tr /\ 1 <= dur tr /\ rid tr = None.
Definition C19_shift : Prop :=
  forall (T : table) (C : config) (dtn : nat) (pr : Z) (l : list tracker) (k n : nat),
  valid_table T -> valid_cfg T C -> 0 < dtn -> Forall fresh l ->
  let e := {| P := init_params T C; dt := dtn; prec := pr |} in
  let r1 := run e n (init_sim T C l) in
  let r2 := run e (k + n) (init_sim T C (map (shift_tr (k * dtn)) l)) in
  exists os0, length os0 = k /\ Forall (eq_obs T C) os0 /\
              snd r2 = os0 ++ snd r1 /\ fst r2 = shift_outcome (k * dtn) (fst r1).
