(* Spec/StatementsRun.v - statements about whole runs: C01 (equilibrium is a fixed
   point), C05/C14 (invariants over every history), C16 (records), C19 (time shift). *)
Require Import Boario.Base.QcLib Boario.Base.Vec Boario.Model.Econ Boario.Model.Init
  Boario.Model.Events Boario.Model.Sim Boario.Model.RecoveryFns Boario.Model.InitSim.
Open Scope Qc_scope.
Open Scope nat_scope.

(* ================================================================== *)
(* C01 *)
Definition eq_obs (T : table) (C : config) (o : obs) : Prop :=
  let N := t_nR T * t_nS T in
  o_prod o = i_X0 T C /\ o_alpha o = i_alpha0 T C /\ o_stocks o = i_stock0 T C /\
  o_unmet o = Some (zeros N) /\ o_rprod o = Some (zeros N) /\ o_rebdem o = zeros N /\
  o_klost o = zeros N /\
  (forall f, f < N -> getv (o_io o) f = sumn N (fun j => get (i_Z0 T C) f j)) /\
  (forall f, f < N -> getv (o_fd o) f = sumn (t_nR T * t_nC T) (fun c => get (i_Y0 T C) f c)) /\
  (forall f, f < N -> getv (o_cap o) f = (getv (i_X0 T C) f * c_a_base C)%Qc).

Definition C01_step : Prop :=
  forall (T : table) (C : config) (dtn : nat) (pr : Z) (t : nat),
  valid_table T -> valid_cfg T C -> 0 < dtn ->
  let e := {| P := init_params T C; dt := dtn; prec := pr |} in
  exists o, step e {| eco := init_eco T C; trs := []; now := t |}
            = (Ok {| eco := init_eco T C; trs := []; now := t + dtn |}, Some o)
            /\ eq_obs T C o.

(* every horizon *)
Definition C01_run : Prop :=
  forall (T : table) (C : config) (dtn : nat) (pr : Z) (k : nat),
  valid_table T -> valid_cfg T C -> 0 < dtn ->
  let e := {| P := init_params T C; dt := dtn; prec := pr |} in
  exists os, run e k (init_sim T C [])
             = (Ok {| eco := init_eco T C; trs := []; now := k * dtn |}, os)
             /\ length os = k /\ Forall (eq_obs T C) os.

(* the market shares built at construction follow the documented convention (used by C06, C18) *)
Definition C01_zdist : Prop :=
  forall (T : table) (C : config), (c_dt C <> 0)%Qc -> (c_year C <> 0)%Qc ->
  forall i j, i < t_nR T * t_nS T -> j < t_nR T * t_nS T ->
    let P0 := init_params T C in
    let c := sumn (nR P0) (fun r => get (Z0 P0) (r * nS P0 + i mod nS P0) j) in
    get (zdist P0) i j = (if Qceqb c 0 then 0 else get (Z0 P0) i j / c)%Qc.

(* ================================================================== *)
(* C05 / C14 / C16 : runs *)
Definition stocks_nonneg (e : env) (s : sim) : Prop :=
  forall p f, p < nS (P e) -> f < NN (P e) -> isinf (P e) p = false -> (0 <= get (stock (eco s)) p f)%Qc.
Definition C05_nonneg_step : Prop :=
  forall (e : env) (s s' : sim) (o : option obs),
  stocks_nonneg e s -> step e s = (Ok s', o) -> stocks_nonneg e s'.
Definition C05_nonneg_run : Prop :=
  forall (e : env) (k : nat) (s s' : sim) (os : list obs),
  stocks_nonneg e s -> run e k s = (Ok s', os) -> stocks_nonneg e s'.
(* the loop stops at the first crash: nothing is simulated afterwards *)
Definition C05_stops : Prop :=
  forall (e : env) (a b : nat) (s s1 : sim) (os : list obs),
  run e a s = (Crash s1, os) -> run e (a + b) s = (Crash s1, os).

Definition alpha_in_bounds (e : env) (s : sim) : Prop :=
  forall f, f < NN (P e) -> (1 <= getv (alpha (eco s)) f)%Qc /\ (getv (alpha (eco s)) f <= a_max (P e))%Qc.
Definition prod_nonneg (e : env) (s : sim) : Prop :=
  forall f, f < NN (P e) -> (0 <= getv (prod (eco s)) f)%Qc.
Definition dem_nonneg (e : env) (s : sim) : Prop :=
  forall f j, f < NN (P e) -> j < WW (P e) (nE (eco s)) -> (0 <= get (dem (eco s)) f j)%Qc.
(* C16 : driving step by step = the loop; rows already written survive *)
Definition C16_compose : Prop :=
  forall (e : env) (a b : nat) (s : sim),
  run e (a + b) s =
    match run e a s with
    | (Ok s1, os1) => let '(r, os2) := run e b s1 in (r, os1 ++ os2)
    | other => other
    end.
Definition C16_prefix : Prop :=
  forall (e : env) (k : nat) (s : sim),
  exists tl, snd (run e (S k) s) = snd (run e k s) ++ tl /\ length tl <= 1.
Definition C16_rows : Prop :=
  forall (e : env) (k t : nat) (s st : sim) (os1 : list obs),
  t < k -> run e t s = (Ok st, os1) ->
  length os1 = t /\
  nth_error (snd (run e k s)) t = snd (step e st).
Definition C16_length : Prop :=
  forall (e : env) (k : nat) (s s' : sim) (os : list obs),
  run e k s = (Ok s', os) -> length os = k /\ now s' = now s + k * dt e.
