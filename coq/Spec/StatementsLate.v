(* Spec/StatementsLate.v - C10 at the level of runs: events created and registered while the
   simulation is running, before they occur, behave exactly as if they had been registered from
   the start, for as many steps as they remain in the future. *)
Require Import Boario.Base.QcLib Boario.Base.Vec Boario.Model.Econ Boario.Model.Init
  Boario.Model.Events Boario.Model.Sim Boario.Model.Tracker Boario.Model.Create
  Boario.Spec.Statements Boario.Spec.StatementsEv Boario.Spec.StatementsWF Boario.Spec.StatementsInit.
Open Scope nat_scope.

(* k steps from s stay strictly before every occurrence of the new events *)
Definition later_for (e : env) (s : sim) (k : nat) (new : list tracker) : Prop :=
  Forall (fun tr => st tr = Pending /\ rid tr = None /\ now s + k * dt e < occ tr + dt e) new.

(* run commutes with the registration of fresh events that are still to come: same outcome, same
   observations, the new trackers untouched at the end of the list *)
Definition C10_late_run : Prop :=
  forall (e : env) (k : nat) (s : sim) (new : list tracker),
  0 < dt e -> later_for e s k new ->
  forall (s' : sim) (os : list obs),
  run e k s = (Ok s', os) -> run e k (register s new) = (Ok (register s' new), os).

(* the trackers EventTracker.__init__ creates are such fresh events *)
Definition C10_late_creation : Prop :=
  forall (e : env) (s : sim) (nr ns nc : nat) (Zy Yy : mat) (mu : Qc) (evs : list evspec) (new : list tracker),
  create_all nr ns nc Zy Yy mu evs = Some new ->
  Forall (fun v => now s < v_occ v) evs ->
  (forall s' o, step e s = (Ok s', o) -> step e (register s new) = (Ok (register s' new), o)).
