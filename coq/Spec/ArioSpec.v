(* Spec/ArioSpec.v - the documented ARIO recurrences (docs/source/boario-math.rst,
   "Model dynamics") transcribed pointwise, cell by cell, independently of the
   functional model in Model/Econ.v.  C02 proves the model's step refines it.

   Two explicit relaxations (see DESIGN.md, C02):
   - the closeness shortcuts of the implementation: inventories may stay unchanged
     only if resupply and use are allclose; the inventory gap may be taken as 0 only
     if inventories and goals are allclose;
   - for negative scarcity the documentation (drift back to the base value) and the
     code ((max - alpha) * scarcity / tau, floored at 1) differ: either is accepted. *)
Require Import Boario.Base.QcLib Boario.Base.Vec Boario.Model.Econ.
Open Scope Qc_scope.

Record pre := {
  p_alpha : vec; p_stock : mat; p_dem : mat; p_E : nat;
  p_prev : vec;                 (* production of the previous step *)
  p_delta : vec;
  p_guard : bool                (* at least two steps elapsed: the overproduction module runs *)
}.
Record post := {
  q_alpha : vec; q_cap : vec; q_opt : vec; q_prod : vec; q_del : mat; q_stock : mat; q_unmet : vec
}.

Section Spec.
Variable P : params.
Let N := NN P.
Let F := FF P.

Definition tot (W : nat) (d : mat) (f : nat) : Qc := sumn W (fun j => get d f j).

(* Overproduction module *)
Definition alpha_rel (a d x a' : Qc) : Prop :=
  let z := if Qceqb d 0 then 0 else (d - x) / d in
  (0 < z -> a' = qmin (a_max P) (qmax 1 (a + (a_max P - a) * z * a_rate P))) /\
  (z = 0 -> a' = qmin (a_max P) (qmax 1 (a + (a_base P - a) * a_rate P))) /\
  (z < 0 -> a' = qmin (a_max P) (qmax 1 (a + (a_base P - a) * a_rate P)) \/
            a' = qmin (a_max P) (qmax 1 (a + (a_max P - a) * z * a_rate P))).

(* is input p a real, finite-inventory input of industry f ? *)
Definition real_input (p f : nat) : Prop := getb (mask P) p f = true /\ isinf P p = false.

Definition step_rel (s : pre) (r : post) : Prop :=
  let W := WW P (p_E s) in
  (* overproduction *)
  (forall f, (f < N)%nat ->
     if p_guard s then alpha_rel (getv (p_alpha s) f) (tot W (p_dem s) f) (getv (p_prev s) f) (getv (q_alpha r) f)
     else getv (q_alpha r) f = getv (p_alpha s) f) /\
  (* production capacity, optimal production *)
  (forall f, (f < N)%nat ->
     getv (q_cap r) f = getv (q_alpha r) f * (1 - getv (p_delta s) f) * getv (X0 P) f /\
     getv (q_opt r) f = qmin (tot W (p_dem s) f) (getv (q_cap r) f)) /\
  (* realised production: optimal production reduced by the tightest input shortage *)
  (forall f, (f < N)%nat ->
     let cons p := invq P p * getv (q_opt r) f * get (tech P) p f * psi P in
     ((forall p, (p < nS P)%nat -> real_input p f -> cons p <= get (p_stock s) p f) ->
        getv (q_prod r) f = getv (q_opt r) f) /\
     ((exists p, (p < nS P)%nat /\ real_input p f /\ get (p_stock s) p f < cons p) ->
        (forall p, (p < nS P)%nat -> real_input p f -> cons p <> 0 ->
           getv (q_prod r) f <= getv (q_opt r) f * (get (p_stock s) p f / cons p)) /\
        (exists p, (p < nS P)%nat /\ real_input p f /\ cons p <> 0 /\
           getv (q_prod r) f = getv (q_opt r) f * (get (p_stock s) p f / cons p)))) /\
  (* proportional rationing *)
  (forall f j, (f < N)%nat -> (j < W)%nat ->
     get (q_del r) f j =
       if Qceqb (tot W (p_dem s) f) 0 then 0
       else get (p_dem s) f j / tot W (p_dem s) f * getv (q_prod r) f) /\
  (* inventory resupply *)
  (let add p f := sumn (nR P) (fun rg => get (q_del r) (rg * nS P + p) f) in
   let use p f := getv (q_prod r) f * get (tech P) p f in
   (forall p f, (p < nS P)%nat -> (f < N)%nat ->
      get (q_stock r) p f = get (p_stock s) p f + add p f - use p f)
   \/
   ((forall p f, (p < nS P)%nat -> (f < N)%nat ->
       qabs (add p f - use p f) <= atol + rtol * qabs (use p f)) /\
    q_stock r = p_stock s)) /\
  (* final demand not met *)
  (forall f, (f < N)%nat ->
     getv (q_unmet r) f = sumn F (fun c => get (p_dem s) f (N + c) - get (q_del r) f (N + c))).

(* Order module: next-step orders from the post-distribution state *)
Definition orders_rel (stock' : mat) (optv prodv capv : vec) (o : mat) : Prop :=
  let goalv p f := invq P p * getv optv f * get (tech P) p f in
  forall p f, (p < nS P)%nat -> (f < N)%nat ->
  exists need,
    (* inputs used + model-specific share of the positive gap (or the closeness shortcut) *)
    (need = getv prodv f * get (tech P) p f
            + (if isinf P p then 0 else nth p (rho P) 0 * qpos (goalv p f - get stock' p f))
     \/ (need = getv prodv f * get (tech P) p f /\ goal_close P stock' optv = true)) /\
    forall rg, (rg < nR P)%nat ->
      let i := (rg * nS P + p)%nat in
      if alt P then
        let c k := if Qceqb (getv (X0 P) k) 0 then 1 else getv capv k / getv (X0 P) k in
        let den := sumn (nR P) (fun r' => get (Z0 P) (r' * nS P + p) f * c (r' * nS P + p)%nat) in
        get o i f = if Qceqb den 0 then 0 else need * (get (Z0 P) i f * c i / den)
      else get o i f = need * get (zdist P) i f.

(* the functional model's economic step, as one function of the pre-state *)
Definition econ_step (s : pre) : post :=
  let W := WW P (p_E s) in
  let dtot := tab N (fun f => rowtot W (p_dem s) f) in
  let a1 := if p_guard s then overprod P (p_alpha s) dtot (p_prev s) else p_alpha s in
  let capv := cap P a1 (p_delta s) in
  let optv := opt P dtot capv in
  let x := production P (p_stock s) optv in
  let del := deliver P W (p_dem s) x in
  {| q_alpha := a1; q_cap := capv; q_opt := optv; q_prod := x; q_del := del;
     q_stock := stock_update P (p_stock s) (stock_add P del) (stock_use P x);
     q_unmet := unmet P (p_dem s) del |}.

End Spec.
