(* Spec/StatementsScale.v - C13, second half: multiplying the whole table and every
   monetary state by a common positive factor multiplies every monetary result of a
   phase by that factor and leaves ratios unchanged.  The closeness shortcuts use
   numpy.allclose's absolute tolerance, which is not scale-free: the two clauses that
   go through them carry the hypothesis that the decision is the same (see DESIGN.md). *)
Require Import Boario.Base.QcLib Boario.Base.Vec Boario.Model.Econ.
Open Scope Qc_scope.
Open Scope nat_scope.

Definition vscale (l : Qc) (v : vec) : vec := map (fun x => (l * x)%Qc) v.
Definition mscale (l : Qc) (m : mat) : mat := map (vscale l) m.
(* the model built on the scaled table: flows scale, coefficients and durations do not *)
Definition scaleP (l : Qc) (P : params) : params :=
  {| nR := nR P; nS := nS P; nC := nC P;
     X0 := vscale l (X0 P); Z0 := mscale l (Z0 P); Y0 := mscale l (Y0 P); tech := tech P;
     invd := invd P; psi := psi P; rho := rho P; alt := alt P; zdist := zdist P; mask := mask P;
     a_base := a_base P; a_max := a_max P; a_rate := a_rate P; K := vscale l (K P) |}.

Definition shaped_v (n : nat) (v : vec) : Prop := length v = n.
Definition shaped_m (n m : nat) (a : mat) : Prop := length a = n /\ Forall (fun r => length r = m) a.

Definition C13_scale_cap : Prop :=
  forall (P : params) (l : Qc) (alpha delta : vec), shaped_v (NN P) (X0 P) ->
  cap (scaleP l P) alpha delta = vscale l (cap P alpha delta).
Definition C13_scale_opt : Prop :=
  forall (P : params) (l : Qc) (dtot capv : vec), (0 < l)%Qc ->
  shaped_v (NN P) dtot -> shaped_v (NN P) capv ->
  opt (scaleP l P) (vscale l dtot) (vscale l capv) = vscale l (opt P dtot capv).
Definition C13_scale_production : Prop :=
  forall (P : params) (l : Qc) (stock : mat) (optv : vec), (0 < l)%Qc ->
  shaped_m (nS P) (NN P) stock -> shaped_v (NN P) optv ->
  production (scaleP l P) (mscale l stock) (vscale l optv) = vscale l (production P stock optv).
Definition C13_scale_deliver : Prop :=
  forall (P : params) (l : Qc) (W : nat) (dem : mat) (x : vec), (0 < l)%Qc ->
  shaped_m (NN P) W dem -> shaped_v (NN P) x ->
  deliver (scaleP l P) W (mscale l dem) (vscale l x) = mscale l (deliver P W dem x) /\
  unmet (scaleP l P) (mscale l dem) (mscale l (deliver P W dem x))
    = vscale l (unmet P dem (deliver P W dem x)).
(* ratios: the overproduction factor does not see the scale *)
Definition C13_scale_overprod : Prop :=
  forall (P : params) (l : Qc) (alpha dtot prodv : vec), (0 < l)%Qc ->
  shaped_v (NN P) dtot -> shaped_v (NN P) prodv ->
  overprod (scaleP l P) alpha (vscale l dtot) (vscale l prodv) = overprod P alpha dtot prodv.
(* inventories and orders, when the closeness decisions coincide *)
Definition C13_scale_stock : Prop :=
  forall (P : params) (l : Qc) (stock add use : mat), (0 < l)%Qc ->
  shaped_m (nS P) (NN P) stock -> shaped_m (nS P) (NN P) add -> shaped_m (nS P) (NN P) use ->
  add_use_close (scaleP l P) (mscale l add) (mscale l use) = add_use_close P add use ->
  stock_update (scaleP l P) (mscale l stock) (mscale l add) (mscale l use)
    = mscale l (stock_update P stock add use).
Definition C13_scale_orders : Prop :=
  forall (P : params) (l : Qc) (stock : mat) (optv prodv capv : vec), (0 < l)%Qc ->
  shaped_m (nS P) (NN P) stock -> shaped_v (NN P) optv -> shaped_v (NN P) prodv ->
  shaped_v (NN P) capv -> shaped_v (NN P) (X0 P) -> shaped_m (NN P) (NN P) (Z0 P) ->
  goal_close (scaleP l P) (mscale l stock) (vscale l optv) = goal_close P stock optv ->
  orders (scaleP l P) (mscale l stock) (vscale l optv) (vscale l prodv) (vscale l capv)
    = mscale l (orders P stock optv prodv capv).
