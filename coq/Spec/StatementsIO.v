(* Spec/StatementsIO.v - statements for C12 (scalar impacts) and C15 (label order). *)
Require Import Boario.Base.QcLib Boario.Base.Vec Boario.Model.RecoveryFns Boario.Model.Ctor Boario.Model.Ingest.
From Coq Require Import Permutation.
Open Scope Qc_scope.
Open Scope nat_scope.

(* ================================================================== *)
(* C12 *)
Definition all_some_pos (l : list (option Qc)) : Prop :=
  Forall (fun o => exists w, o = Some w /\ (0 < w)%Qc) l.

Definition C12_total : Prop :=
  forall (I : Qc) (n : nat) (ws : option (list (option Qc))) (v : list Qc),
  (forall l, ws = Some l -> length l = n) ->
  distribute_scalar I n ws = COk v -> length v = n /\ sumq v = I.

Definition C12_proportions : Prop :=
  forall (I : Qc) (n : nat) (v : list Qc),
  (distribute_scalar I n None = COk v -> forall i, i < n -> nth i v 0%Qc = (I / qnat n)%Qc) /\
  (forall l, distribute_scalar I n (Some l) = COk v ->
     forall i, i < length l ->
       nth i v 0%Qc = (I * (oget (nth i l None) / sumq (map oget l)))%Qc).

Definition C12_positive : Prop :=
  forall (I : Qc) (n : nat) (ws : option (list (option Qc))) (v : list Qc),
  (forall l, ws = Some l -> length l = n /\ all_some_pos l) ->
  distribute_scalar I n ws = COk v -> forall i, i < n -> (0 < nth i v 0%Qc)%Qc.

(* regions x sectors: the share of industry (r, s) is the product of the two level shares *)
Definition C12_product : Prop :=
  forall (I : Qc) (nr ns : nat) (lr ls : list (option Qc)) (v : list Qc),
  length lr = nr -> length ls = ns -> all_some_pos lr -> all_some_pos ls ->
  distribute_regions_sectors I nr ns (Some lr) (Some ls) = COk v ->
  length v = nr * ns /\ sumq v = I /\
  forall r s, r < nr -> s < ns ->
    nth (r * ns + s) v 0%Qc =
      (I * (oget (nth r lr None) / sumq (map oget lr)) * (oget (nth s ls None) / sumq (map oget ls)))%Qc.

Definition C12_reject : Prop :=
  (forall I n ws, (I <= 0)%Qc -> distribute_scalar I n ws = CErr NullImpact) /\
  (forall I ws, (0 < I)%Qc -> distribute_scalar I 0 ws = CErr EmptySelection) /\
  (forall I n l, (0 < I)%Qc -> n <> 0 -> In None l -> distribute_scalar I n (Some l) = CErr UncoveredIndex) /\
  (forall v, (exists x, In x v /\ (x < 0)%Qc) -> from_series v = CErr NegativeEntry) /\
  (from_series [] = CErr EmptyImpact) /\
  (forall v v', from_series v = COk v' -> Forall (fun x => (0 < x)%Qc) v').

(* ================================================================== *)
(* C15 - canonicalisation does not depend on the order in which labelled entries are given *)
Definition C15_canon : Prop :=
  forall (A : Type) (l l' : list (nat * A)),
  NoDup (map fst l) -> Permutation l l' -> canon l = canon l'.
Definition C15_sorted : Prop :=
  forall (A : Type) (l : list (nat * A)),
  Permutation (sort_k l) l /\
  Sorting.Sorted.StronglySorted (fun a b => fst a <= fst b) (sort_k l).
(* a labelled matrix: permuting the rows, and permuting the cells inside every row *)
Definition C15_canon_mat_rows : Prop :=
  forall (A : Type) (m m' : list (nat * list (nat * A))),
  NoDup (map fst m) -> Permutation m m' -> canon_mat m = canon_mat m'.
Definition C15_canon_mat_cols : Prop :=
  forall (A : Type) (m m' : list (nat * list (nat * A))),
  Forall2 (fun r r' => fst r = fst r' /\ NoDup (map fst (snd r)) /\ Permutation (snd r) (snd r')) m m' ->
  canon_mat m = canon_mat m'.

(* labelled selections: listing a label twice changes nothing; the result covers exactly the
   distinct listed labels (their product for regions x sectors) and still adds up to the scalar *)
Definition C12_labelled : Prop :=
  (forall l, NoDup (dedup l) /\ (forall x, In x (dedup l) <-> In x l)) /\
  (forall l, NoDup l -> dedup l = l) /\
  (forall I aff w v, snd (scalar_labelled I aff w) = COk v ->
     fst (scalar_labelled I aff w) = dedup aff /\ length v = length (dedup aff) /\ sumq v = I) /\
  (forall I regs secs wr ws v, snd (regsec_labelled I regs secs wr ws) = COk v ->
     fst (regsec_labelled I regs secs wr ws) = list_prod (dedup regs) (dedup secs) /\
     length v = (length (dedup regs) * length (dedup secs))%nat /\ sumq v = I).
