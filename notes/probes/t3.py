from mk import *
from boario.model_base import ARIOBaseModel
from boario.extended_models import ARIOPsiModel
from boario.simulation import Simulation
from boario import event
import logging; logging.getLogger("boario").setLevel(logging.CRITICAL)
io = rnd(2,3,seed=1)
imp = pd.Series({("r0","s1"): 5.0, ("r1","s0"): 3.0})
# C17: default output dir shared
m1 = ARIOPsiModel(io, monetary_factor=1); s1 = Simulation(m1, n_temporal_units_to_sim=5, save_records=["production_realised"])
s1.add_event(event.from_series(imp, event_type="recovery", occurrence=1, duration=1, recovery_tau=3, event_monetary_factor=1))
s1.loop(); a = s1.production_realised.values.copy()
m2 = ARIOPsiModel(io, monetary_factor=1); s2 = Simulation(m2, n_temporal_units_to_sim=5, save_records=["production_realised"])
print("same dir:", s1.records_storage == s2.records_storage)
print("s1 records after s2 constructed equal to before:", np.array_equal(a, s1.production_realised.values, equal_nan=True))
s2.loop()
print("s1 records after s2 run equal to before:", np.array_equal(a, s1.production_realised.values, equal_nan=True))
# save_records default list mutated?
print("default save_records:", Simulation.__init__.__defaults__)
# D8: household impact mutated
hh = pd.Series({("r1","fd0"): 2.0, ("r0","fd0"): 1.0}); hh0 = hh.copy()
ev = event.from_series(imp, event_type="rebuild", occurrence=1, duration=1, rebuild_tau=3, rebuilding_sectors={"s2":1.0}, households_impact=hh, event_monetary_factor=1)
print("hh unchanged:", hh.equals(hh0) and list(hh.index)==list(hh0.index) and hh.index.names==hh0.index.names, list(hh.index), hh.index.names)
imp2 = pd.Series({("r1","s0"): 3.0, ("r0","s1"): 5.0}); imp20 = imp2.copy()
ev = event.from_series(imp2, event_type="recovery", occurrence=1, duration=1, recovery_tau=3, event_monetary_factor=1)
print("imp unchanged:", list(imp2.index)==list(imp20.index), imp2.index.names)
# rebuilding_sectors Series/dict mutated?
# D9: capital vector Series positional
K = pd.Series(np.arange(1,7)*100.0, index=m1.industries)
Kp = K.iloc[::-1]
ma = ARIOPsiModel(io, productive_capital_vector=K); mb = ARIOPsiModel(io, productive_capital_vector=Kp)
print("Series capital label-matched:", np.array_equal(np.asarray(ma.productive_capital), np.asarray(mb.productive_capital)))
mc = ARIOPsiModel(io, productive_capital_vector=K.to_frame()); md = ARIOPsiModel(io, productive_capital_vector=Kp.to_frame())
print("DF capital label-matched:", np.array_equal(np.asarray(mc.productive_capital), np.asarray(md.productive_capital)), type(ma.productive_capital))
me = ARIOPsiModel(io, productive_capital_vector=K.to_frame().T)
print("DF row capital:", np.asarray(me.productive_capital))
