from mk import *
import tempfile, copy
from boario.extended_models import ARIOPsiModel
from boario.simulation import Simulation
from boario import event
import logging; logging.getLogger("boario").setLevel(logging.CRITICAL)
RECS = ["production_realised","production_capacity","final_demand","intermediate_demand","rebuild_demand","final_demand_unmet","rebuild_prod","productive_capital_to_recover"]
io = rnd(3,3,seed=2)
imp = pd.Series({("r0","s1"): 5.0, ("r1","s0"): 3.0})
def run(events, n=25):
    m = ARIOPsiModel(io, monetary_factor=1); s = Simulation(m, n_temporal_units_to_sim=n, boario_output_dir=tempfile.mkdtemp())
    for e in events: s.add_event(e)
    s.loop(); return {r: getattr(s,r).values.copy() for r in RECS}
def same(a,b): return [k for k in a if not np.array_equal(a[k],b[k],equal_nan=True)]
def reb(secs): return event.from_series(imp, event_type="rebuild", occurrence=2, duration=1, rebuild_tau=4, rebuilding_sectors=secs, event_monetary_factor=1)
a = run([reb({"s2":0.5,"s1":0.3,"s0":0.2})]); b = run([reb({"s0":0.2,"s2":0.5,"s1":0.3})])
print("C15 rebuilding_sectors order bit mism:", same(a,b))
ev = reb({"s2":1.0}); a = run([ev]); b = run([ev]); c = run([reb({"s2":1.0})])
print("C17 event reuse mism:", same(a,b), same(a,c))
# io untouched?
io2 = rnd(3,3,seed=2); 
print("table untouched:", all(getattr(io,k).equals(getattr(io2,k)) for k in ["Z","Y","x","A"]))
# weights order
w1 = pd.Series({("r0","s1"): 2.0, ("r1","s0"): 1.0, ("r2","s2"): 4.0}); w2 = w1.iloc[::-1]
e1 = event.from_scalar_industries(10.0, event_type="recovery", affected_industries=list(w1.index), impact_distrib=w1, recovery_tau=3, event_monetary_factor=1)
e2 = event.from_scalar_industries(10.0, event_type="recovery", affected_industries=list(w2.index), impact_distrib=w2, recovery_tau=3, event_monetary_factor=1)
print("C15 weights order:", e1.impact.equals(e2.impact), e1.impact.values, e2.impact.values, e1.impact.sum()==10.0)
