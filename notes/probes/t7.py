from mk import *
from boario.extended_models import ARIOPsiModel
from boario.model_base import ARIOBaseModel
from boario.simulation import Simulation
from boario import event
import logging; logging.getLogger("boario").setLevel(logging.CRITICAL)
io = rnd(2,3,seed=1)
imp = pd.Series({("r0","s1"): 0.9, ("r1","s1"): 0.9})
for psi in [0.1, 0.5, 0.8, 1.0]:
    m = ARIOPsiModel(io, monetary_factor=1, psi_param=psi, main_inv_dur=2, inventory_restoration_tau=30); s = Simulation(m, n_temporal_units_to_sim=80, register_stocks=True)
    ev = event.from_series(imp, event_type="arbitrary", occurrence=1, duration=40, recovery_tau=4)
    s.add_event(ev)
    try:
        s.loop()
        st = s.inputs_stocks.values
        print(psi, "crashed", s.has_crashed, "steps", s.n_temporal_units_simulated, "min stock", np.nanmin(st), "min prod ratio", np.nanmin(s.production_realised.values/m.X_0), "shortage", m.had_shortage, "rows written", (~np.isnan(s.production_realised.values[:,0])).sum())
    except Exception as e:
        print(psi, "EXC", type(e.__cause__).__name__, e.__cause__)
