from mk import *
import tempfile, pathlib, json
from boario.extended_models import ARIOPsiModel
from boario.simulation import Simulation
from boario import event
import logging; logging.getLogger("boario").setLevel(logging.CRITICAL)
io = rnd(2,3,seed=1)
imp = pd.Series({("r0","s1"): 5.0, ("r1","s0"): 3.0})
ALL = ["production_realised","production_capacity","final_demand","intermediate_demand","rebuild_demand","overproduction","final_demand_unmet","rebuild_prod","inputs_stocks","limiting_inputs","productive_capital_to_recover"]
def evs():
    return [event.from_series(imp, event_type="recovery", occurrence=2, duration=2, recovery_tau=5, event_monetary_factor=1),
            event.from_series(imp*2, event_type="rebuild", occurrence=3, duration=1, rebuild_tau=4, rebuilding_sectors={"s2":1.0}, event_monetary_factor=1)]
def run(save, reg=True, n=20):
    d = tempfile.mkdtemp()
    m = ARIOPsiModel(io, monetary_factor=1); s = Simulation(m, n_temporal_units_to_sim=n, boario_output_dir=d, save_records=save, register_stocks=reg)
    for e in evs(): s.add_event(e)
    s.loop(); return s, pathlib.Path(d)
mem,_ = run([])
fil,d = run("all")
for r in ALL:
    a = getattr(mem, r).values; b = getattr(fil, r).values
    f = d/"records"/r
    spec = {"limiting_inputs":"byte"}.get(r,"float64")
    raw = np.memmap(f, dtype=spec, mode="r").reshape(a.shape) if f.exists() else None
    print(r, "mem==file-backed:", np.array_equal(a,b,equal_nan=True), "| file readback == file-backed:", None if raw is None else np.array_equal(np.asarray(raw), b, equal_nan=True), "| allnan(mem):", np.isnan(a.astype(float)).all())
print(sorted(p.name for p in (d/"jsons").iterdir()))
print(json.load(open(d/"jsons"/"simulated_params.json")))
print(json.load(open(d/"jsons"/"simulated_events.json"))[1])
