from mk import *
import tempfile
from boario.extended_models import ARIOPsiModel
from boario.model_base import ARIOBaseModel
from boario.simulation import Simulation
from boario import event
import logging; logging.getLogger("boario").setLevel(logging.CRITICAL)
io = rnd(2,3,seed=1)
imp = pd.Series({("r0","s1"): 5.0, ("r1","s0"): 3.0})
for step in [2,7]:
  for cls in [ARIOBaseModel, ARIOPsiModel]:
    m = cls(io, monetary_factor=1, temporal_units_by_step=step); s = Simulation(m, n_temporal_units_to_sim=40, boario_output_dir=tempfile.mkdtemp())
    s.loop()
    pr = s.production_realised.values
    rows = ~np.isnan(pr).all(axis=1)
    print(step, cls.__name__, "rows written", np.where(rows)[0][:6], "max dev", np.nanmax(np.abs(pr[rows]/m.X_0-1)), "inv_dur", m.inv_duration, "simulated", s.n_temporal_units_simulated)
# zero-output industry
regions=["r0","r1"]; sectors=["s0","s1","s2"]
Z = io.Z.values.copy(); Y = io.Y.values.copy()
Z[4,:]=0; Y[4,:]=0; Z[:,4]=0   # industry (r1,s1) has zero output & zero inputs
io0 = mk(regions, sectors, Z, Y)
print("x:", io0.x.values.ravel())
for ot in ["alt","noalt"]:
  for cls in [ARIOBaseModel, ARIOPsiModel]:
    try:
        m = cls(io0, monetary_factor=1, order_type=ot); s = Simulation(m, n_temporal_units_to_sim=10, boario_output_dir=tempfile.mkdtemp()); s.loop()
        pr = s.production_realised.values
        print("zero-output", ot, cls.__name__, "nan:", np.isnan(pr).sum(), "maxabs dev", np.nanmax(np.abs(pr-m.X_0)))
    except Exception as e:
        print("zero-output", ot, cls.__name__, "EXC", repr(e.__cause__ or e)[:150])
