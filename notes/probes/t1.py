from mk import *
from boario.model_base import ARIOBaseModel
from boario.extended_models import ARIOPsiModel
from boario.simulation import Simulation
io = rnd(2,3,seed=1, sparse=0.0)
# Sparse: make input s0 unused by industry (r0,s1): column (r0,s1), rows (*,s0)
Z = io.Z.copy(); Z.loc[(slice(None),'s0'),('r0','s1')] = 0.0
io2 = mk(["r0","r1"],["s0","s1","s2"], Z.values, io.Y.values)
for ot in ["alt","noalt"]:
  for cls in [ARIOBaseModel, ARIOPsiModel]:
    m = cls(io2, order_type=ot)
    print(cls.__name__, ot, "Z_distrib nan:", np.isnan(m.Z_distrib).sum())
    s = Simulation(m, n_temporal_units_to_sim=10)
    s.loop()
    print("  prod nan:", np.isnan(s.production_realised.values).sum(), "crashed", s.has_crashed, "max rel dev", np.nanmax(np.abs(s.production_realised.values/m.X_0-1)))
