import warnings, numpy as np, pandas as pd, pymrio
warnings.simplefilter("ignore")
def mk(regions, sectors, Z, Y, fdcats=("Final demand",), x=None):
    idx = pd.MultiIndex.from_product([regions, sectors], names=["region","sector"])
    ycol = pd.MultiIndex.from_product([regions, list(fdcats)], names=["region","category"])
    Z = pd.DataFrame(np.array(Z,dtype=float), index=idx, columns=idx)
    Y = pd.DataFrame(np.array(Y,dtype=float), index=idx, columns=ycol)
    io = pymrio.IOSystem(Z=Z, Y=Y)
    if x is None:
        x = Z.sum(axis=1)+Y.sum(axis=1)
    io.x = pd.DataFrame({"indout": x})
    io.A = pymrio.calc_A(io.Z, io.x)
    return io
def rnd(nr, ns, seed=0, sparse=0.0, va=0.5, nfd=1):
    rng = np.random.default_rng(seed)
    n = nr*ns
    regions=[f"r{i}" for i in range(nr)]; sectors=[f"s{i}" for i in range(ns)]
    Z = rng.uniform(1,10,(n,n)); 
    if sparse>0: Z[rng.uniform(size=(n,n))<sparse]=0
    Y = rng.uniform(1,10,(n,nr*nfd))
    # balance: x = Z.1+Y.1 ; need column sums of Z <= x (VA>=0): scale Y up
    x = Z.sum(1)+Y.sum(1)
    k = max(1.0,(Z.sum(0)/x).max()/(1-va)) if va<1 else 1
    Y = Y + ((k-1)*Z.sum(1)/ (nr*nfd))[:,None] + 0
    # recompute to make sure colsum(Z) <= x
    x = Z.sum(1)+Y.sum(1)
    while (Z.sum(0) > x*(1-va*0.5)).any():
        Y = Y*1.5; x = Z.sum(1)+Y.sum(1)
    return mk(regions, sectors, Z, Y, fdcats=[f"fd{i}" for i in range(nfd)])
