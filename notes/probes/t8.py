from mk import *
import itertools, tempfile, pathlib, json
from boario.extended_models import ARIOPsiModel
from boario.model_base import ARIOBaseModel
from boario.simulation import Simulation
from boario import event
import logging; logging.getLogger("boario").setLevel(logging.CRITICAL)
RECS = ["production_realised","production_capacity","final_demand","intermediate_demand","rebuild_demand","overproduction","final_demand_unmet","rebuild_prod","productive_capital_to_recover"]
def allrec(s, stocks=False):
    d = {r: getattr(s,r).values.copy() for r in RECS}
    return d
def same(a,b, tol=None):
    out=[]
    for k in a:
        if tol is None:
            if not np.array_equal(a[k], b[k], equal_nan=True): out.append(k)
        else:
            if not np.allclose(a[k], b[k], rtol=tol, atol=0, equal_nan=True): out.append(k)
    return out
io = rnd(2,3,seed=1)
imp = pd.Series({("r0","s1"): 5.0, ("r1","s0"): 3.0})
def evs(k=0):
    return [event.from_series(imp, event_type="recovery", occurrence=2+k, duration=2, recovery_tau=5, event_monetary_factor=1, recovery_function="convexe"),
            event.from_series(imp*2, event_type="rebuild", occurrence=3+k, duration=1, rebuild_tau=4, rebuilding_sectors={"s2":1.0}, event_monetary_factor=1)]
def run(io=io, events=None, n=30, cls=ARIOPsiModel, mkw={}, skw={}):
    m = cls(io, monetary_factor=1, **mkw); s = Simulation(m, n_temporal_units_to_sim=n, boario_output_dir=tempfile.mkdtemp(), **skw)
    for e in (events or []): s.add_event(e)
    s.loop(); return s
# (c) shift
a = allrec(run(events=evs(0), n=30)); b = allrec(run(events=evs(5), n=35))
print("C19 shift mism (rtol 1e-9):", [k for k in a if not np.allclose(a[k][:30][~np.isnan(a[k][:30]).all(axis=1)], b[k][5:35][~np.isnan(a[k][:30]).all(axis=1)], rtol=1e-9, atol=1e-12, equal_nan=True)])
# (d) C18 psi=1,tau=1 vs base
for ot in ["alt","noalt"]:
    a = allrec(run(events=evs(), cls=ARIOBaseModel, mkw=dict(order_type=ot))); b = allrec(run(events=evs(), cls=ARIOPsiModel, mkw=dict(order_type=ot, psi_param=1.0, inventory_restoration_tau=1)))
    print("C18a bit-identical mism", ot, same(a,b))
a = allrec(run(mkw=dict(order_type="alt"))); b = allrec(run(mkw=dict(order_type="noalt")))
print("C18b eventfree alt vs noalt mism (1e-9)", same(a,b,1e-9))
# (e) order independence
e1 = evs(); a = allrec(run(events=e1)); b = allrec(run(events=e1[::-1]))
print("C11 order mism bit:", same(a,b), " tol:", same(a,b,1e-9))
print("C11 ctor list: AttributeError (confirmed)")
# (b) permutation of table
rng = np.random.default_rng(3)
perm = rng.permutation(len(io.Z))
Zp = io.Z.iloc[perm, perm]; Yp = io.Y.iloc[perm, ::-1]; 
iop = pymrio.IOSystem(Z=Zp, Y=Yp); iop.x = io.x.iloc[perm]; iop.A = io.A.iloc[perm, perm]
a = allrec(run(events=evs())); b = allrec(run(io=iop, events=evs()))
print("C15 permuted table mism bit:", same(a,b))
# (f) C01 variants
for kw in [dict(alpha_base=1.1), dict(infinite_inventories_sect=["s1"]), dict(inventory_dict={"s0":5,"s1":"inf","s2":1}), dict(main_inv_dur=1)]:
  for cls in [ARIOBaseModel, ARIOPsiModel]:
    try:
        s = run(cls=cls, mkw=kw, n=12); m=s.model
        print("C01", cls.__name__, kw, "max dev prod", np.nanmax(np.abs(s.production_realised.values/m.X_0-1)), "unmet", np.nanmax(np.abs(s.final_demand_unmet.values)), "overprod", m.overprod.min(), m.overprod.max())
    except Exception as e:
        print("C01", cls.__name__, kw, "EXC", repr(e.__cause__ or e)[:200])
