from mk import *
import tempfile
from boario.extended_models import ARIOPsiModel
from boario.simulation import Simulation
from boario import event
import logging; logging.getLogger("boario").setLevel(logging.CRITICAL)
io = rnd(2,3,seed=1)
Z = io.Z.values.copy(); 
# industry (r0,s1)=idx1 buys nothing from sector s2 (rows 2 and 5)
Z[2,1]=0; Z[5,1]=0
io2 = mk(["r0","r1"],["s0","s1","s2"], Z, io.Y.values)
imp = pd.Series({("r0","s1"): 5.0, ("r1","s0"): 3.0})
m = ARIOPsiModel(io2, monetary_factor=1); s = Simulation(m, n_temporal_units_to_sim=12, boario_output_dir=tempfile.mkdtemp())
ev = event.from_series(imp, event_type="rebuild", occurrence=1, duration=1, rebuild_tau=4, rebuilding_sectors={"s2":1.0}, event_monetary_factor=1)
try:
    s.add_event(ev)
    print("distributed nan:", np.isnan(s._event_tracking[0]._distributed_reb_dem_indus.values).sum(), "sum", np.nansum(s._event_tracking[0]._distributed_reb_dem_indus.values))
    s.loop()
    print("crashed", s.has_crashed, "nan in prod:", np.isnan(s.production_realised.values).sum(), "steps", s.n_temporal_units_simulated, s._event_tracking[0].status)
except Exception as e:
    print("EXC", repr(e.__cause__ or e)[:200])
