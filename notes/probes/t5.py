from mk import *
from boario.extended_models import ARIOPsiModel
from boario.simulation import Simulation
from boario import event
import logging; logging.getLogger("boario").setLevel(logging.CRITICAL)
io = rnd(2,3,seed=1)
imp = pd.Series({("r0","s1"): 0.5, ("r1","s0"): 0.25})
m = ARIOPsiModel(io, monetary_factor=1); s = Simulation(m, n_temporal_units_to_sim=14)
ev = event.from_series(imp, event_type="arbitrary", occurrence=2, duration=3, recovery_tau=4, recovery_function="linear")
s.add_event(ev)
rows=[]
for t in range(14):
    s.next_step()
    rows.append((t, s._event_tracking[0].status, None if s._event_tracking[0]._prod_delta_from_arb is None else s._event_tracking[0]._prod_delta_from_arb.values[[1,3]].tolist()))
cap = s.production_capacity.values / m.X_0
for r,c in zip(rows, cap): print(r, np.round(1-c[[1,3]],4))
print("--- recovery event")
imp = pd.Series({("r0","s1"): 50., ("r1","s0"): 25.})
m = ARIOPsiModel(io, monetary_factor=1); s = Simulation(m, n_temporal_units_to_sim=14)
ev = event.from_series(imp, event_type="recovery", occurrence=2, duration=3, recovery_tau=4, recovery_function="linear", event_monetary_factor=1)
s.add_event(ev)
for t in range(14):
    s.next_step(); print(t, s._event_tracking[0].status, s.productive_capital_to_recover.values[t][[1,3]], np.round(1-s.production_capacity.values[t][[1,3]]/m.X_0[[1,3]],4))
