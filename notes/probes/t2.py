from mk import *
import traceback
from boario.model_base import ARIOBaseModel
from boario.extended_models import ARIOPsiModel
from boario.simulation import Simulation
from boario import event
import logging; logging.getLogger("boario").setLevel(logging.CRITICAL)
io = rnd(2,3,seed=1)
def model(**kw):
    return ARIOPsiModel(io, monetary_factor=1, **kw)
# D2: overproduction record in memory
m = model(); s = Simulation(m, n_temporal_units_to_sim=5); s.loop()
print("D2 overproduction record rows nan:", np.isnan(s.overproduction.values).all())
# single rebuilding event w/ household damages
imp = pd.Series({("r0","s1"): 5.0, ("r1","s0"): 3.0})
X = m.X_0; print("X0", X, "K", m.productive_capital)
def reb(hh=None, occ=1, tau=3, name=None, factor=1.0, emf=1, secs={"s2":1.0}, imp=imp):
    return event.from_series(imp, event_type="rebuild", occurrence=occ, duration=1, rebuild_tau=tau, rebuilding_sectors=secs, rebuilding_factor=factor, households_impact=hh, event_monetary_factor=emf, name=name)
def run(evs, n=60, **kw):
    m = model(**kw); s = Simulation(m, n_temporal_units_to_sim=n)
    for e in evs: s.add_event(e)
    try:
        s.loop(); print("  ok; crashed", s.has_crashed, "statuses", [t.status for t in s._event_tracking], "steps", s.n_temporal_units_simulated)
    except Exception as e:
        c = e.__cause__
        print("  EXC at t=", s.current_temporal_unit, type(c).__name__, str(c)[:150], [t.status for t in s._event_tracking])
    return s
print("one rebuild, no hh"); s=run([reb()])
hh = pd.Series({("r0","fd0"): 2.0})
print("one rebuild, hh"); s=run([reb(hh=hh.copy())])
print("two rebuild, no hh, same time"); s=run([reb(), reb()])
print("two rebuild, no hh, different size -> one finishes first"); s=run([reb(imp=imp*0.01), reb(occ=2)])
print("two rebuild, hh both"); s=run([reb(hh=hh.copy()), reb(hh=hh.copy(), occ=3)])
