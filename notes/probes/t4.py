from mk import *
from boario.extended_models import ARIOPsiModel
from boario.simulation import Simulation
from boario import event
import logging; logging.getLogger("boario").setLevel(logging.CRITICAL)
io = rnd(2,3,seed=1)
io.Z*=1000; io.Y*=1000; io.x*=1000
imp = pd.Series({("r0","s1"): 5.0, ("r1","s0"): 3.0})
def run(emf, scale, typ="rebuild", mf=10**6, n=40):
    m = ARIOPsiModel(io, monetary_factor=mf); s = Simulation(m, n_temporal_units_to_sim=n)
    if typ=="rebuild":
        ev = event.from_series(imp*scale, event_type="rebuild", occurrence=1, duration=1, rebuild_tau=5, rebuilding_sectors={"s2":0.7,"s1":0.3}, rebuilding_factor=0.9, event_monetary_factor=emf)
    else:
        ev = event.from_series(imp*scale, event_type="recovery", occurrence=1, duration=1, recovery_tau=7, event_monetary_factor=emf)
    s.add_event(ev); s.loop(); return s
for typ in ["recovery","rebuild"]:
    a = run(10**6, 1, typ); b = run(10**3, 1000, typ); c = run(1, 10**6, typ)
    for nm in ["productive_capital_to_recover","rebuild_demand","rebuild_prod","production_capacity","production_realised"]:
        A=getattr(a,nm).values; B=getattr(b,nm).values; C=getattr(c,nm).values
        print(typ, nm, "max|a-b|", np.nanmax(np.abs(A-B)), "max|a-c|", np.nanmax(np.abs(A-C)), "scale", np.nanmax(np.abs(A)))
    print(a.rebuild_demand.iloc[:4].sum(axis=1).values, c.rebuild_demand.iloc[:4].sum(axis=1).values)
