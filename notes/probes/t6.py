from mk import *
from boario.extended_models import ARIOPsiModel
from boario.simulation import Simulation
from boario import event
import logging; logging.getLogger("boario").setLevel(logging.CRITICAL)
io = rnd(2,3,seed=1)
imp = pd.Series({("r0","s1"): 5.0, ("r1","s0"): 3.0})
for secs in [{"s2":1.0}, {"s2":0.7,"s1":0.3}]:
  for hh in [None, pd.Series({("r0","fd0"): 2.0})]:
    m = ARIOPsiModel(io, monetary_factor=1); s = Simulation(m, n_temporal_units_to_sim=30)
    ev = event.from_series(imp, event_type="rebuild", occurrence=1, duration=1, rebuild_tau=5, rebuilding_sectors=secs, rebuilding_factor=0.9, event_monetary_factor=1, households_impact=hh)
    s.add_event(ev)
    tr = s._event_tracking[0]
    print(secs, "hh" if hh is not None else "nohh", "expected total", (imp.sum() + (0 if hh is None else hh.sum()))*0.9, "distributed indus", tr._distributed_reb_dem_indus.values.sum(), "house", None if tr._distributed_reb_dem_house is None else tr._distributed_reb_dem_house.values.sum())
    print(tr._distributed_reb_dem_indus.loc[:, imp.index].round(3).to_string())
    for t in range(4):
        s.next_step()
    print("row2 rebuild_demand", s.rebuild_demand.iloc[2].round(3).values, "K lost", s.productive_capital_to_recover.iloc[1:4].round(3).values.tolist())
