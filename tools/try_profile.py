"""dev helper: tools/try_profile.py <profile> <n> [seed]  - run n scenarios of one profile through
the lock-step correspondence and every monitor; print what disagrees."""
import collections
import multiprocessing as mp
import os
import random
import sys

ROOT = os.path.dirname(os.path.dirname(os.path.abspath(__file__)))
sys.path.insert(0, ROOT)
from harness import cases, gen, monitors, suite, ties  # noqa: E402

prof, n = sys.argv[1], int(sys.argv[2])
seed = int(sys.argv[3]) if len(sys.argv) > 3 else 0
rng = random.Random(f"try-{prof}-{seed}")
scns = [gen.gen_scenario(rng.randrange(10**9), prof) for _ in range(n)]
with mp.get_context("fork").Pool(16) as pool:
    out = pool.map(suite._worker, [(s, 6, i) for i, s in enumerate(scns)], chunksize=1)
out.sort(key=lambda x: x[0])
files = [(os.path.join(cases.BUILD, f"try_{os.getpid()}_{i}"), cf) for i, tr, cf, info in out if cf.checks or cf.pre]
verd = cases.run_casefiles(files, jobs=16)
for p, _ in files:
    try:
        os.remove(p + ".v")
    except OSError:
        pass
cnt = collections.Counter()
for tag, c, d in verd:
    cnt[(tag["ob"], c)] += 1
print("verdict codes:", sorted((k for k in cnt.items() if k[0][1] != 0)), "total", len(verd))
bad = [(t, c, d) for t, c, d in verd if c not in (0,)]
for t, c, d in bad[:12]:
    print("  ", t["scn"], t["t"], t["ob"], c, str(d)[-160:])
errs = collections.Counter()
for i, tr, cf, info in out:
    e = tr.get("error")
    errs[(e or {}).get("root_class"), ((e or {}).get("root_msg") or "")[:60], bool(tr.get("crashed"))] += 1
print("run outcomes:", dict(errs))
mons = [monitors.mon_c01, monitors.mon_c03, monitors.mon_c04, monitors.mon_c05, monitors.mon_c06, monitors.mon_c07, monitors.mon_c08,
        monitors.mon_c09, monitors.mon_c10, monitors.mon_c14, monitors.mon_finite, monitors.mon_run_ok("C11")]
mc = collections.Counter()
first = {}
for i, tr, cf, info in out:
    for m in mons:
        if m is monitors.mon_c01 and tr["scenario"].get("events"):
            continue
        try:
            fs = m(tr) if m is not monitors.mon_finite else m(tr, "C20")
        except TypeError:
            fs = m(tr)
        for f in fs:
            mc[(f["property"], f["what"][:70])] += 1
            first.setdefault((f["property"], f["what"][:70]), (tr["scenario"]["id"], f.get("t")))
print("monitor failures:", dict(mc))
for k, v in first.items():
    print("  ", k, v)
print("create obligations:", sum(v for (ob, c), v in cnt.items() if ob.startswith("create.")), "phase:", sum(v for (ob, c), v in cnt.items() if ob.startswith("phase.")))
print("late registrations:", sum(1 for i, tr, cf, info in out if tr.get("registrations")), "of", len(out),
      "| reg obligations:", sum(v for (ob, c), v in cnt.items() if ob.startswith("reg.")),
      "| dt>1 off-grid events:", sum(1 for s in scns for e in s["events"] if s["model"]["dt"] > 1 and (e["occ"] % s["model"]["dt"] or e["dur"] % s["model"]["dt"])))
