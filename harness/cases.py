"""Turn implementation snapshots into Coq case files and evaluate them.

Every binary64 value is converted *exactly* (float.as_integer_ratio) into the
rational  mantissa * 2^exponent  and written as `(q m e)`.
"""
from __future__ import annotations

import hashlib
import math
import os
import re
import subprocess
import time

import numpy as np

COQ_DIR = os.path.join(os.path.dirname(os.path.dirname(os.path.abspath(__file__))), "coq")
BUILD = os.path.join(os.path.dirname(COQ_DIR), "build")

HEADER = """Require Import Boario.Base.QcLib Boario.Base.Vec Boario.Model.Econ Boario.Corr.Check.
Require Import Boario.Model.Events Boario.Corr.CheckEv Boario.Model.Init Boario.Model.Tracker Boario.Model.Ingest Boario.Corr.CheckInit.
Require Import Boario.Model.Create Boario.Corr.CheckCreate Boario.Model.Sim Boario.Corr.CheckStep.
Open Scope Qc_scope.
Definition q (m e : Z) : Qc := of_me m e.
Arguments q (_ _)%Z.
"""


class NonFinite(Exception):
    pass


def qnum(x):
    x = float(x)
    if not math.isfinite(x):
        raise NonFinite(repr(x))
    if x == 0.0:
        return "0"
    n, d = x.as_integer_ratio()
    e = -(d.bit_length() - 1)
    if e == 0:
        # strip trailing zero bits to keep literals short
        tz = (n & -n).bit_length() - 1
        n >>= tz
        e = tz
    ns = str(n) if n >= 0 else f"({n})"
    es = str(e) if e >= 0 else f"({e})"
    return f"(q {ns} {es})"


def qvec(v):
    return "[" + "; ".join(qnum(x) for x in np.asarray(v, dtype=float).ravel()) + "]"


def qmat(a):
    a = np.asarray(a, dtype=float)
    if a.ndim == 1:
        a = a.reshape(1, -1)
    return "[" + ";\n   ".join(qvec(r) for r in a) + "]"


def bmat(a):
    a = np.asarray(a, dtype=bool)
    return "[" + ";\n   ".join("[" + "; ".join("true" if x else "false" for x in r) + "]" for r in a) + "]"


def qfrac(x):
    """Exact rational of a Python float as `(q m e)` (alias) or of an int."""
    return qnum(x)


class CaseFile:
    def __init__(self):
        self.defs = []          # text of definitions
        self.names = {}         # content hash -> name
        self.checks = []        # (tag, coq expr) ; tag is any JSON-able
        self.pre = []           # (tag, code) decided without Coq (e.g. NONFINITE)
        self.k = 0

    def define(self, kind, value, typ):
        """Define a constant once per distinct content; returns its name."""
        if kind == "vec":
            txt = qvec(value)
        elif kind == "mat":
            txt = qmat(value)
        elif kind == "bmat":
            txt = bmat(value)
        else:
            txt = value
        h = hashlib.sha1((typ + txt).encode()).hexdigest()
        if h in self.names:
            return self.names[h]
        name = f"d{self.k}"
        self.k += 1
        self.names[h] = name
        self.defs.append(f"Definition {name} : {typ} := {txt}.")
        return name

    def vec(self, v):
        return self.define("vec", v, "vec")

    def mat(self, a):
        return self.define("mat", a, "mat")

    def bm(self, a):
        return self.define("bmat", a, "list (list bool)")

    def raw(self, txt, typ):
        return self.define("raw", txt, typ)

    def check(self, tag, expr):
        self.checks.append((tag, expr))

    def text(self):
        body = "\n".join(self.defs)
        vs = ";\n  ".join((e if isinstance(t, list) else "[" + e + "]") for t, e in self.checks) if self.checks else ""
        return (HEADER + body + "\nDefinition verdicts : list nat := concat [\n  " + vs +
                "].\nEval vm_compute in verdicts.\n")


def params_expr(cf, init):
    """Coq record for the static parameters, from the implementation's own init snapshot."""
    nS = init["nS"]
    invd = []
    for v in init["inv_duration"]:
        invd.append("None" if math.isinf(v) else f"Some {qnum(v)}")
    fields = dict(
        nR=f"{init['nR']}%nat", nS=f"{nS}%nat", nC=f"{init['nC']}%nat",
        X0=cf.vec(init["X0"]), Z0=cf.mat(init["Z0"]), Y0=cf.mat(init["Y0"]), tech=cf.mat(init["tech"]),
        invd="[" + "; ".join(invd) + "]",
        psi=qnum(init["psi"]), rho=cf.vec(init["rho"]),
        alt="true" if init["alt"] else "false",
        zdist=cf.mat(np.nan_to_num(init["Z_distrib"], nan=0.0, posinf=0.0, neginf=0.0)),
        mask=cf.bm(init["mask"]),
        a_base=qnum(init["a_base"]), a_max=qnum(init["a_max"]), a_rate=qnum(init["a_rate"]),
        K=cf.vec(init["K"]),
    )
    txt = "{| " + "; ".join(f"{k} := {v}" for k, v in fields.items()) + " |}"
    return cf.raw(txt, "params")


def fix_stock(init, stock):
    """Rows of inputs declared infinite must be +inf in the implementation; the model
    ignores them (they are written as 0).  Returns (clean matrix, ok?)."""
    s = np.array(stock, dtype=float, copy=True)
    ok = True
    for p, d in enumerate(init["inv_duration"]):
        if math.isinf(d):
            if not np.all(np.isposinf(s[p])):
                ok = False
            s[p] = 0.0
    return s, ok


def econ_checks(cf, P, init, step, sid, want=None):
    """Emit the per-phase obligations of one recorded step."""
    t = step["t"]
    N = init["nR"] * init["nS"]

    def tag(ob):
        return {"scn": sid, "t": t, "ob": ob}

    def guarded(ob, fn):
        if want is not None and ob not in want:
            return
        try:
            expr = fn()
        except NonFinite as e:
            cf.pre.append((tag(ob), 4, str(e)))
            return
        except KeyError:
            return
        if expr is not None:
            cf.check(tag(ob), expr)

    for key in ("over_pre", "prod_pre", "ord_pre"):
        if key in step:
            pre_ = step[key]
            guarded("dtot.coherent", lambda: f"chk_dtot {P} {pre_['dem'].shape[1]}%nat {cf.mat(pre_['dem'])} {cf.vec(pre_['dtot'])}")
    if "prod_pre" in step and step.get("econ_post_events") is not None and (want is None or "phase.overprod" in want):
        called = "overprod" in step.get("phases", [])
        try:
            cf.check([tag("phase.overprod"), tag("phase.alpha_kept")],
                     f"chk_phase_overprod {P} {t}%nat {'true' if called else 'false'} "
                     f"{cf.vec(step['econ_post_events']['alpha'])} {cf.vec(step['prod_pre']['alpha'])}")
        except NonFinite as e:
            cf.pre.append((tag("phase.overprod"), 4, str(e)))
    if "over_pre" in step and "over_post_alpha" in step:
        pre = step["over_pre"]
        guarded("overprod", lambda: f"chk_overprod {P} {cf.vec(pre['alpha'])} {cf.vec(pre['dtot'])} "
                f"{cf.vec(pre['prod'])} {cf.vec(step['over_post_alpha'])}")
    if "prod_pre" in step and "cap" in step:
        pre = step["prod_pre"]
        stock, okinf = fix_stock(init, pre["stock"])
        if not okinf:
            cf.pre.append((tag("stock.infinite"), 1, "declared-infinite inventory row is not +inf"))
        guarded("cap", lambda: f"chk_cap {P} {cf.vec(pre['alpha'])} {cf.vec(pre['delta'])} {cf.vec(step['cap'])}")
        guarded("opt", lambda: f"chk_opt {P} {cf.vec(pre['dtot'])} {cf.vec(step['cap'])} {cf.vec(step['opt'])}")
        guarded("constraints", lambda: f"chk_cons {P} {cf.vec(step['opt'])} {cf.mat(step['cons'])}")
        if "prod_post" in step:
            guarded("production", lambda: f"chk_prod {P} {cf.mat(stock)} {cf.vec(step['opt'])} {cf.vec(step['prod_post'])}")
            guarded("limiting", lambda: f"chk_limiting {P} {cf.mat(stock)} {cf.vec(step['opt'])} {cf.bm(step['limiting'])}")
    if "dist_pre" in step and "dist_post" in step:
        pre, post = step["dist_pre"], step["dist_post"]
        W = pre["dem"].shape[1]
        stock, _ = fix_stock(init, pre["stock"])
        stock2, okinf2 = fix_stock(init, post["stock"])
        if not okinf2:
            cf.pre.append((tag("stock.infinite"), 1, "declared-infinite inventory row is not +inf after the step"))
        crashed = step.get("dist_crash") is not None
        obs = ["stock.crash", "deliver.matrix", "stock.update", "deliver.unmet", "deliver.rebuild_prod"]
        if want is None or any(o in want for o in obs):
            def opt_(fn):
                try:
                    return "(Some " + fn() + ")"
                except NonFinite as e:
                    return e
            parts = {}
            parts["deliver.matrix"] = opt_(lambda: cf.mat(step["delivered"])) if step.get("delivered") is not None else "None"
            if crashed:
                parts["stock.update"] = parts["deliver.unmet"] = parts["deliver.rebuild_prod"] = "None"
            else:
                parts["stock.update"] = opt_(lambda: cf.mat(stock2))
                parts["deliver.unmet"] = opt_(lambda: cf.vec(post["unmet"]))
                rp = post["rprod"]
                if rp is None:
                    parts["deliver.rebuild_prod"] = "None"
                elif rp.size == 0:
                    parts["deliver.rebuild_prod"] = "(Some " + cf.raw("(tab " + str(N) + "%nat (fun _ => []))", "mat") + ")"
                else:
                    parts["deliver.rebuild_prod"] = opt_(lambda: cf.mat(rp))
            for o in list(parts):
                if isinstance(parts[o], NonFinite):
                    cf.pre.append((tag(o), 4, str(parts[o])))
                    parts[o] = "None"
            try:
                expr = (f"chk_dist {P} {W}%nat {cf.mat(stock)} {cf.mat(pre['dem'])} {cf.vec(pre['prod'])} "
                        f"{'true' if crashed else 'false'} {parts['deliver.matrix']} {parts['stock.update']} "
                        f"{parts['deliver.unmet']} {parts['deliver.rebuild_prod']}")
                cf.check([tag(o) for o in obs], expr)
            except NonFinite as e:
                cf.pre.append((tag("distribute.pre"), 4, str(e)))
    if "ord_pre" in step and "ord_post" in step:
        pre = step["ord_pre"]
        stock, _ = fix_stock(init, pre["stock"])
        guarded("orders", lambda: f"chk_orders {P} {cf.mat(stock)} {cf.vec(pre['dtot'])} {cf.vec(pre['prod'])} "
                f"{cf.vec(pre['alpha'])} {cf.vec(pre['delta'])} {cf.mat(step['ord_post'])}")


VERDICT = {0: "OK", 1: "MISMATCH", 2: "SHAPE", 3: "FLAG", 4: "NONFINITE", 9: "COQ-ERROR"}


def run_casefiles(files, jobs=16, timeout=600):
    """files: list of (path_without_ext, CaseFile).  Returns list of (tag, code, detail)."""
    os.makedirs(BUILD, exist_ok=True)
    procs = []
    results = []
    pending = list(files)
    running = []
    t0 = time.time()

    def launch(item):
        base, cf = item
        with open(base + ".v", "w") as f:
            f.write(cf.text())
        p = subprocess.Popen(
            ["timeout", str(timeout), "coqc", "-Q", COQ_DIR, "Boario", base + ".v"],
            stdout=subprocess.PIPE, stderr=subprocess.STDOUT, text=True, cwd=BUILD)
        return (p, item)

    while pending or running:
        while pending and len(running) < jobs:
            running.append(launch(pending.pop(0)))
        still = []
        for p, item in running:
            if p.poll() is None:
                still.append((p, item))
                continue
            out = p.stdout.read()
            base, cf = item
            codes = None
            m = re.search(r"=\s*\[(.*?)\]\s*(%nat)?\s*:\s*list nat", out, re.S)
            if p.returncode == 0 and m:
                body = m.group(1).strip()
                codes = [int(x) for x in re.findall(r"\d+", body)] if body else []
            tags = []
            for tag, _ in cf.checks:
                tags.extend(tag if isinstance(tag, list) else [tag])
            if codes is None or len(codes) != len(tags):
                for tag in tags:
                    results.append((tag, 9, out[-400:]))
            else:
                for tag, c in zip(tags, codes):
                    results.append((tag, c, ""))
            for tag, c, d in cf.pre:
                results.append((tag, c, d))
            for ext in (".vo", ".glob", ".vok", ".vos"):
                try:
                    os.remove(base + ext)
                except OSError:
                    pass
            try:
                os.remove(os.path.join(os.path.dirname(base), "." + os.path.basename(base) + ".aux"))
            except OSError:
                pass
        running = still
        if running:
            time.sleep(0.05)
    return results
