"""Translator: regenerates coq/Gen/Facts.v from /repo's *current* source (Python ast).

What is extracted (the bookkeeping parts of the code, where a behavioural
comparison would need luck to hit a mistake):
  layout   every slice bound that lays out the demand / rebuild-production blocks
  records  the guard -> writer table of next_step, the writers' bodies, the specs table
  phases   the ordered phase calls of next_step and the overproduction guard
  consts   constants, which monetary factor the ledger precision reads, default
           argument shapes, whether _divide_arrays_ignore uses nan_to_num's result,
           which methods ARIOPsiModel overrides
Fail-closed per group: an unknown shape sets <group>_extraction_ok := false, and
the corresponding theorem in Gen/Facts*.v then fails to compile.
"""
from __future__ import annotations

import ast
import os

REPO = os.environ.get("VERIF_REPO", "/repo")


class Unknown(Exception):
    pass


NAMES = {
    "n_regions": "nR", "n_sectors": "nS", "n_fd_cat": "nC", "_n_rebuilding_events": "E",
    "ev_id": "id", "_rebuild_id": "id",
}


def coq_expr(node):
    """Python integer expression over the size attributes -> Coq nat expression."""
    if isinstance(node, ast.BinOp):
        op = {ast.Add: "+", ast.Mult: "*", ast.Sub: "-"}.get(type(node.op))
        if op is None:
            raise Unknown(ast.dump(node.op))
        return f"({coq_expr(node.left)} {op} {coq_expr(node.right)})"
    if isinstance(node, ast.Attribute):
        if node.attr in NAMES:
            return NAMES[node.attr]
        raise Unknown("attribute " + node.attr)
    if isinstance(node, ast.Name):
        if node.id in NAMES:
            return NAMES[node.id]
        raise Unknown("name " + node.id)
    if isinstance(node, ast.Constant) and isinstance(node.value, int):
        return str(node.value)
    raise Unknown(ast.dump(node)[:80])


def col_slice(sub):
    """`x[:, lo:hi]` -> (lo or None, hi or None) as Coq strings."""
    sl = sub.slice
    if not isinstance(sl, ast.Tuple) or len(sl.elts) != 2:
        raise Unknown("not a 2-d subscript")
    rows, cols = sl.elts
    if not (isinstance(rows, ast.Slice) and rows.lower is None and rows.upper is None):
        raise Unknown("row slice is not ':'")
    if not isinstance(cols, ast.Slice) or cols.step is not None:
        raise Unknown("column index is not a slice")
    lo = coq_expr(cols.lower) if cols.lower is not None else None
    hi = coq_expr(cols.upper) if cols.upper is not None else None
    return lo, hi


def find_class(tree, name):
    for n in tree.body:
        if isinstance(n, ast.ClassDef) and n.name == name:
            return n
    raise Unknown("class " + name)


def find_funcs(cls, name):
    return [n for n in cls.body if isinstance(n, ast.FunctionDef) and n.name == name]


def getter(cls, name):
    for f in find_funcs(cls, name):
        decs = [ast.unparse(d) for d in f.decorator_list]
        if not any(d.endswith(".setter") for d in decs):
            return f
    raise Unknown("getter " + name)


def first_return_subscript(fn, base_attr=None):
    for n in ast.walk(fn):
        if isinstance(n, ast.Return) and isinstance(n.value, ast.Subscript):
            return n.value
        if isinstance(n, ast.Assign) and isinstance(n.value, ast.Subscript) and base_attr and \
                ast.unparse(n.value.value).endswith(base_attr):
            return n.value
    raise Unknown("no subscript returned in " + fn.name)


def parse(path):
    with open(os.path.join(REPO, path)) as f:
        return ast.parse(f.read())


ARGS = "(nR nS nC E id : nat)"


def gen_layout(out):
    mb = find_class(parse("boario/model_base.py"), "ARIOBaseModel")
    sim = find_class(parse("boario/simulation.py"), "Simulation")
    defs = {}

    def put(name, lohi):
        lo, hi = lohi
        defs[name + "_lo"] = lo if lo is not None else "0"
        defs[name + "_hi"] = hi  # None = open-ended

    put("g_intermediate", col_slice(first_return_subscript(getter(mb, "intermediate_demand"))))
    put("g_final", col_slice(first_return_subscript(getter(mb, "final_demand"))))
    put("g_rebuild", col_slice(first_return_subscript(getter(mb, "rebuild_demand"), "_entire_demand")))
    put("g_rebuild_house", col_slice(first_return_subscript(getter(mb, "rebuild_demand_house"))))
    put("g_rebuild_indus", col_slice(first_return_subscript(getter(mb, "rebuild_demand_indus"))))
    put("g_rprod_indus", col_slice(first_return_subscript(getter(mb, "rebuild_prod_indus"))))
    put("g_rprod_house", col_slice(first_return_subscript(getter(mb, "rebuild_prod_house"))))
    put("g_rprod_indus_event", col_slice(first_return_subscript(find_funcs(mb, "rebuild_prod_indus_event")[0])))
    put("g_rprod_house_event", col_slice(first_return_subscript(find_funcs(mb, "rebuild_prod_house_event")[0])))
    # _chg_events_number: the allocated width
    chg = find_funcs(mb, "_chg_events_number")[0]
    width = None
    for n in ast.walk(chg):
        if isinstance(n, ast.Call) and ast.unparse(n.func) == "np.zeros":
            for kw in n.keywords:
                if kw.arg == "shape" and isinstance(kw.value, ast.Tuple):
                    width = coq_expr(kw.value.elts[1])
    if width is None:
        raise Unknown("_chg_events_number width")
    defs["chg_width"] = width
    # update_rebuild_demand: allocated width and the two written blocks
    upd = find_funcs(sim, "update_rebuild_demand")[0]
    uw = None
    writes = []
    for n in ast.walk(upd):
        if isinstance(n, ast.Call) and ast.unparse(n.func) == "np.zeros":
            for kw in n.keywords:
                if kw.arg == "shape" and isinstance(kw.value, ast.Tuple):
                    uw = coq_expr(kw.value.elts[1])
        if isinstance(n, ast.Assign) and isinstance(n.targets[0], ast.Subscript) and \
                ast.unparse(n.targets[0].value) == "_rebuilding_demand":
            writes.append((n.lineno, col_slice(n.targets[0]), ast.unparse(n.value)))
    writes.sort()
    if uw is None or len(writes) != 2:
        raise Unknown("update_rebuild_demand shape / writes")
    if "indus" not in writes[0][2] or "house" not in writes[1][2]:
        raise Unknown("update_rebuild_demand write order")
    defs["upd_width"] = uw
    put("w_indus", writes[0][1])
    put("w_house", writes[1][1])
    # distribute_production: the three blocks of the deliveries
    dist = find_funcs(mb, "distribute_production")[0]
    got = {}
    for n in ast.walk(dist):
        if isinstance(n, ast.Subscript) and ast.unparse(n.value) == "distributed_production":
            try:
                lohi = col_slice(n)
            except Unknown:
                continue
            got[n.lineno] = lohi
    keys = sorted(got)
    if len(keys) != 3:
        raise Unknown(f"distribute_production: {len(keys)} delivery blocks")
    put("d_intermediate", got[keys[0]])
    put("d_final", got[keys[1]])
    put("d_rebuild", got[keys[2]])
    for k, v in defs.items():
        if v is None:
            out.append(f"Definition {k} {ARGS} : option nat := None.")
        elif k.endswith("_hi"):
            out.append(f"Definition {k} {ARGS} : option nat := Some {v}.")
        else:
            out.append(f"Definition {k} {ARGS} : nat := {v}.")


def _str(s):
    return '"' + s.replace('"', '""') + '"'


def gen_records(out):
    tree = parse("boario/simulation.py")
    sim = find_class(tree, "Simulation")
    ns = find_funcs(sim, "next_step")[0]
    guards = []
    for n in ast.walk(ns):
        if isinstance(n, ast.If) and isinstance(n.test, ast.BoolOp) and isinstance(n.test.op, ast.Or):
            parts = n.test.values
            if len(parts) == 2 and all(isinstance(p, ast.Compare) and isinstance(p.ops[0], ast.In) for p in parts):
                names = [p.left.value if isinstance(p.left, ast.Constant) else None for p in parts]
                conts = [ast.unparse(p.comparators[0]) for p in parts]
                calls = [c for c in n.body if isinstance(c, ast.Expr) and isinstance(c.value, ast.Call)]
                if len(calls) != 1:
                    raise Unknown("guard body")
                guards.append((n.lineno, names[0], conts[0], names[1], conts[1],
                               ast.unparse(calls[0].value.func).replace("self.", "")))
    guards.sort()
    if len(guards) < 5:
        raise Unknown("record guards not found")
    out.append("Definition record_guards : list (string * string * string * string * string) := [")
    out.append(";\n".join(f"  ({_str(a)}, {_str(b)}, {_str(c)}, {_str(d)}, {_str(w)})" for _, a, b, c, d, w in guards))
    out.append("].")
    # writers: which array, which row index, which model attribute
    writers = []
    for f in sim.body:
        if isinstance(f, ast.FunctionDef) and f.name.startswith("_write_"):
            targets = []
            for n in ast.walk(f):
                if isinstance(n, ast.Assign) and isinstance(n.targets[0], ast.Subscript):
                    t = n.targets[0]
                    targets.append((ast.unparse(t.value).replace("self.", ""), ast.unparse(t.slice).replace("self.", ""),
                                    ast.unparse(n.value).replace("self.", "")))
            if not targets:
                raise Unknown("writer " + f.name)
            arrs = {t[0] for t in targets}
            idxs = {t[1] for t in targets}
            if len(arrs) != 1 or len(idxs) != 1:
                raise Unknown("writer " + f.name + " writes several arrays / rows")
            vals = [t[2] for t in targets if t[2] != "to_write"]
            writers.append((f.name, arrs.pop(), idxs.pop(), vals[0] if vals else "to_write"))
    out.append("Definition record_writers : list (string * string * string * string) := [")
    out.append(";\n".join(f"  ({_str(a)}, {_str(b)}, {_str(c)}, {_str(d)})" for a, b, c, d in sorted(writers)))
    out.append("].")
    # the specs table and the list of possible records
    specs = None
    possible = None
    for n in sim.body:
        if isinstance(n, ast.Assign):
            nm = ast.unparse(n.targets[0])
            if nm.endswith("__file_save_array_specs") and isinstance(n.value, ast.Dict):
                specs = [(k.value, v.elts[0].value, v.elts[1].value, v.elts[2].value, ast.unparse(v.elts[3]))
                         for k, v in zip(n.value.keys, n.value.values)]
            if nm.endswith("__possible_records") and isinstance(n.value, ast.List):
                possible = [e.value for e in n.value.elts]
    if specs is None or possible is None:
        raise Unknown("record specs")
    out.append("Definition record_specs : list (string * string * string * string * string) := [")
    out.append(";\n".join(f"  ({_str(a)}, {_str(b)}, {_str(c)}, {_str(d)}, {_str(e)})" for a, b, c, d, e in specs))
    out.append("].")
    out.append("Definition possible_records : list string := [" + "; ".join(_str(p) for p in possible) + "].")


PHASE_CALLS = {"self._check_happening_events", "self.model.calc_overproduction", "self.model.calc_production",
               "self.model.distribute_production", "self.rebuild_events", "self.recover_events",
               "self.model.calc_orders"}


def gen_phases(out):
    sim = find_class(parse("boario/simulation.py"), "Simulation")
    ns = find_funcs(sim, "next_step")[0]
    calls = []
    guard = None
    inner_try = []
    tick = None
    for n in ast.walk(ns):
        if isinstance(n, ast.Call) and ast.unparse(n.func) in PHASE_CALLS:
            calls.append((n.lineno, n.col_offset, ast.unparse(n.func).replace("self.", "")))
        if isinstance(n, ast.If):
            body_calls = [ast.unparse(c.value.func) for c in n.body if isinstance(c, ast.Expr) and isinstance(c.value, ast.Call)]
            if "self.model.calc_overproduction" in body_calls:
                guard = ast.unparse(n.test).replace("self.", "")
        if isinstance(n, ast.Try):
            hs = [ast.unparse(h.type) if h.type is not None else "" for h in n.handlers]
            if hs == ["RuntimeError"]:
                rets = [r for h in n.handlers for r in ast.walk(h) if isinstance(r, ast.Return)]
                if len(rets) != 1 or ast.unparse(rets[0].value) != "1":
                    raise Unknown("crash handler does not return 1")
                for c in ast.walk(ast.Module(body=n.body, type_ignores=[])):
                    if isinstance(c, ast.Call) and ast.unparse(c.func) in PHASE_CALLS:
                        inner_try.append((c.lineno, ast.unparse(c.func).replace("self.", "")))
        if isinstance(n, ast.AugAssign) and ast.unparse(n.target) == "self.current_temporal_unit":
            tick = (n.lineno, ast.unparse(n.value).replace("self.", ""))
    calls.sort()
    if guard is None or tick is None:
        raise Unknown("overproduction guard / clock increment")
    if tick[0] < calls[-1][0]:
        raise Unknown("clock incremented before the last phase")
    out.append("Definition phase_calls : list string := [" + "; ".join(_str(c[2]) for c in calls) + "].")
    out.append(f"Definition overprod_guard : string := {_str(guard)}.")
    out.append("Definition crash_region : list string := [" + "; ".join(_str(c[1]) for c in sorted(inner_try)) + "].")
    out.append(f"Definition clock_increment : string := {_str(tick[1])}.")


def gen_consts(out):
    mbt = parse("boario/model_base.py")
    simt = parse("boario/simulation.py")
    misct = parse("boario/utils/misc.py")
    ext = parse("boario/extended_models.py")
    evt = parse("boario/event.py")
    consts = {}
    for tree, names in ((mbt, ["TECHNOLOGY_THRESHOLD", "INV_THRESHOLD"]), (evt, ["LOW_DEMAND_THRESH"])):
        for n in tree.body:
            if isinstance(n, ast.Assign) and ast.unparse(n.targets[0]) in names:
                consts[ast.unparse(n.targets[0])] = ast.unparse(n.value)
    for k in ("TECHNOLOGY_THRESHOLD", "INV_THRESHOLD", "LOW_DEMAND_THRESH"):
        if k not in consts:
            raise Unknown(k)
        out.append(f"Definition const_{k} : string := {_str(consts[k])}.")
    # ledger precision: which monetary factor
    et = find_class(simt, "EventTracker")
    precs = []
    for fn in ("receive_indus_rebuilding", "receive_house_rebuilding", "recover"):
        f = find_funcs(et, fn)[0]
        for n in ast.walk(f):
            if isinstance(n, ast.Assign) and ast.unparse(n.targets[0]) == "precision":
                precs.append((fn, ast.unparse(n.value).replace("self.", "")))
    if len(precs) != 3:
        raise Unknown("ledger precision expressions")
    out.append("Definition ledger_precision : list (string * string) := [" +
               "; ".join(f"({_str(a)}, {_str(b)})" for a, b in precs) + "].")
    # arbitrary-event rounding decimals
    rec = find_funcs(et, "recover")[0]
    arb_round = [ast.unparse(n.args[0]) for n in ast.walk(rec)
                 if isinstance(n, ast.Call) and isinstance(n.func, ast.Attribute) and n.func.attr == "round"
                 and n.args and isinstance(n.args[0], ast.Constant)]
    out.append("Definition arbitrary_round_decimals : list string := [" + "; ".join(_str(a) for a in arb_round) + "].")
    # default argument shapes of Simulation.__init__
    sim = find_class(simt, "Simulation")
    init = find_funcs(sim, "__init__")[0]
    args = init.args.args[-len(init.args.defaults):] if init.args.defaults else []
    shapes = []
    for a, d in zip(args, init.args.defaults):
        if isinstance(d, ast.Constant):
            k = "literal"
        elif isinstance(d, (ast.List, ast.Dict, ast.Set)):
            k = "mutable-literal"
        elif isinstance(d, ast.Call):
            k = "call:" + ast.unparse(d.func)
        else:
            k = "other"
        shapes.append((a.arg, k))
    out.append("Definition sim_default_args : list (string * string) := [" +
               "; ".join(f"({_str(a)}, {_str(b)})" for a, b in shapes) + "].")
    # is a fresh directory created inside __init__ when none is given?
    fresh = any(isinstance(n, ast.Call) and ast.unparse(n.func).endswith("mkdtemp")
                for stmt in init.body for n in ast.walk(stmt))
    out.append(f"Definition sim_init_makes_fresh_dir : bool := {'true' if fresh else 'false'}.")
    # _divide_arrays_ignore: result of nan_to_num used?
    div = [n for n in misct.body if isinstance(n, ast.FunctionDef) and n.name == "_divide_arrays_ignore"]
    if not div:
        raise Unknown("_divide_arrays_ignore")
    used = False
    discarded = False
    for n in ast.walk(div[0]):
        if isinstance(n, ast.Expr) and isinstance(n.value, ast.Call) and "nan_to_num" in ast.unparse(n.value.func):
            has_out = any(kw.arg == "copy" and ast.unparse(kw.value) == "False" for kw in n.value.keywords)
            if not has_out:
                discarded = True
        if isinstance(n, (ast.Assign, ast.Return)) and n.value is not None and "nan_to_num" in ast.unparse(n.value):
            used = True
    out.append(f"Definition divide_uses_nan_to_num : bool := {'true' if used and not discarded else 'false'}.")
    # methods ARIOPsiModel overrides
    psi = find_class(ext, "ARIOPsiModel")
    meths = sorted({n.name for n in psi.body if isinstance(n, ast.FunctionDef)})
    out.append("Definition psi_overrides : list string := [" + "; ".join(_str(m) for m in meths) + "].")
    # does calc_production of the psi class only delegate?
    cp = find_funcs(psi, "calc_production")
    delegates = bool(cp) and any(isinstance(n, ast.Return) and "super().calc_production" in ast.unparse(n.value)
                                 for n in ast.walk(cp[0]) if isinstance(n, ast.Return) and n.value is not None)
    out.append(f"Definition psi_calc_production_delegates : bool := {'true' if (not cp or delegates) else 'false'}.")
    # update_prod_cap_delta_arb goes through the setter?
    upd = find_funcs(sim, "update_prod_cap_delta_arb")[0]
    tg = sorted({ast.unparse(n.targets[0]).replace("self.", "") for n in ast.walk(upd) if isinstance(n, ast.Assign)
                 and "prod_cap_delta_arbitrary" in ast.unparse(n.targets[0])})
    out.append("Definition arb_update_targets : list string := [" + "; ".join(_str(t) for t in tg) + "].")
    # event_compatibility is reachable at construction: n_temporal_units_to_sim set before add_events?
    order = []
    for n in init.body:
        src = ast.unparse(n)
        if "self.add_events(" in src:
            order.append("add_events")
        if src.startswith("self.n_temporal_units_to_sim ="):
            order.append("set_horizon")
    out.append("Definition ctor_order : list string := [" + "; ".join(_str(t) for t in order) + "].")


GROUPS = [("layout", gen_layout), ("records", gen_records), ("phases", gen_phases), ("consts", gen_consts)]


def generate():
    lines = ["(* GENERATED by harness/extract_facts.py from /repo's current source - do not edit. *)",
             "From Coq Require Import List String Arith.",
             "Import ListNotations.", "Open Scope string_scope.", "Open Scope nat_scope.", ""]
    for name, fn in GROUPS:
        out = []
        try:
            fn(out)
            lines.append(f"(* ---- {name} ---- *)")
            lines.extend(out)
            lines.append(f"Definition {name}_extraction_ok : bool := true.")
        except Exception as e:  # noqa: BLE001
            lines.append(f"(* ---- {name}: extraction FAILED: {type(e).__name__}: {str(e)[:200].replace('*)', '* )')} ---- *)")
            lines.append(f"Definition {name}_extraction_ok : bool := false.")
        lines.append("")
    return "\n".join(lines) + "\n"


if __name__ == "__main__":
    print(generate())
