"""Correspondence cases for the whole step (coq/Corr/CheckStep.v): Sim.step evaluated on the state the
implementation had when next_step() was entered, against the state it had when next_step() returned."""
from __future__ import annotations

import numpy as np

from harness.cases import NonFinite, fix_stock, qnum
from harness.evcases import prec_of, trackers_expr

STEP_OBS = ["step.outcome", "step.alpha", "step.stock", "step.demand", "step.count", "step.production", "step.unmet", "step.clock",
            "step.status", "step.rid", "step.dmg", "step.hdmg", "step.arb", "step.ledger_i", "step.ledger_h"]


def econ_expr(cf, init, ec, N, F):
    nE = int(ec["nE"])
    W = N + F + nE * (N + F)

    def v(x):
        return cf.vec(np.zeros(N) if x is None else x)
    stock, _ = fix_stock(init, ec["stock"])
    dem = ec["dem"]
    rp = ec.get("rprod")
    if rp is None or rp.size == 0:
        rpx = cf.raw("(tab " + str(N) + "%nat (fun _ => []))", "mat")
    else:
        rpx = cf.mat(rp)
    return ("{| " + f"alpha := {cf.vec(ec['alpha'])}; stock := {cf.mat(stock)}; dem := {cf.mat(dem)}; nE := {nE}%nat; "
            f"prod := {cf.vec(ec['prod'])}; delta := {v(ec.get('delta'))}; klost := {v(ec.get('klost'))}; "
            f"unmetv := {v(ec.get('unmet'))}; rprod := {rpx}" + " |}")


def step_checks(cf, P, trace, step, sid):
    init = trace["init"]
    if "ev_pre" not in step or step.get("econ_pre_events") is None:
        return
    t = int(step["t"])
    dt = int(init["dt"])
    N = init["nR"] * init["nS"]
    F = init["nR"] * init["nC"]
    tags = [{"scn": sid, "t": t, "ob": o} for o in STEP_OBS]
    err = step.get("ev_error")
    if step.get("dist_crash") is not None:
        icode = 1
    elif err is not None or "econ_end" not in step:
        icode = 2
    else:
        icode = 0
    orac = step.get("rec_oracle")
    if orac and any(o and o.get("error") for o in orac):
        return
    try:
        pre = step["ev_pre"]
        oracles = None
        if orac:
            oracles = [orac[i] if i < len(orac) else None for i in range(len(pre))]
        s_expr = ("{| " + f"eco := {econ_expr(cf, init, step['econ_pre_events'], N, F)}; "
                  f"trs := {trackers_expr(cf, pre, oracles)}; now := {t}%nat" + " |}")
        e_expr = "{| " + f"P := {P}; dt := {dt}%nat; prec := ({prec_of(init['mu'])})%Z" + " |}"
        if icode == 0:
            end = step["econ_end"]
            trs_end = step.get("rec_post") or step.get("reb_post") or step.get("ev_post") or []
            cf.check(tags, f"chk_step {e_expr} {s_expr} 0%nat {econ_expr(cf, init, end, N, F)} {trackers_expr(cf, trs_end)} {t + dt}%nat")
        else:
            z = econ_expr(cf, init, step["econ_pre_events"], N, F)
            cf.check(tags, f"chk_step {e_expr} {s_expr} {icode}%nat {z} {trackers_expr(cf, [])} 0%nat")
    except NonFinite as e:
        cf.pre.append((tags[0], 4, str(e)))
