"""bin/check <id> [--tier quick|thorough] [--replay file]

Decides one property on /repo's current working tree:
  (a) the Coq development builds (facts regenerated from the source first), the
      property's theorems are present, closed, and free of forbidden constructs;
  (b) every correspondence obligation the theorem stands on agrees on every case;
  (c) the property's own predicate (monitor) holds on the implementation's traces.
Prints `VIOLATION property=<id> replay=<path>` (exit 1) or nothing (exit 0);
`KNOWN-FINDING: property=<id> ...` for failures listed in known_findings.json.
"""
from __future__ import annotations

import argparse
import hashlib
import json
import os
import re
import subprocess
import sys
import time

ROOT = os.path.dirname(os.path.dirname(os.path.abspath(__file__)))
sys.path.insert(0, ROOT)
os.environ.setdefault("PYTHONHASHSEED", "0")
os.environ["BOARIO_VERIF"] = "1"

COQ = os.path.join(ROOT, "coq")
REPLAYS = os.path.join(ROOT, "replays")
EVIDENCE = os.path.join(ROOT, "evidence")

FORBIDDEN = re.compile(
    r"\b(Admitted|admit|Axiom|Axioms|Parameter|Parameters|Conjecture|"
    r"Unset\s+Guard|bypass_check|Admit\s+Obligations|type-in-type|impredicative-set|"
    r"Unset\s+Positivity|Unset\s+Universe)\b")


def log(*a):
    print(*a, file=sys.stderr, flush=True)


# ---------------------------------------------------------------------------
# build

def coq_sources():
    out = []
    for d, _, fs in os.walk(COQ):
        for f in fs:
            if f.endswith(".v"):
                out.append(os.path.join(d, f))
    return sorted(out)


def scan_forbidden():
    bad = []
    for p in coq_sources():
        txt = open(p).read()
        # strip comments (non-nested is enough for our sources; nested handled by loop)
        prev = None
        while prev != txt:
            prev = txt
            txt = re.sub(r"\(\*[^()]*?\*\)", "", txt, flags=re.S)
        in_section = 0
        for ln, line in enumerate(txt.splitlines(), 1):
            if re.match(r"\s*Section\b", line):
                in_section += 1
            if re.match(r"\s*End\b", line) and in_section:
                in_section -= 1
            m = FORBIDDEN.search(line)
            if m:
                bad.append(f"{os.path.relpath(p, ROOT)}:{ln}: {m.group(0)}")
            if not in_section and re.match(r"\s*(Variable|Variables|Hypothesis|Hypotheses|Context)\b", line):
                bad.append(f"{os.path.relpath(p, ROOT)}:{ln}: {line.strip()[:40]} outside a section")
    return bad


def build(jobs=16):
    """Regenerate Gen/Facts.v from /repo, then (re)build the development.
    Returns dict(ok, failed_files, facts_error, log)."""
    res = {"ok": True, "failed": [], "facts_error": None, "log": "", "cmd": ""}
    from harness import extract_facts
    try:
        txt = extract_facts.generate()
        path = os.path.join(COQ, "Gen", "Facts.v")
        os.makedirs(os.path.dirname(path), exist_ok=True)
        old = open(path).read() if os.path.exists(path) else None
        if old != txt:
            with open(path, "w") as f:
                f.write(txt)
    except Exception as e:  # noqa: BLE001
        res["facts_error"] = f"{type(e).__name__}: {e}"
    mk = os.path.join(COQ, "Makefile")
    cp = os.path.join(COQ, "_CoqProject")
    if not os.path.exists(mk) or os.path.getmtime(mk) < os.path.getmtime(cp):
        subprocess.run(["coq_makefile", "-f", "_CoqProject", "-o", "Makefile"], cwd=COQ,
                       stdout=subprocess.DEVNULL, stderr=subprocess.DEVNULL)
    cmd = ["timeout", "900", "make", "-k", f"-j{jobs}"]
    res["cmd"] = "coq_makefile -f _CoqProject -o Makefile && " + " ".join(cmd) + "  (in /verif/coq)"
    p = subprocess.run(cmd, cwd=COQ, stdout=subprocess.PIPE, stderr=subprocess.STDOUT, text=True)
    res["log"] = p.stdout[-6000:]
    if p.returncode != 0:
        res["ok"] = False
        res["failed"] = sorted(set(re.findall(r'File "\./([^"]+)"', p.stdout)))
        if not res["failed"]:
            res["failed"] = ["<make failed>"]
    return res


def file_compiled(rel):
    vo = os.path.join(COQ, rel[:-2] + ".vo")
    src = os.path.join(COQ, rel)
    return os.path.exists(vo) and os.path.getmtime(vo) >= os.path.getmtime(src) - 1e-6


def assumptions_of(rel):
    """Re-run coqc on a Props file and return the Print Assumptions outputs."""
    p = subprocess.run(["timeout", "600", "coqc", "-Q", ".", "Boario", rel], cwd=COQ,
                       stdout=subprocess.PIPE, stderr=subprocess.STDOUT, text=True)
    if p.returncode != 0:
        return None, p.stdout[-1500:]
    blocks = re.findall(r"Closed under the global context|Axioms:(?:\n[ \t].*)+", p.stdout)
    return blocks, p.stdout


# ---------------------------------------------------------------------------
# known findings

def load_known():
    p = os.path.join(ROOT, "known_findings.json")
    if not os.path.exists(p):
        return []
    with open(p) as f:
        return json.load(f)


def match_known(known, prop, failure):
    for k in known:
        if k.get("status") != "open" or k.get("property") != prop:
            continue
        if k.get("signature") and k["signature"] == failure.get("sig"):
            return k
    return None


# ---------------------------------------------------------------------------

def write_replay(prop, kind, payload):
    os.makedirs(REPLAYS, exist_ok=True)
    blob = json.dumps(payload, sort_keys=True, default=_json_default)
    h = hashlib.sha1(blob.encode()).hexdigest()[:12]
    path = os.path.join(REPLAYS, f"{prop}-{h}.json")
    with open(path, "w") as f:
        f.write(blob)
    return path


def _json_default(o):
    import numpy as np
    if isinstance(o, np.ndarray):
        return o.tolist()
    if isinstance(o, (np.floating,)):
        return float(o)
    if isinstance(o, (np.integer,)):
        return int(o)
    if isinstance(o, (np.bool_,)):
        return bool(o)
    return repr(o)


def main(argv=None):
    ap = argparse.ArgumentParser()
    ap.add_argument("prop")
    ap.add_argument("--tier", default=os.environ.get("VERIF_TIER", "quick"))
    ap.add_argument("--replay")
    args = ap.parse_args(argv)
    tier = args.tier if args.tier in ("quick", "thorough") else "quick"
    seed = int(os.environ.get("VERIF_SEED", "0") or 0)
    from harness import props
    if args.prop not in props.REGISTRY:
        log(f"unknown property {args.prop}")
        return 2
    spec = props.REGISTRY[args.prop]
    if args.replay:
        return props.replay(args.prop, spec, args.replay)
    t0 = time.time()
    prop = args.prop
    violations = []      # (failure dict, replay payload)
    known_hits = []
    known = load_known()

    # (a) proofs
    b = build()
    forb = scan_forbidden()
    obligations = []     # (name, discharged?, detail)
    for f in forb:
        obligations.append(("no-forbidden-construct", False, f))
    if not forb:
        obligations.append(("no-forbidden-construct", True, "grep over coq/**/*.v"))
    if b["facts_error"]:
        obligations.append(("facts-generation", False, b["facts_error"]))
    else:
        obligations.append(("facts-generation", True, "Gen/Facts.v regenerated from /repo/boario"))
    assumptions = {}
    for rel in spec["coq_files"]:
        okf = file_compiled(rel) and not any(rel in x for x in b["failed"])
        obligations.append((f"compiles:{rel}", okf, "" if okf else b["log"][-800:]))
    for rel in spec.get("props_files", []):
        if not file_compiled(rel):
            continue
        blocks, out = assumptions_of(rel)
        if blocks is None:
            obligations.append((f"assumptions:{rel}", False, out))
            continue
        assumptions[rel] = blocks
        allowed = spec.get("allowed_axioms", [])
        for blk in blocks:
            if blk.startswith("Closed"):
                continue
            names = re.findall(r"^\s*([\w.']+)\s*:", blk, re.M)
            extra = [n for n in names if not any(a in n for a in allowed)]
            if extra:
                obligations.append((f"assumptions:{rel}", False, "unexpected axioms " + ", ".join(extra)))
        n_thm = len(re.findall(r"^Theorem\s", open(os.path.join(COQ, rel)).read(), re.M))
        obligations.append((f"theorems-closed:{rel}", len(blocks) >= n_thm and n_thm > 0,
                            f"{n_thm} theorems, {len(blocks)} Print Assumptions"))
    proof_broken = [o for o in obligations if not o[1]]

    # (b) correspondence + (c) monitors
    run = props.evaluate(prop, spec, seed, tier, log)
    for name, okc, detail in run["obligations"]:
        obligations.append((name, okc, detail))
    failures = run["failures"]

    # decide
    exit_code = 0
    lines = []
    seen = set()
    for fl in failures:
        k = match_known(known, prop, fl)
        if k is not None:
            key = ("known", k["signature"])
            if key not in seen:
                seen.add(key)
                lines.append(f"KNOWN-FINDING: property={prop} {k['what_fails']}")
            known_hits.append(fl)
            continue
        key = (fl.get("sig"), fl.get("what"))
        if key in seen:
            continue
        seen.add(key)
        payload = dict(property=prop, kind="failing-input", failure=fl,
                       scenario=run["scenarios"].get(fl.get("scn")), seed=seed, tier=tier,
                       repo_hash=run.get("repo_hash"))
        path = write_replay(prop, "failing-input", payload)
        lines.append(f"VIOLATION property={prop} replay={path}")
        violations.append(fl)
        exit_code = 1
    broken = [o for o in obligations if not o[1]]
    unexplained = []
    for name, _, detail in broken:
        # a broken obligation that is explained by a failing input already reported (or a known finding) is not re-reported
        if name.startswith("corr:") and (violations or known_hits) and run["explains"](name, violations + known_hits):
            continue
        unexplained.append((name, detail))
    if unexplained and not violations:
        payload = dict(property=prop, kind="broken-obligation",
                       obligations=[dict(name=n, detail=str(d)[:2000]) for n, d in unexplained],
                       seed=seed, tier=tier, repo_hash=run.get("repo_hash"),
                       note="no concrete failing input was found by the monitors or the directed search")
        path = write_replay(prop, "broken-obligation", payload)
        lines.append(f"VIOLATION property={prop} replay={path} no-failing-input-found")
        exit_code = 1
    for ln in lines:
        print(ln, flush=True)

    # evidence
    os.makedirs(EVIDENCE, exist_ok=True)
    cov = dict(
        obligations=len(obligations),
        discharged=sum(1 for o in obligations if o[1]),
        checker_cmd=b["cmd"] + " ; coqc -Q . Boario <Props file> (Print Assumptions) ; coqc build/suite_*.v (Eval vm_compute in verdicts)",
        trusted_base=spec.get("trusted_base", []) + props.COMMON_TRUSTED,
        evaluations=run["evaluations"],
        distinct_nontrivial=run["distinct_nontrivial"],
        rule=run["rule"],
        samples=run["samples"][:6],
        traces_validated_against_impl=run.get("traces", 0),
        theorems=spec.get("theorems", []),
        print_assumptions=assumptions,
        obligation_list=[dict(name=n, discharged=bool(o), detail=str(d)[:300]) for n, o, d in obligations][:200],
        correspondence=run.get("corr_summary", {}),
        generator_distribution=run.get("distribution", {}),
        known_findings_hit=len(known_hits),
    )
    ev = dict(property_id=prop, tier=tier, seed=seed, level="proof", coverage=cov,
              assumptions=spec.get("assumptions", []), wall_s=round(time.time() - t0, 2),
              violations=len(violations) + (1 if (unexplained and not violations) else 0))
    with open(os.path.join(EVIDENCE, f"{prop}.json"), "w") as f:
        json.dump(ev, f, indent=1, default=_json_default)
    return exit_code


if __name__ == "__main__":
    sys.exit(main())
