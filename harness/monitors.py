"""Monitors: each property's statement transcribed as a predicate over the
implementation's recorded traces.  They serve the search for a concrete failing
input, the replay command, and a cross-check that the theorem means what the
property says.  They never stand in for a theorem."""
from __future__ import annotations

import math

import numpy as np

TOL = 1e-9


def _close(a, b, scale=0.0, tol=TOL):
    a = np.asarray(a, dtype=float)
    b = np.asarray(b, dtype=float)
    s = np.maximum(np.maximum(np.abs(a), np.abs(b)), scale)
    with np.errstate(invalid="ignore"):
        return np.abs(a - b) <= tol * s + 0.0


def _fail(prop, trace, t, what, observed=None, required=None, cell=None, sig=None):
    return dict(property=prop, scn=trace["scenario"]["id"], t=t, what=what,
                observed=None if observed is None else float(observed),
                required=None if required is None else float(required),
                cell=cell, sig=sig or what)


def _first_bad(ok):
    idx = np.argwhere(~np.asarray(ok))
    return tuple(int(x) for x in idx[0]) if len(idx) else None


def dims(init):
    N = init["nR"] * init["nS"]
    F = init["nR"] * init["nC"]
    return N, F


def spec_init(trace):
    """The implementation's init snapshot with the parameters the user *declared* put in place of the
    ones the constructor derived (inventory durations in steps, restoration rates, psi): the property
    statements are read against the declaration, the derivation itself is checked by init.*"""
    init = trace["init"]
    try:
        from harness.initcases import config_from_scenario
        c = config_from_scenario(trace["scenario"], init)
        if len(c["inv"]) != init["nS"] or len(c["rest"]) != init["nS"]:
            return init
        invd = []
        for v in c["inv"]:
            if v is None:
                invd.append(np.inf)
            else:
                d = v / c["dt"]
                invd.append(2.0 if d <= 1 else d)
        rho = [c["dt"] / r for r in c["rest"]] if c["psi_class"] else [1.0] * init["nS"]
        out = dict(init)
        out["inv_duration"] = np.array(invd, dtype=float)
        out["rho"] = np.array(rho, dtype=float)
        if c["psi_class"]:
            out["psi"] = c["psi"]
        out["a_base"], out["a_max"], out["a_rate"] = c["a_base"], c["a_max"], c["dt"] / c["a_tau"]
        return out
    except Exception:  # noqa: BLE001
        return init


def true_total(pre):
    """Total demand addressed to each industry: the row sums of the demand matrix itself (the
    implementation's cached total is checked against it by dtot.coherent, not trusted here)."""
    dem = pre.get("dem")
    if dem is None or dem.ndim != 2:
        return pre["dtot"]
    return dem.sum(axis=1)


# ---------------------------------------------------------------------------
def mon_c03(trace):
    out = []
    init = trace["init"]
    if init is None:
        return out
    init = spec_init(trace)
    N, F = dims(init)
    inf_rows = np.isinf(init["inv_duration"])
    for st in trace["steps"]:
        if "prod_post" not in st:
            continue
        x, cap, opt, cons = st["prod_post"], st["cap"], st["opt"], st["cons"]
        pre = st["prod_pre"]
        dtot = true_total(pre)
        stock = pre["stock"]
        t = st["t"]
        if not np.all(np.isfinite(x)):
            out.append(_fail("C03", trace, t, "production not finite", sig="nonfinite"))
            continue
        scale = np.maximum(np.abs(dtot), np.abs(cap))
        if np.any(x < -TOL * scale):
            f = _first_bad(x >= -TOL * scale)
            out.append(_fail("C03", trace, t, "production negative", x[f], 0.0, f))
        if np.any(x > dtot + TOL * scale):
            f = _first_bad(x <= dtot + TOL * scale)
            out.append(_fail("C03", trace, t, "production exceeds total demand", x[f], dtot[f], f))
        if np.any(x > cap + TOL * scale):
            f = _first_bad(x <= cap + TOL * scale)
            out.append(_fail("C03", trace, t, "production exceeds capacity", x[f], cap[f], f))
        # capacity itself: X0 (1 - delta) alpha
        capf = init["X0"] * (1 - pre["delta"]) * pre["alpha"]
        if not np.all(_close(cap, capf, scale=np.abs(init["X0"]))):
            f = _first_bad(_close(cap, capf, scale=np.abs(init["X0"])))
            out.append(_fail("C03", trace, t, "capacity is not X0(1-delta)alpha", cap[f], capf[f], f))
        # input bound and tightness
        bound = np.full((init["nS"], N), np.inf)
        elig = init["mask"] & (~inf_rows)[:, None] & (cons != 0)
        with np.errstate(divide="ignore", invalid="ignore"):
            b = opt[None, :] * (stock / cons)
        bound[elig] = b[elig]
        best = np.minimum(np.minimum(dtot, cap), bound.min(axis=0))
        if not np.all(_close(x, best, scale=scale)):
            f = _first_bad(_close(x, best, scale=scale))
            what = "production below the smallest bound" if x[f] < best[f] else "production above an input bound"
            out.append(_fail("C03", trace, t, what, x[f], best[f], f))
    return out


def mon_c04(trace):
    out = []
    init = trace["init"]
    if init is None:
        return out
    N, F = dims(init)
    for st in trace["steps"]:
        if "dist_pre" not in st or st.get("delivered") is None:
            continue
        t = st["t"]
        dem = st["dist_pre"]["dem"]
        x = st["dist_pre"]["prod"]
        dl = st["delivered"]
        if not (np.all(np.isfinite(dl)) and np.all(np.isfinite(dem))):
            out.append(_fail("C04", trace, t, "non-finite demand or deliveries", sig="nonfinite"))
            continue
        tot = dem.sum(axis=1)
        nz = tot != 0
        s = dl.sum(axis=1)
        ok = _close(s[nz], x[nz], scale=np.abs(tot[nz]) * 1e-6)
        if not np.all(ok):
            f = int(np.flatnonzero(nz)[_first_bad(ok)[0]])
            out.append(_fail("C04", trace, t, "deliveries do not add up to production", s[f], x[f], f))
        with np.errstate(divide="ignore", invalid="ignore"):
            want = np.where(nz[:, None], dem * (x / np.where(nz, tot, 1.0))[:, None], 0.0)
        ok = _close(dl, want, scale=np.abs(dem) * 1e-6)
        if not np.all(ok):
            c = _first_bad(ok)
            out.append(_fail("C04", trace, t, "client not served the common fraction", dl[c], want[c], c))
        if np.any(dl > dem * (1 + 1e-9) + 1e-300) or np.any(dl < 0):
            c = _first_bad((dl <= dem * (1 + 1e-9) + 1e-300) & (dl >= 0))
            out.append(_fail("C04", trace, t, "client delivered more than asked (or negative)", dl[c], dem[c], c))
        if st.get("dist_crash") is None and "dist_post" in st:
            post = st["dist_post"]
            fd = dem[:, N:N + F]
            u = (fd - dl[:, N:N + F]).sum(axis=1)
            sc = np.abs(fd).sum(axis=1)
            if not np.all(_close(post["unmet"], u, scale=sc)):
                f = _first_bad(_close(post["unmet"], u, scale=sc))
                out.append(_fail("C04", trace, t, "unmet final demand is not final demand minus deliveries",
                                 post["unmet"][f], u[f], f))
            if np.any(post["unmet"] < -TOL * sc) or np.any(post["unmet"] > sc * (1 + TOL)):
                f = _first_bad((post["unmet"] >= -TOL * sc) & (post["unmet"] <= sc * (1 + TOL)))
                out.append(_fail("C04", trace, t, "unmet final demand outside [0, final demand]", post["unmet"][f], sc[f], f))
            rp = post["rprod"]
            if rp is not None and rp.size and not np.array_equal(rp, dl[:, N + F:]):
                out.append(_fail("C04", trace, t, "rebuild_prod is not the reconstruction block of the deliveries"))
    return out


def mon_c05(trace):
    out = []
    init = trace["init"]
    if init is None:
        return out
    N, F = dims(init)
    nS, nR = init["nS"], init["nR"]
    inf_rows = np.isinf(init["inv_duration"])
    crashed_at = None
    for st in trace["steps"]:
        if "dist_pre" not in st or "dist_post" not in st:
            continue
        t = st["t"]
        if crashed_at is not None:
            out.append(_fail("C05", trace, t, "a step was simulated after the crash"))
            break
        pre, post = st["dist_pre"], st["dist_post"]
        s0, s1 = pre["stock"], post["stock"]
        if np.any(np.isnan(s1)) or np.any(np.isnan(s0)):
            out.append(_fail("C05", trace, t, "NaN inventory", sig="nonfinite"))
            continue
        if not (np.all(np.isposinf(s1[inf_rows])) and np.all(np.isfinite(s1[~inf_rows]))):
            out.append(_fail("C05", trace, t, "infinite inventories did not stay infinite / finite ones finite"))
            continue
        if st.get("delivered") is None:
            continue
        x = pre["prod"]
        use = x[None, :] * init["tech"]
        dl = st["delivered"][:, :N]
        add = dl.reshape(nR, nS, N).sum(axis=0)
        fin = ~inf_rows
        if st.get("dist_crash") is not None:
            crashed_at = t
            want = s0 - use + add
            if not (np.any(want[fin] < 0) or np.any(use < 0) or np.any(add < 0)):
                out.append(_fail("C05", trace, t, "step flagged as crashed although no inventory would be negative"))
            continue
        want = s0 - use + add
        skip_ok = np.allclose(add, use)
        sc = np.abs(s0) + np.abs(use) + np.abs(add)
        ok_upd = np.all(_close(s1[fin], want[fin], scale=sc[fin]))
        ok_skip = skip_ok and np.array_equal(s1[fin], s0[fin])
        if not (ok_upd or ok_skip):
            okm = _close(s1, want, scale=sc) | inf_rows[:, None]
            c = _first_bad(okm)
            out.append(_fail("C05", trace, t, "inventory is not stock + deliveries - use", s1[c], want[c], c))
        if np.any(s1[fin] < 0):
            out.append(_fail("C05", trace, t, "negative inventory and the run went on", float(s1[fin].min()), 0.0))
    if trace.get("crashed") and crashed_at is None and trace["steps"] and "dist_crash" in trace["steps"][-1] \
            and trace["steps"][-1]["dist_crash"] is None:
        out.append(_fail("C05", trace, trace["steps"][-1]["t"], "crash flag set without a negative inventory"))
    return out


def need_float(init, stock, opt, prod):
    """inputs used + model-specific share of the positive gap (float transcription)."""
    inv = init["inv_duration"]
    with np.errstate(invalid="ignore"):
        goal = opt[None, :] * init["tech"] * inv[:, None]
    use = prod[None, :] * init["tech"]
    fg = np.isfinite(goal)
    if np.allclose(stock[fg], goal[fg]):
        gap = np.zeros_like(use)
    else:
        gap = np.zeros_like(use)
        fin = np.isfinite(goal) & np.isfinite(stock)
        gap[fin] = np.maximum(goal[fin] - stock[fin], 0.0)
        gap = gap * init["rho"][:, None]
    return gap + use, goal


def mon_c06(trace):
    out = []
    init = trace["init"]
    if init is None:
        return out
    init = spec_init(trace)
    N, F = dims(init)
    nS, nR = init["nS"], init["nR"]
    Z0 = init["Z0"]
    ZC = Z0.reshape(nR, nS, N).sum(axis=0)
    for st in trace["steps"]:
        if "ord_post" not in st:
            continue
        t = st["t"]
        o = st["ord_post"]
        pre = st["ord_pre"]
        if not np.all(np.isfinite(o)):
            out.append(_fail("C06", trace, t, "orders not finite", sig="nonfinite"))
            continue
        if np.any(o < 0):
            out.append(_fail("C06", trace, t, "negative orders", float(o.min()), 0.0, _first_bad(o >= 0)))
        if np.any(o[Z0 == 0] != 0):
            c = _first_bad(~((Z0 == 0) & (o != 0)))
            out.append(_fail("C06", trace, t, "orders placed with a non-supplier", o[c], 0.0, c))
        cap = init["X0"] * (1 - pre["delta"]) * pre["alpha"]
        opt = np.fmin(true_total(pre), cap)
        need, goal = need_float(init, pre["stock"], opt, pre["prod"])
        tot = o.reshape(nR, nS, N).sum(axis=0)
        if init["alt"]:
            with np.errstate(divide="ignore", invalid="ignore"):
                ratio = np.where(init["X0"] != 0, cap / np.where(init["X0"] != 0, init["X0"], 1.0), 1.0)
            Zp = Z0 * ratio[:, None]
            avail = Zp.reshape(nR, nS, N).sum(axis=0) != 0
            with np.errstate(divide="ignore", invalid="ignore"):
                sh = np.where(np.tile(avail, (nR, 1)), Zp / np.tile(np.where(avail, Zp.reshape(nR, nS, N).sum(axis=0), 1.0), (nR, 1)), 0.0)
        else:
            avail = ZC != 0
            with np.errstate(divide="ignore", invalid="ignore"):
                sh = np.where(np.tile(avail, (nR, 1)), Z0 / np.tile(np.where(avail, ZC, 1.0), (nR, 1)), 0.0)
        with np.errstate(invalid="ignore"):
            gs = np.where(np.isfinite(goal), np.abs(goal), 0.0) + np.where(np.isfinite(pre["stock"]), np.abs(pre["stock"]), 0.0)
        ok = _close(tot[avail], need[avail], scale=(gs + np.abs(need))[avail])
        if not np.all(ok):
            k = _first_bad(ok)[0]
            c = tuple(int(v) for v in np.argwhere(avail)[k])
            out.append(_fail("C06", trace, t, "orders summed over suppliers differ from the need", tot[c], need[c], c))
        want = np.tile(need, (nR, 1)) * sh
        ok = _close(o, want, scale=np.tile(gs + np.abs(need), (nR, 1)) * np.abs(sh))
        if not np.all(ok):
            c = _first_bad(ok)
            out.append(_fail("C06", trace, t, "supplier share differs from the variant's rule", o[c], want[c], c))
    return out


def mon_c14(trace):
    out = []
    init = trace["init"]
    if init is None:
        return out
    init = spec_init(trace)
    amax, abase, rate = init["a_max"], init["a_base"], init["a_rate"]
    for st in trace["steps"]:
        t = st["t"]
        a_now = st.get("prod_pre", {}).get("alpha")
        if a_now is not None:
            if not np.all(np.isfinite(a_now)):
                out.append(_fail("C14", trace, t, "overproduction factor not finite", sig="nonfinite"))
                continue
            if np.any(a_now < 1 - 1e-12) or np.any(a_now > amax * (1 + 1e-12)):
                f = _first_bad((a_now >= 1 - 1e-12) & (a_now <= amax * (1 + 1e-12)))
                out.append(_fail("C14", trace, t, "overproduction factor outside [1, max]", a_now[f], amax, f))
        if "over_pre" in st and "over_post_alpha" in st:
            pre = st["over_pre"]
            a0, a1 = pre["alpha"], st["over_post_alpha"]
            d, x = true_total(pre), pre["prod"]
            if not (np.all(np.isfinite(a1)) and np.all(np.isfinite(d)) and np.all(np.isfinite(x))):
                out.append(_fail("C14", trace, t, "non-finite input of the overproduction update", sig="nonfinite"))
                continue
            with np.errstate(divide="ignore", invalid="ignore"):
                z = np.where(d != 0, (d - x) / np.where(d != 0, d, 1.0), 0.0)
            if abase == 1.0:
                # a rise below 1e-11 is the update applied to a rounding-level scarcity (the total demand is a
                # floating-point sum; with steps longer than the characteristic time the rate amplifies it)
                rose = a1 > a0 * (1 + 1e-11)
                bad = rose & ~(d > x)
                if np.any(bad):
                    f = _first_bad(~bad)
                    out.append(_fail("C14", trace, t, "overproduction rose although demand was met", a1[f], a0[f], f))
                # (capped at the maximum: only reachable when a step is longer than the characteristic time)
                want = np.minimum(amax, a0 + (amax - a0) * z * rate)
                ok = _close(a1[rose], want[rose], scale=1.0)
                if not np.all(ok):
                    f = int(np.flatnonzero(rose)[_first_bad(ok)[0]])
                    out.append(_fail("C14", trace, t, "rise differs from (max - current) * scarcity / tau", a1[f], want[f], f))
                met = d <= x
                if np.any(a1[met] > a0[met] * (1 + 1e-11)):
                    out.append(_fail("C14", trace, t, "overproduction increased with demand met"))
    return out


def mon_finite(trace, prop="C20"):
    """No NaN/inf in anything recorded for a simulated step (infinite inventories excepted)."""
    out = []
    init = trace["init"]
    if init is None:
        return out
    inf_rows = np.isinf(init["inv_duration"])
    if trace.get("error") is not None:
        return out   # the run reported the problem
    K = init["K"]
    for st in trace["steps"]:
        t = st["t"]
        post_ev = st.get("ev_post")
        if post_ev is not None and not st.get("ev_error"):
            kl = np.zeros(len(K))
            for tr in post_ev:
                if tr["status"] in ("happening", "rebuilding", "recovering") and tr["dmg"] is not None:
                    kl = kl + tr["dmg"]
            if np.any(kl > K * (1 + 1e-12)):
                out.append(_fail(prop, trace, t, "impact larger than the capital stock accepted silently", sig="overkill-accepted"))
        dem = (st.get("prod_pre") or {}).get("dem")
        if dem is not None and np.all(np.isfinite(dem)) and dem.size and np.any(dem < -1e-9 * (1 + np.abs(dem).max())):
            out.append(_fail(prop, trace, t, "negative demand", float(dem.min()), 0.0, sig="negative-demand"))
        for tr_ in st.get("reb_post") or []:
            for key_ in ("rem_i", "rem_h", "dmg", "hdmg"):
                v_ = tr_.get(key_)
                if v_ is not None and v_.size and np.all(np.isfinite(v_)) and np.any(v_ < 0):
                    out.append(_fail(prop, trace, t, f"negative remaining damage / reconstruction demand ({key_})", float(v_.min()), 0.0,
                                     sig="negative-remaining"))
                    break
        for key in ("prod_post", "cap", "opt", "ord_post", "over_post_alpha"):
            v = st.get(key)
            if v is not None and not np.all(np.isfinite(v)):
                out.append(_fail(prop, trace, t, f"non-finite value in {key}", sig="nonfinite"))
        post = st.get("dist_post")
        if post is not None and st.get("dist_crash") is None:
            if not np.all(np.isfinite(post["unmet"])):
                out.append(_fail(prop, trace, t, "non-finite unmet demand", sig="nonfinite"))
            s = post["stock"]
            if np.any(np.isnan(s)) or not np.all(np.isfinite(s[~inf_rows])):
                out.append(_fail(prop, trace, t, "non-finite inventory", sig="nonfinite"))
            if np.any(s[~inf_rows] < 0):
                out.append(_fail(prop, trace, t, "negative inventory without crash flag"))
        for key, lo in (("prod_post", 0.0), ("cap", 0.0), ("ord_post", 0.0)):
            v = st.get(key)
            if v is not None and np.all(np.isfinite(v)) and np.any(v < -1e-9 * (1 + np.abs(v).max())):
                out.append(_fail(prop, trace, t, f"negative value in {key}", float(v.min()), 0.0))
    recs = trace.get("records") or {}
    # rows are indexed by temporal unit; only the units at which a step ran are written
    ran = [st["t"] for st in trace["steps"]]
    if trace.get("crashed") and ran:
        ran = ran[:-1]      # the crashed step may be partial
    for name, a in recs.items():
        if a is None or name in ("inputs_stocks", "limiting_inputs"):
            continue
        bad_rows = [t for t in ran if t < a.shape[0] and not np.all(np.isfinite(a[t]))]
        if bad_rows:
            out.append(_fail(prop, trace, bad_rows[0], f"record {name} holds a non-finite value in a simulated row",
                             sig=f"record-nonfinite:{name}"))
    return out


def fast_overproduction(scn):
    """Region of the open finding: capacity-weighted orders and an overproduction response of at
    least the size of the scarcity itself within one step (either model class: first seen on the base
    class with steps of one temporal unit, then on the psi class with a step longer than alpha_tau)."""
    m = scn["model"]
    gain = (m.get("alpha_max", 1.25) - m.get("alpha_base", 1.0)) * m.get("dt", 1) / m.get("alpha_tau", 365)
    return m.get("order_type", "alt") == "alt" and gain >= 0.9


def mon_c01(trace):
    """Event-free run stays at the initial equilibrium."""
    out = []
    init = trace["init"]
    scn = trace["scenario"]
    if scn.get("events"):
        return out
    if trace.get("error") is not None:
        e = trace["error"]
        return [_fail("C01", trace, trace.get("n_steps", 0), f"event-free run raised {e['root_class']}: {e['root_msg'][:120]}",
                      sig="raised:" + e["root_class"])]
    if init is None:
        return out
    N, F = dims(init)
    inf_rows = np.isinf(init["inv_duration"])
    if trace.get("crashed"):
        out.append(_fail("C01", trace, trace.get("n_steps", 0), "event-free run flagged as crashed"))
    X0, Z0 = init["X0"], init["Z0"]
    s0 = init["stock0"]
    for st in trace["steps"]:
        t = st["t"]
        checks = []
        if "prod_post" in st:
            checks.append(("production", st["prod_post"], X0, np.abs(X0)))
        if "dist_post" in st and st.get("dist_crash") is None:
            post = st["dist_post"]
            fin = ~inf_rows
            checks.append(("inventories", post["stock"][fin], s0[fin], np.abs(s0[fin])))
            # unmet demand is final demand minus deliveries computed from the row's total demand:
            # its rounding noise scales with the row total (production), not with final demand
            checks.append(("unmet final demand", post["unmet"], np.zeros(N), np.abs(X0) + np.abs(init["Y0"]).sum(axis=1)))
        if "ord_post" in st:
            checks.append(("orders", st["ord_post"], Z0, np.abs(Z0)))
        if "prod_pre" in st:
            checks.append(("overproduction", st["prod_pre"]["alpha"], np.full(N, init["a_base"]), 1.0))
        for name, got, want, sc in checks:
            if not np.all(np.isfinite(got)):
                out.append(_fail("C01", trace, t, f"{name} not finite in an event-free run", sig="nonfinite"))
                break
            ok = _close(got, want, scale=sc * 1e-3)
            if not np.all(ok):
                c = _first_bad(ok)
                out.append(_fail("C01", trace, t, f"{name} left the equilibrium", np.asarray(got)[c], np.asarray(want)[c], c,
                                 sig="equilibrium-unstable-fast-overproduction" if (fast_overproduction(scn) and t > 20) else None))
                break
        if out:
            break
    return out


# ---------------------------------------------------------------------------
# events

RANK = {"pending": 0, "happening": 1, "rebuilding": 2, "recovering": 2, "finished": 3}


def _prec(init):
    return int(math.log10(init["mu"])) + 1


def no_supplier_condition(trace):
    """Some affected industry (or household column) has no supplier in a rebuilding sector."""
    init = trace["init"]
    if init is None:
        return False
    scn = trace["scenario"]
    from harness import gen
    inds, fds, Z, Y, x, va = gen.table_sorted(scn["table"])
    Z = np.array(Z)
    Y = np.array(Y)
    secs = scn["table"]["sectors"]
    nS = len(secs)
    for e in scn.get("events", []):
        if e["type"] != "rebuild":
            continue
        for s, _ in e["rebuilding_sectors"]:
            k = secs.index(s)
            rows = [r * nS + k for r in range(len(scn["table"]["regions"]))]
            for lab, _v in e.get("impact", []):
                j = inds.index(tuple(lab))
                if Z[rows, j].sum() == 0:
                    return True
            for lab, _v in e.get("households") or []:
                c = fds.index(tuple(lab))
                if Y[rows, c].sum() == 0:
                    return True
    return False


def mon_run_ok(prop):
    def mon(trace):
        if trace.get("error") is None:
            return []
        e = trace["error"]
        sig = f"raised:{e['root_class']}:{e['root_msg'][:60]}"
        if "capital lost" in e["root_msg"] and "higher than productive capital" in e["root_msg"]:
            return []   # the documented rejection (C07), not an internal error
        if "Cannot distribute the rebuilding demand" in e["root_msg"] and no_supplier_condition(trace):
            return []   # documented rejection: a rebuilding sector does not supply an affected client
        return [_fail(prop, trace, trace.get("n_steps"), f"run raised {e['root_class']}: {e['root_msg'][:160]} (stage {e.get('stage')})", sig=sig)]
    return mon


def mon_c07(trace):
    out = []
    init = trace["init"]
    if init is None:
        return out
    N, F = dims(init)
    K = init["K"]
    for st in trace["steps"]:
        post = st.get("ev_post")
        e1 = st.get("econ_post_events")
        if post is None or e1 is None or st.get("ev_error"):
            continue
        t = st["t"]
        kl = np.zeros(N)
        ar = np.zeros(N)
        touched = np.zeros(N, dtype=bool)
        for tr in post:
            if tr["status"] in ("happening", "rebuilding", "recovering") and tr["dmg"] is not None:
                kl += tr["dmg"]
                touched |= tr["dmg"] != 0
            if tr["status"] in ("happening", "recovering") and tr["arb"] is not None:
                ar = np.maximum(ar, tr["arb"])
                touched |= tr["arb"] != 0
        if np.any(kl > K * (1 + 1e-12)):
            f = _first_bad(kl <= K * (1 + 1e-12))
            out.append(_fail("C07", trace, t, "more capital destroyed than the industry owns and the event was not rejected", kl[f], K[f], f,
                             sig="overkill-accepted"))
        if e1["delta"] is None or not np.all(np.isfinite(e1["delta"])):
            out.append(_fail("C07", trace, t, "capacity loss not finite", sig="nonfinite"))
            continue
        with np.errstate(divide="ignore", invalid="ignore"):
            dk = np.where(K != 0, kl / np.where(K != 0, K, 1.0), 0.0)
        want = np.maximum(dk, ar)
        ok = _close(e1["delta"], want, scale=1e-6)
        if not np.all(ok):
            f = _first_bad(ok)
            out.append(_fail("C07", trace, t, "capacity loss differs from max(destroyed capital / capital, arbitrary loss)",
                             e1["delta"][f], want[f], f))
        if np.any(e1["delta"] < 0) or np.any(e1["delta"] > 1 + 1e-12):
            f = _first_bad((e1["delta"] >= 0) & (e1["delta"] <= 1 + 1e-12))
            out.append(_fail("C07", trace, t, "capacity loss outside [0, 1]", e1["delta"][f], 1.0, f))
        if np.any(e1["delta"][~touched] != 0):
            f = _first_bad(~((~touched) & (e1["delta"] != 0)))
            out.append(_fail("C07", trace, t, "capacity loss for an industry no active event affects", e1["delta"][f], 0.0, f))
    return out


def mon_c08(trace):
    out = []
    init = trace["init"]
    if init is None or not trace["steps"]:
        return out
    N, F = dims(init)
    nS, nR = init["nS"], init["nR"]
    scn = trace["scenario"]
    secs = scn["table"]["sectors"]
    q = 10.0 ** (-_prec(init))
    nosup = no_supplier_condition(trace)
    # creation
    first = trace["steps"][0].get("ev_pre") or []
    evs = scn.get("events", [])
    for i, tr in enumerate(first):
        if tr["kind"] != "rebuild" or i >= len(evs):
            continue
        e = evs[i]
        phi = tr["phi"]
        shares = np.zeros(nS)
        for s, sh in e["rebuilding_sectors"]:
            shares[secs.index(s)] = sh
        for name, rem, d0, width in (("industrial", tr["rem_i"], tr["dmg0"], N), ("household", tr["rem_h"], tr["hdmg0"], F)):
            if d0 is None:
                continue
            if rem is None:
                out.append(_fail("C08", trace, 0, f"no {name} reconstruction demand created"))
                continue
            if not np.all(np.isfinite(rem)):
                out.append(_fail("C08", trace, 0, f"{name} reconstruction demand not finite at creation",
                                 sig="no-supplier-in-rebuilding-sector" if nosup else "nonfinite-creation"))
                continue
            per_sector = rem.reshape(nR, nS, width).sum(axis=0)          # (sector, client)
            want = shares[:, None] * d0[None, :] * phi
            ok = _close(per_sector, want, scale=np.abs(d0).max() * 1e-9)
            if not np.all(ok):
                c = _first_bad(ok)
                out.append(_fail("C08", trace, 0, f"{name} reconstruction demand not split in the declared shares",
                                 per_sector[c], want[c], c,
                                 sig="no-supplier-in-rebuilding-sector" if nosup else None))
            tot, wtot = rem.sum(), d0.sum() * phi * shares.sum()
            if not _close(tot, wtot, scale=abs(wtot) * 1e-3):
                out.append(_fail("C08", trace, 0, f"total {name} reconstruction demand is not impact x rebuilding factor", tot, wtot,
                                 sig="no-supplier-in-rebuilding-sector" if nosup else None))
        # unit conversion of the destroyed capital itself
        if e.get("ctor", "series") == "series" and tr["dmg0"] is not None:
            from harness import gen
            inds = [(r, s) for r in scn["table"]["regions"] for s in secs]
            conv = (e.get("emf") or 1) / init["mu"]
            want = np.zeros(N)
            for lab, v in e["impact"]:
                want[inds.index(tuple(lab))] = v * conv
            if not np.all(_close(tr["dmg0"], want, scale=np.abs(want).max() * 1e-9)):
                c = _first_bad(_close(tr["dmg0"], want, scale=np.abs(want).max() * 1e-9))
                out.append(_fail("C08", trace, 0, "destroyed capital not converted to the model's monetary unit",
                                 tr["dmg0"][c], want[c], c))
    # per step
    for st in trace["steps"]:
        t = st["t"]
        post = st.get("ev_post")
        e1 = st.get("econ_post_events")
        if post and e1 is not None and not st.get("ev_error"):
            E = e1["nE"]
            dem = e1["dem"]
            for tr in post:
                if tr["status"] != "rebuilding" or tr["rid"] is None:
                    continue
                rid = tr["rid"]
                fac = init["dt"] / tr["tau"]
                if tr["rem_i"] is not None and np.all(np.isfinite(tr["rem_i"])):
                    lo = N + F + N * rid
                    blk = dem[:, lo:lo + N]
                    if blk.shape != tr["rem_i"].shape or not np.all(_close(blk, tr["rem_i"] * fac, scale=q)):
                        out.append(_fail("C08", trace, t, "demand presented to producers is not remaining demand / tau (industries)"))
                if tr["rem_h"] is not None and tr["hdmg"] is not None and np.all(np.isfinite(tr["rem_h"])):
                    lo = N + F + N * E + F * rid
                    blk = dem[:, lo:lo + F]
                    if blk.shape != tr["rem_h"].shape or not np.all(_close(blk, tr["rem_h"] * fac, scale=q)):
                        out.append(_fail("C08", trace, t, "demand presented to producers is not remaining demand / tau (households)"))
        pre, pst = st.get("reb_pre"), st.get("reb_post")
        rp = st.get("reb_rprod")
        if pre and pst and rp is not None:
            E = st["reb_pre_nE"]
            for a, b in zip(pre, pst):
                if a["status"] != "rebuilding" or a["rid"] is None:
                    continue
                rid = a["rid"]
                for name, key, dkey, lo, width in (("industrial", "rem_i", "dmg", N * rid, N),
                                                   ("household", "rem_h", "hdmg", N * E + F * rid, F)):
                    r0, r1 = a[key], b[key]
                    if r0 is None:
                        continue
                    if not np.all(np.isfinite(r0)):
                        out.append(_fail("C08", trace, t, f"remaining {name} demand not finite",
                                         sig="no-supplier-in-rebuilding-sector" if nosup else "nonfinite"))
                        continue
                    dl = rp[:, lo:lo + width]
                    if dl.shape != r0.shape:
                        out.append(_fail("C08", trace, t, f"{name} block delivered to the event has the wrong shape"))
                        continue
                    new = np.zeros_like(r0) if r1 is None else r1
                    exact = r0 - dl
                    if np.any(new < 0):
                        out.append(_fail("C08", trace, t, f"remaining {name} demand negative", float(new.min()), 0.0))
                    if np.any(new > r0 + q * 0.51):
                        c = _first_bad(new <= r0 + q * 0.51)
                        out.append(_fail("C08", trace, t, f"remaining {name} demand increased", new[c], r0[c], c))
                    pos = exact >= 0
                    if np.any(np.abs(new - exact)[pos] > q * 0.5 * (1 + 1e-6) + 1e-9 * np.abs(exact[pos])):
                        c = _first_bad(~(pos & (np.abs(new - exact) > q * 0.5 * (1 + 1e-6) + 1e-9 * np.abs(exact))))
                        out.append(_fail("C08", trace, t, f"remaining {name} demand did not decrease by the production delivered (beyond the rounding quantum)",
                                         new[c], exact[c], c))
                    d1 = b[dkey]
                    wantd = new.sum(axis=0) / a["phi"]
                    got = np.zeros(width) if d1 is None else d1
                    if not np.all(_close(got, wantd, scale=q)):
                        c = _first_bad(_close(got, wantd, scale=q))
                        out.append(_fail("C08", trace, t, f"reported destroyed {name} capital is not remaining demand / rebuilding factor",
                                         got[c], wantd[c], c))
                fin = b["status"] == "finished"
                zero = (b["rem_i"] is None) and (b["rem_h"] is None)
                if fin != zero:
                    out.append(_fail("C08", trace, t, "event finished while demand remains (or the reverse)"))
    return out


def mon_c09(trace):
    out = []
    init = trace["init"]
    if init is None:
        return out
    prec = _prec(init)
    scn = trace["scenario"]
    evs = scn.get("events", [])
    prev = {}
    for st in trace["steps"]:
        t = st["t"]
        # before recovery starts the damage equals the initial damage
        for i, tr in enumerate(st.get("ev_post") or []):
            if tr["kind"] == "rebuild":
                continue
            if tr["status"] in ("pending", "happening"):
                for key, k0 in (("dmg", "dmg0"), ("hdmg", "hdmg0"), ("arb", "arb0")):
                    if tr[k0] is not None and (tr[key] is None or not np.array_equal(tr[key], tr[k0])):
                        out.append(_fail("C09", trace, t, f"{key} differs from the initial damage before recovery started"))
        pre, pst, orac = st.get("rec_pre"), st.get("rec_post"), st.get("rec_oracle")
        if not pre or pst is None or orac is None:
            continue
        for i, (a, b, o) in enumerate(zip(pre, pst, orac)):
            if a["status"] != "recovering" or o is None:
                continue
            e = o["e"]
            exp_e = t - (a["occ"] + a["dur"])
            if e != exp_e or e < 0:
                out.append(_fail("C09", trace, t, "recovery evaluated at a wrong elapsed time", e, exp_e))
            rf = evs[i].get("recovery_function", "linear") if i < len(evs) else None
            tau = evs[i].get("tau") if i < len(evs) else None
            for key, k0, ok_, p in (("dmg", "dmg0", "d", prec), ("hdmg", "hdmg0", "h", prec), ("arb", "arb0", "a", 6)):
                if a[key] is None or a[k0] is None or ok_ not in o:
                    continue
                want = np.round(o[ok_], p)
                got = np.zeros_like(want) if b[key] is None else b[key]
                quantum = 10.0 ** (-p)
                if not np.all(np.abs(got - o[ok_]) <= quantum * 0.5 * (1 + 1e-6) + 1e-12 * np.abs(o[ok_])):
                    c = _first_bad(np.abs(got - o[ok_]) <= quantum * 0.5 * (1 + 1e-6) + 1e-12 * np.abs(o[ok_]))
                    out.append(_fail("C09", trace, t, f"{key} is not the recovery function at the elapsed steps (beyond the rounding quantum)",
                                     got[c], o[ok_][c], c))
                eps = 1e-12 * np.abs(a[k0])          # binary64 noise of the rounding itself on large values
                ill = rf == "concave" and tau is not None and tau <= 2
                if np.any(got < 0):
                    out.append(_fail("C09", trace, t, f"{key} negative during recovery", float(got.min()), 0.0))
                if np.any(got > a[k0] + quantum * 0.51 + eps):
                    out.append(_fail("C09", trace, t, f"{key} exceeds the initial damage"))
                if rf in ("linear", "convexe", "convexe noscale", "concave"):
                    pv = prev.get((i, key))
                    if pv is not None and np.any(got > pv + quantum * 0.51 + eps):
                        out.append(_fail("C09", trace, t, f"{key} increased under a built-in recovery curve"
                                         + (" (concave curve with recovery_tau <= 2)" if ill else ""),
                                         sig="concave-recovery-tau-le-2" if ill else None))
                    if rf == "linear" and tau is not None and e == tau and np.any(got != 0):
                        out.append(_fail("C09", trace, t, "linear recovery: damage not zero after tau recovery steps"))
                prev[(i, key)] = got
            allnone = b["dmg"] is None and b["hdmg"] is None and b["arb"] is None
            if (b["status"] == "finished") != allnone:
                out.append(_fail("C09", trace, t, "event finished while damage remains (or the reverse)"))
    # a finished event contributes no capacity loss: checked by C07's support clause
    return out


def mon_c10(trace):
    out = []
    init = trace["init"]
    if init is None:
        return out
    dt = int(init["dt"])
    K = init["K"]
    last = None
    for st in trace["steps"]:
        t = st["t"]
        seqs = [st.get("ev_pre"), st.get("ev_post"), st.get("reb_post"), st.get("rec_post")]
        for cur in seqs:
            if cur is None:
                continue
            if last is not None and len(cur) < len(last):
                out.append(_fail("C10", trace, t, f"{len(last) - len(cur)} registered event(s) disappeared", sig="tracker-lost"))
            if last is not None:
                # events are only ever appended: compare the trackers already registered
                for i, (a, b) in enumerate(zip(last, cur)):
                    if RANK[b["status"]] < RANK[a["status"]] or (RANK[b["status"]] == RANK[a["status"]] and a["status"] != b["status"]):
                        out.append(_fail("C10", trace, t, f"event {i} went from {a['status']} to {b['status']}"))
                    if a["status"] == "pending" and b["status"] not in ("pending", "happening") and dt == 1:
                        out.append(_fail("C10", trace, t, f"event {i} skipped the happening status"))
            last = cur
        post = st.get("ev_post")
        e1 = st.get("econ_post_events")
        if post is None or e1 is None or st.get("ev_error"):
            continue
        for i, tr in enumerate(post):
            occ, dur = tr["occ"], tr["dur"]
            if t < occ and tr["status"] != "pending":
                out.append(_fail("C10", trace, t, f"event {i} left pending before its occurrence"))
            if t >= occ and t - dt < occ and tr["status"] == "pending":
                out.append(_fail("C10", trace, t, f"event {i} still pending at its occurrence"))
            started = tr["status"] in ("rebuilding", "recovering", "finished")
            if t < occ + dur and started:
                out.append(_fail("C10", trace, t, f"event {i} started rebuilding/recovering before occurrence + duration"))
            if t >= occ + dur and t >= occ and t - dt < max(occ + dur, occ + dt) and tr["status"] == "happening" and t - dt >= occ - dt:
                # first step at or after occ+dur (and after activation): must have started
                if t - dt < occ + dur:
                    out.append(_fail("C10", trace, t, f"event {i} did not start rebuilding/recovering at occurrence + duration"))
            # shock in force from the step equal to the occurrence
            if occ <= t < occ + dur and e1["delta"] is not None and np.all(np.isfinite(e1["delta"])):
                want = np.zeros_like(e1["delta"])
                if tr["dmg0"] is not None:
                    with np.errstate(divide="ignore", invalid="ignore"):
                        want = np.where(K != 0, tr["dmg0"] / np.where(K != 0, K, 1.0), 0.0)
                if tr["arb0"] is not None:
                    want = np.maximum(want, tr["arb0"])
                if np.any(e1["delta"] < want * (1 - 1e-9)):
                    f = _first_bad(e1["delta"] >= want * (1 - 1e-9))
                    out.append(_fail("C10", trace, t, f"shock of event {i} not in force at/after its occurrence", e1["delta"][f], want[f], f,
                                     sig="shock-not-in-force"))
    return out


def _relabel(mon, prop):
    def m(trace):
        out = mon(trace)
        for f in out:
            f["property"] = prop
        return out
    m.__name__ = f"{mon.__name__}_as_{prop}"
    return m


def mon_c08_as(prop):
    """books of the events stay separate: each event is credited its own block (C11 reads C08's ledger clauses)"""
    return _relabel(mon_c08, prop)


def mon_c07_as(prop):
    return _relabel(mon_c07, prop)
