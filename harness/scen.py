"""Scenario description -> real BoARIO objects (through the public API only).

A scenario is a plain JSON-able dict, every float written as a Python float
(round-trips exactly through json).  Nothing here imports from /verif's model:
this module only drives the implementation under /repo.
"""
from __future__ import annotations

import os
import sys
import warnings

REPO = os.environ.get("VERIF_REPO", "/repo")
if REPO not in sys.path:
    sys.path.insert(0, REPO)
os.environ.setdefault("BOARIO_VERIF", "1")

import numpy as np  # noqa: E402
import pandas as pd  # noqa: E402
import pymrio  # noqa: E402

warnings.simplefilter("ignore")

import boario  # noqa: E402
from boario import event as bev  # noqa: E402
from boario.extended_models import ARIOPsiModel  # noqa: E402
from boario.model_base import ARIOBaseModel  # noqa: E402
from boario.simulation import Simulation  # noqa: E402

import logging  # noqa: E402

logging.getLogger("boario").setLevel(logging.CRITICAL)
boario.logger.setLevel(logging.CRITICAL)
boario.logger.disabled = True

assert os.path.realpath(boario.__file__).startswith(os.path.realpath(REPO)), boario.__file__


def build_mriot(scn):
    """The table exactly as the user would hand it over (label order as given)."""
    t = scn["table"]
    regions, sectors, cats = t["regions"], t["sectors"], t["fdcats"]
    idx = pd.MultiIndex.from_tuples([tuple(x) for x in t["row_labels"]], names=["region", "sector"])
    cidx = pd.MultiIndex.from_tuples([tuple(x) for x in t["col_labels"]], names=["region", "sector"])
    yidx = pd.MultiIndex.from_tuples([tuple(x) for x in t["ycol_labels"]], names=["region", "category"])
    Z = pd.DataFrame(np.array(t["Z"], dtype=float), index=idx, columns=cidx)
    Y = pd.DataFrame(np.array(t["Y"], dtype=float), index=idx, columns=yidx)
    io = pymrio.IOSystem(Z=Z, Y=Y)
    if t.get("x") is not None:
        x = pd.DataFrame({"indout": np.array(t["x"], dtype=float)}, index=idx)
    else:
        x = pymrio.calc_x(Z, Y)
    io.x = x
    io.A = pymrio.calc_A(io.Z, io.x)
    drop = t.get("drop")
    if drop:
        setattr(io, drop, None)
    if t.get("A_scale") is not None:
        io.A = io.A * t["A_scale"]
    return io


def _capital_arg(scn, model_kwargs):
    cap = scn["model"].get("capital")
    if not cap:
        return
    kind = cap["kind"]
    if kind == "ratio_dict":
        model_kwargs["productive_capital_to_VA_dict"] = dict(cap["dict_items"])
        return
    labels = [tuple(x) for x in cap["labels"]]
    vals = np.array(cap["values"], dtype=float)
    idx = pd.MultiIndex.from_tuples(labels, names=["region", "sector"])
    if kind == "ndarray":
        v = vals
    elif kind == "list":
        v = list(vals)
    elif kind == "series":
        v = pd.Series(vals, index=idx)
    elif kind == "df_col":
        v = pd.DataFrame({"K": vals}, index=idx)
    elif kind == "df_row":
        v = pd.DataFrame([vals], columns=idx, index=["K"])
    else:
        raise ValueError(kind)
    model_kwargs["productive_capital_vector"] = v


def model_kwargs(scn):
    """(class, keyword arguments) exactly as a user would pass them."""
    m = scn["model"]
    kw = dict(
        order_type=m.get("order_type", "alt"),
        alpha_base=m.get("alpha_base", 1.0),
        alpha_max=m.get("alpha_max", 1.25),
        alpha_tau=m.get("alpha_tau", 365),
        rebuild_tau=m.get("rebuild_tau", 60),
        main_inv_dur=m.get("main_inv_dur", 90),
        monetary_factor=m.get("monetary_factor", 10**6),
        temporal_units_by_step=m.get("dt", 1),
        iotable_year_to_temporal_unit_factor=m.get("year_factor", 365),
    )
    if m.get("infinite_inventories_sect") is not None:
        kw["infinite_inventories_sect"] = list(m["infinite_inventories_sect"])
    if m.get("inventory_dict") is not None:
        kw["inventory_dict"] = dict(m["inventory_dict"])  # list of pairs keeps order
    _capital_arg(scn, kw)
    if m.get("class", "psi") == "psi":
        psi = m.get("psi", 0.8)
        form = m.get("psi_form", "float")        # the documented ways of writing psi
        if form == "str_dot":
            psi = repr(float(psi))
        elif form == "str_us":
            psi = repr(float(psi)).replace(".", "_")
        elif form == "int" and float(psi) == int(psi):
            psi = int(psi)
        kw["psi_param"] = psi
        rt = m.get("inventory_restoration_tau", 60)
        kw["inventory_restoration_tau"] = dict(rt) if isinstance(rt, list) else rt
        return ARIOPsiModel, kw
    return ARIOBaseModel, kw


def build_model(scn, mriot=None):
    if mriot is None:
        mriot = build_mriot(scn)
    cls, kw = model_kwargs(scn)
    return cls(mriot, **kw)


def _series(pairs, names):
    idx = pd.MultiIndex.from_tuples([tuple(k) for k, _ in pairs], names=names)
    return pd.Series([float(v) for _, v in pairs], index=idx, dtype="float64")


def user_recovery(elapsed_temporal_unit, init_impact_stock, recovery_tau):
    """A user-supplied recovery callable (quadratic decay)."""
    r = max(0.0, 1.0 - elapsed_temporal_unit / recovery_tau)
    return init_impact_stock * r * r


def user_recovery_fixed(elapsed_temporal_unit, init_impact_stock, recovery_tau):
    """A user-supplied recovery callable that is NOT proportional to the initial damage: the same
    absolute amount is repaired per temporal unit everywhere (the largest damage is gone after tau)."""
    rate = float(np.max(init_impact_stock)) / recovery_tau
    return np.maximum(init_impact_stock - rate * elapsed_temporal_unit, 0.0)


def _build_event_raw(e):
    """One event through the public constructors."""
    kind = e["type"]
    # "redate" / "relength": the event was first built with another date / duration and then moved with the public setters
    common = dict(occurrence=e.get("occ", 1) - e.get("redate", 0), duration=e.get("dur", 1) + e.get("relength", 0), name=e.get("name"))
    extra = {}
    if kind in ("rebuild", "recovery"):
        if e.get("emf") is not None:
            extra["event_monetary_factor"] = e["emf"]
        if e.get("households") is not None:
            extra["households_impact"] = _series(e["households"], ["region", "category"])
    if kind == "rebuild":
        extra["rebuild_tau"] = e.get("tau")
        rs = e["rebuilding_sectors"]
        extra["rebuilding_sectors"] = dict(rs) if e.get("rs_kind", "dict") == "dict" else pd.Series(dict(rs))
        extra["rebuilding_factor"] = e.get("factor", 1.0)
    else:
        extra["recovery_tau"] = e.get("tau")
        rf = e.get("recovery_function", "linear")
        extra["recovery_function"] = user_recovery if rf == "user" else (user_recovery_fixed if rf == "user_fixed" else rf)
    ctor = e.get("ctor", "series")
    if ctor == "series":
        return bev.from_series(_series(e["impact"], ["region", "sector"]), event_type=kind, **common, **extra)
    if ctor == "scalar_industries":
        d = e.get("distrib", "equal")
        if d != "equal":
            d = _series(d, ["region", "sector"])
        return bev.from_scalar_industries(
            e["scalar"], event_type=kind, affected_industries=[tuple(x) for x in e["industries"]],
            impact_distrib=d, **common, **extra)
    if ctor == "scalar_regions_sectors":
        rd = e.get("regional_distrib", "equal")
        sd = e.get("sectoral_distrib", "equal")
        if rd != "equal":
            rd = pd.Series(dict(rd))
        if sd != "equal":
            sd = pd.Series(dict(sd))
        return bev.from_scalar_regions_sectors(
            e["scalar"], event_type=kind, affected_regions=list(e["regions"]),
            affected_sectors=list(e["sectors"]), impact_regional_distrib=rd,
            impact_sectoral_distrib=sd, **common, **extra)
    raise ValueError(ctor)


def build_event(e):
    ev = _build_event_raw(e)
    if e.get("redate"):
        ev.occurrence = e.get("occ", 1)
    if e.get("relength"):
        ev.duration = e.get("dur", 1)
    return ev


def build_sim(scn, model=None, outdir=None, events_mode="add", events=None):
    s = scn.get("sim", {})
    if model is None:
        model = build_model(scn)
    kw = dict(register_stocks=s.get("register_stocks", False), n_temporal_units_to_sim=s.get("n", 20))
    if s.get("save_records") is not None:
        kw["save_records"] = s["save_records"]
    if s.get("show_progress"):
        kw["show_progress"] = True
    if outdir is not None:
        kw["boario_output_dir"] = outdir
    if s.get("results_dir_name"):
        kw["results_dir_name"] = s["results_dir_name"]
    if events is None:
        events = [build_event(e) for e in scn.get("events", [])]
    if events_mode == "ctor":
        sim = Simulation(model, events_list=events, **kw)
    else:
        sim = Simulation(model, **kw)
        if events_mode == "list":
            sim.add_events(events)
        else:
            for ev in events:
                sim.add_event(ev)
    return sim
