"""Correspondence cases for the event life-cycle (see coq/Corr/CheckEv.v)."""
from __future__ import annotations

import math

import numpy as np

from harness.cases import NonFinite, qnum

STATUS = {"pending": "Pending", "happening": "Happening", "rebuilding": "Rebuilding",
          "recovering": "Recovering", "finished": "Finished"}
KIND = {"rebuild": "KRebuild", "recovery": "KRecover", "arbitrary": "KArb"}


def _ov(cf, v):
    if v is None:
        return "None"
    return "(Some " + cf.vec(v) + ")"


def _om(cf, a):
    if a is None:
        return "None"
    return "(Some " + cf.mat(a) + ")"


def tracker_expr(cf, tr, oracle=None):
    """Coq record for one tracker snapshot."""
    if oracle is not None:
        zero = np.zeros(1)
        rf = (f"(rf_oracle {_ov(cf, tr['dmg0'])} {_ov(cf, tr['hdmg0'])} {_ov(cf, tr['arb0'])} "
              f"{cf.vec(oracle.get('d', zero))} {cf.vec(oracle.get('h', zero))} {cf.vec(oracle.get('a', zero))})")
    else:
        rf = "(fun _ v => v)"
    rid = "None" if tr["rid"] is None else f"(Some {int(tr['rid'])}%nat)"
    fields = dict(
        kind=KIND[tr["kind"]], occ=f"{tr['occ']}%nat", dur=f"{tr['dur']}%nat",
        tau=qnum(tr.get("tau", 1)), phi=qnum(tr.get("phi", 1.0)), rf=rf,
        dmg0=_ov(cf, tr["dmg0"]), hdmg0=_ov(cf, tr["hdmg0"]), arb0=_ov(cf, tr["arb0"]),
        st=STATUS[tr["status"]], rid=rid,
        dmg=_ov(cf, tr["dmg"]), hdmg=_ov(cf, tr["hdmg"]), arb=_ov(cf, tr["arb"]),
        rem_i=_om(cf, tr["rem_i"]), rem_h=_om(cf, tr["rem_h"]),
    )
    return "{| " + "; ".join(f"{k} := {v}" for k, v in fields.items()) + " |}"


def trackers_expr(cf, trs, oracles=None):
    items = []
    for i, tr in enumerate(trs):
        o = oracles[i] if oracles else None
        items.append(tracker_expr(cf, tr, o))
    return cf.raw("[" + ";\n  ".join(items) + "]", "list tracker")


def prec_of(mu):
    return int(math.log10(mu)) + 1


def event_checks(cf, P, trace, step, sid, want=None):
    init = trace["init"]
    if not step.get("ev_pre"):
        # no events in this simulation: nothing to check beyond the economy
        if not step.get("ev_post"):
            return
    t = step["t"]
    dt = int(init["dt"])
    prec = prec_of(init["mu"])

    def tag(ob):
        return {"scn": sid, "t": t, "ob": ob}

    def emit(obs, fn):
        if want is not None and not any(o in want for o in obs):
            return
        try:
            expr = fn()
        except NonFinite as e:
            for o in obs:
                cf.pre.append((tag(o), 4, str(e)))
            return
        cf.check([tag(o) for o in obs], expr)

    pre = step.get("ev_pre") or []
    post = step.get("ev_post")
    if post is not None and pre:
        e0 = step["econ_pre_events"]
        e1 = step["econ_post_events"]
        emit(["sched.status", "sched.rid", "sched.count"],
             lambda: f"chk_sched {P} {dt}%nat {t}%nat {e0['nE']}%nat {trackers_expr(cf, pre)} "
                     f"{trackers_expr(cf, post)} {e1['nE']}%nat")
        err = step.get("ev_error")
        exceeded = bool(err and "capital lost" in err["msg"].lower())
        other_error = bool(err and not exceeded)
        if other_error:
            cf.pre.append((tag("events.error"), 3, err["class"] + ": " + err["msg"]))
        else:
            def delta_expr():
                if exceeded:
                    return (f"chk_delta {P} {trackers_expr(cf, post)} true None None None")
                return (f"chk_delta {P} {trackers_expr(cf, post)} false {_ov(cf, e1['klost'])} "
                        f"{_ov(cf, e1['arb'])} {_ov(cf, e1['delta'])}")
            emit(["delta.exceeded", "delta.capital", "delta.arbitrary", "delta.total"], delta_expr)
            if not exceeded:
                resized = e1["nE"] != e0["nE"]
                emit(["reb.blocks"],
                     lambda: "[" + f"chk_blocks {P} {qnum(float(dt))} {'true' if resized else 'false'} {e1['nE']}%nat "
                             f"{trackers_expr(cf, post)} {cf.mat(e0['dem'])} {cf.mat(e1['dem'])}" + "]")
    if step.get("reb_pre") and step.get("reb_post") is not None and step.get("reb_rprod") is not None:
        rp = step["reb_rprod"]
        N = init["nR"] * init["nS"]
        if rp.size == 0:
            rpx = lambda: cf.raw("(tab " + str(N) + "%nat (fun _ => []))", "mat")  # noqa: E731
        else:
            rpx = lambda: cf.mat(rp)  # noqa: E731
        emit(["reb.status", "reb.rid", "reb.dmg", "reb.hdmg", "reb.arb", "reb.ledger_i", "reb.ledger_h", "reb.count"],
             lambda: f"chk_rebuild {P} ({prec})%Z {step['reb_pre_nE']}%nat {rpx()} "
                     f"{trackers_expr(cf, step['reb_pre'])} {trackers_expr(cf, step['reb_post'])} "
                     f"{step['reb_post_nE']}%nat")
        if "dist_post" in step and "ord_pre" in step:
            emit(["reb.carry"],
                 lambda: "[" + f"chk_carry {P} ({prec})%Z {step['reb_pre_nE']}%nat {rpx()} {trackers_expr(cf, step['reb_pre'])} "
                         f"{cf.mat(step['dist_post']['dem'])} {cf.mat(step['ord_pre']['dem'])}" + "]")
    if step.get("rec_pre") and step.get("rec_post") is not None:
        orac = step.get("rec_oracle")
        if orac and any(o and o.get("error") for o in orac):
            cf.pre.append((tag("rec.oracle"), 3, "recovery callable raised"))
        else:
            emit(["rec.status", "rec.rid", "rec.dmg", "rec.hdmg", "rec.arb", "rec.ledger_i", "rec.ledger_h"],
                 lambda: f"chk_recover {P} ({prec})%Z {t}%nat {trackers_expr(cf, step['rec_pre'], orac)} "
                         f"{trackers_expr(cf, step['rec_post'])}")


REG_OBS = ["reg.status", "reg.rid", "reg.dmg", "reg.hdmg", "reg.arb", "reg.ledger_i", "reg.ledger_h", "reg.fresh"]


def register_checks(cf, P, trace, sid):
    """Events registered between two steps (Simulation.add_event / add_events) vs Sim.register."""
    for reg in trace.get("registrations") or []:
        if "post" not in reg:
            continue
        tags = [{"scn": sid, "t": reg["t"], "ob": o} for o in REG_OBS]
        try:
            cf.check(tags, f"chk_register {P} {trackers_expr(cf, reg['pre'])} {trackers_expr(cf, reg['post'])}")
        except NonFinite as e:
            cf.pre.append((tags[0], 4, str(e)))
