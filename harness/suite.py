"""The shared correspondence suite: generated scenarios are run on the real
implementation (lock-step), the recorded phases are evaluated by the Coq model,
verdicts are cached on disk keyed by the content of /repo/boario, of the model
and harness, the seed and the tier - so the twenty checks reuse one run, and any
edit to the repository invalidates it."""
from __future__ import annotations

import hashlib
import multiprocessing as mp
import os
import pickle
import random
import sys
import time

ROOT = os.path.dirname(os.path.dirname(os.path.abspath(__file__)))
REPO = os.environ.get("VERIF_REPO", "/repo")
CACHE = os.path.join(ROOT, "cache")


def _hash_files(paths):
    h = hashlib.sha256()
    for p in sorted(paths):
        h.update(p.encode())
        try:
            with open(p, "rb") as f:
                h.update(f.read())
        except OSError:
            h.update(b"<missing>")
    return h.hexdigest()


def repo_hash():
    paths = []
    for d, _, fs in os.walk(os.path.join(REPO, "boario")):
        if "__pycache__" in d:
            continue
        paths += [os.path.join(d, f) for f in fs if f.endswith(".py")]
    return _hash_files(paths)


def machinery_hash():
    paths = []
    for sub in ("harness", "coq/Base", "coq/Model", "coq/Corr"):
        for d, _, fs in os.walk(os.path.join(ROOT, sub)):
            if "__pycache__" in d:
                continue
            paths += [os.path.join(d, f) for f in fs if f.endswith((".py", ".v"))]
    return _hash_files(paths)


def cache_get(name, key):
    p = os.path.join(CACHE, f"{name}-{key[:24]}.pkl")
    if os.path.exists(p):
        try:
            with open(p, "rb") as f:
                return pickle.load(f)
        except Exception:  # noqa: BLE001
            return None
    return None


def cache_put(name, key, val):
    os.makedirs(CACHE, exist_ok=True)
    p = os.path.join(CACHE, f"{name}-{key[:24]}.pkl")
    tmp = p + f".{os.getpid()}.tmp"
    with open(tmp, "wb") as f:
        pickle.dump(val, f)
    os.replace(tmp, p)
    # keep the cache small: the six most recent entries only
    try:
        files = sorted((os.path.join(CACHE, fn) for fn in os.listdir(CACHE) if fn.endswith(".pkl")),
                       key=os.path.getmtime, reverse=True)
        for fp in files[6:]:
            os.remove(fp)
    except OSError:
        pass


PLAN = {
    "quick": [("equilibrium", 14), ("mixed", 12), ("rebuild", 8), ("rebuild_finish", 14), ("recover", 6), ("shortage", 8), ("aftermath", 6), ("exhaust", 8), ("nonreal", 6), ("overkill", 8), ("fast_rebuild", 6), ("relay", 8)],
    "thorough": [("equilibrium", 40), ("mixed", 60), ("rebuild", 40), ("rebuild_finish", 40), ("recover", 30), ("shortage", 40),
                 ("aftermath", 30), ("exhaust", 40), ("nonreal", 30), ("overkill", 30), ("fast_rebuild", 20), ("relay", 20)],
}
MAX_STEPS_CHECKED = {"quick": 6, "thorough": 8}


def suite_scenarios(seed, tier):
    from harness import gen
    rng = random.Random(f"suite-{seed}-{tier}")
    scns = []
    corpus = load_corpus()
    scns.extend(corpus)
    for prof, n in PLAN[tier]:
        for k in range(n):
            ov = None
            if prof == "equilibrium":
                # every sparsity class with both order variants, in turn
                sp = gen.SPARSITIES[1:]
                ov = dict(sparsity=sp[k % len(sp)], order_type=["alt", "noalt"][(k // len(sp)) % 2])
            scns.append(gen.gen_scenario(rng.randrange(10**9), prof, ov))
    return scns


def load_corpus():
    import json
    d = os.path.join(ROOT, "corpus")
    out = []
    if os.path.isdir(d):
        for fn in sorted(os.listdir(d)):
            if fn.endswith(".json"):
                with open(os.path.join(d, fn)) as f:
                    s = json.load(f)
                if "table" in s:
                    s.setdefault("id", "corpus-" + fn[:-5])
                    out.append(s)
    return out


def pick_steps(trace, kmax, rng):
    steps = trace["steps"]
    n = len(steps)
    if n <= kmax:
        return list(range(n))
    chosen = {0, 1, 2, n - 1}
    # steps where some tracker changes status, and the step after
    for i, st in enumerate(steps):
        pre = [t["status"] for t in st.get("ev_pre", [])]
        post = [t["status"] for t in (st.get("rec_post") or st.get("reb_post") or st.get("ev_post") or [])]
        if pre != post:
            chosen.add(i)
            if i + 1 < n:
                chosen.add(i + 1)
    chosen = sorted(chosen)
    if len(chosen) > kmax:
        head = chosen[:3]
        rest = [c for c in chosen if c not in head]
        chosen = sorted(head + rng.sample(rest, kmax - 3))
    while len(chosen) < kmax:
        c = rng.randrange(n)
        if c not in chosen:
            chosen.append(c)
    return sorted(chosen)


def _worker(args):
    scn, kmax, idx = args
    sys.path.insert(0, ROOT)
    from harness import cases, createcases, drive, evcases, initcases, stepcases
    trace = drive.run(scn)
    cf = cases.CaseFile()
    info = {"steps_checked": []}
    if trace["init"] is not None:
        initcases.init_checks(cf, trace, scn["id"])
        initcases.canon_checks(cf, trace, scn["id"])
        initcases.create_checks(cf, trace, scn["id"])
    if trace["init"] is not None and trace["steps"]:
        rng = random.Random(f"steps-{scn['id']}")
        P = cases.params_expr(cf, trace["init"])
        for i in pick_steps(trace, kmax, rng):
            st = trace["steps"][i]
            cases.econ_checks(cf, P, trace["init"], st, scn["id"])
            evcases.event_checks(cf, P, trace, st, scn["id"])
            stepcases.step_checks(cf, P, trace, st, scn["id"])
            info["steps_checked"].append(st["t"])
        evcases.register_checks(cf, P, trace, scn["id"])
        createcases.create_tracker_checks(cf, P, trace, scn["id"])
    return idx, trace, cf, info


def run_suite(seed, tier, jobs=16, log=print):
    key = hashlib.sha256(f"{repo_hash()}|{machinery_hash()}|{seed}|{tier}".encode()).hexdigest()
    hit = cache_get("suite", key)
    if hit is not None:
        log(f"[suite] cache hit {key[:12]}")
        return hit
    t0 = time.time()
    from harness import cases
    scns = suite_scenarios(seed, tier)
    kmax = MAX_STEPS_CHECKED[tier]
    with mp.get_context("fork").Pool(jobs) as pool:
        out = pool.map(_worker, [(s, kmax, i) for i, s in enumerate(scns)], chunksize=1)
    out.sort(key=lambda x: x[0])
    t1 = time.time()
    files = []
    for idx, trace, cf, info in out:
        if cf.checks or cf.pre:
            files.append((os.path.join(cases.BUILD, f"suite_{os.getpid()}_{idx}"), cf))
    verdicts = cases.run_casefiles(files, jobs=jobs)
    t2 = time.time()
    res = {
        "key": key, "seed": seed, "tier": tier,
        "traces": [o[1] for o in out], "info": [o[3] for o in out],
        "verdicts": verdicts, "t_impl": t1 - t0, "t_coq": t2 - t1,
    }
    for idx, _, cf, _ in out:
        try:
            os.remove(os.path.join(cases.BUILD, f"suite_{os.getpid()}_{idx}.v"))
        except OSError:
            pass
    cache_put("suite", key, res)
    log(f"[suite] {len(scns)} scenarios, {len(verdicts)} obligations evaluated, impl {t1-t0:.1f}s coq {t2-t1:.1f}s")
    return res
