"""Rounding ties of the ledgers (and of the scarcity test in the whole-step obligation).

The ledgers round to a quantum (half to even).  The model rounds the exact value of
`remaining - delivered` (resp. of the recovery function), the implementation rounds the
binary64 result of that subtraction after scaling by 10^p in binary64: when the exact
value lies within 1e-6 quantum of a midpoint the two can legitimately differ by one
quantum (the property accepts either outcome at exact ties).  Such steps are classified
TIE: accepted, counted and reported in the evidence, never silently dropped."""
from __future__ import annotations

import math
from fractions import Fraction

import numpy as np


def _near_half(x, p):
    y = Fraction(float(x)) * (Fraction(10) ** p)
    fr = y - math.floor(y)
    return abs(fr - Fraction(1, 2)) < Fraction(1, 10**6)


def tie_steps(trace):
    init = trace.get("init")
    out = set()
    if init is None:
        return out
    N = init["nR"] * init["nS"]
    F = init["nR"] * init["nC"]
    prec = int(math.log10(init["mu"])) + 1
    for st in trace["steps"]:
        t = st["t"]
        pre, rp = st.get("reb_pre"), st.get("reb_rprod")
        if pre and rp is not None:
            E = st.get("reb_pre_nE", 0)
            for tr in pre:
                if tr["status"] != "rebuilding" or tr["rid"] is None:
                    continue
                rid = tr["rid"]
                for key, lo, w in (("rem_i", N * rid, N), ("rem_h", N * E + F * rid, F)):
                    r0 = tr[key]
                    if r0 is None or not np.all(np.isfinite(r0)):
                        continue
                    dl = rp[:, lo:lo + w]
                    if dl.shape != r0.shape:
                        continue
                    # cheap float pre-filter, exact confirmation
                    y = (r0 - dl) * 10.0 ** prec
                    cand = np.argwhere(np.abs((y - np.floor(y)) - 0.5) < 1e-4)
                    for i, j in cand:
                        if _near_half(Fraction(float(r0[i, j])) - Fraction(float(dl[i, j])), prec):
                            out.add((t, "reb"))
                            break
        orac = st.get("rec_oracle")
        if orac:
            for o in orac:
                if not o:
                    continue
                for key, p in (("d", prec), ("h", prec), ("a", 6)):
                    v = o.get(key)
                    if v is None or not np.all(np.isfinite(v)):
                        continue
                    y = v * 10.0 ** p
                    cand = np.flatnonzero(np.abs((y - np.floor(y)) - 0.5) < 1e-4)
                    if any(_near_half(v[k], p) for k in cand):
                        out.add((t, "rec"))
    # whole-step obligation: the model sums the demand matrix exactly, the implementation in binary64;
    # the overproduction module branches on "scarcity == 0", which the two can decide differently when
    # demand and production agree to the last bit; a ledger tie of the same step propagates as well
    for st in trace["steps"]:
        t = st["t"]
        if (t, "reb") in out or (t, "rec") in out:
            out.add((t, "step"))
        pre = st.get("over_pre")
        if pre is None or pre.get("dem") is None:
            continue
        dem, dtot, prod = pre["dem"], pre["dtot"], pre["prod"]
        if not (np.all(np.isfinite(dem)) and np.all(np.isfinite(prod))):
            continue
        near = np.flatnonzero(np.abs(dtot - prod) <= 1e-12 * np.maximum(np.abs(dtot), 1e-300))
        for f in near:
            exact = sum((Fraction(float(v)) for v in dem[f]), Fraction(0))
            if (exact == Fraction(float(prod[f]))) != (float(dtot[f]) == float(prod[f])):
                out.add((t, "step"))
                break
    return out
