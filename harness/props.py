"""Registry: what each property's decision stands on."""
from __future__ import annotations

import json
import os
from collections import Counter

import numpy as np

from harness import extras as X
from harness import monitors as M

ROOT = os.path.dirname(os.path.dirname(os.path.abspath(__file__)))

BASE_FILES = ["Base/QcLib.v", "Base/Vec.v", "Model/Econ.v", "Model/EconBase.v", "Model/Init.v",
              "Model/Events.v", "Model/Sim.v", "Model/Tracker.v", "Model/Ingest.v", "Spec/Statements.v",
              "Corr/Check.v", "Corr/CheckEv.v", "Corr/CheckInit.v", "Model/Create.v", "Corr/CheckCreate.v", "Corr/CheckStep.v", "Gen/Facts.v"]

COMMON_TRUSTED = [
    "Coq 8.16.1 kernel and its vm_compute evaluator (no native_compute)",
    "hand-written Gallina model coq/Model/*.v (tied to the code by the lock-step correspondence check, not verified against a Python semantics)",
    "correspondence harness: harness/drive.py (bound-method wrappers), exact float->rational conversion harness/cases.py, comparison coq/Corr/Check*.v with relative tolerance 1e-9",
    "translator harness/extract_facts.py (Python ast, fail-closed) producing coq/Gen/Facts.v",
    "pandas/NumPy/pymrio primitives are modelled, not verified; floating-point rounding is not modelled",
]

ECON_OBS = ["cap", "opt", "constraints", "production", "limiting", "stock.crash", "deliver.matrix",
            "stock.update", "deliver.unmet", "deliver.rebuild_prod", "orders", "overprod", "stock.infinite",
            "distribute.pre", "dtot.coherent", "phase.overprod", "phase.alpha_kept"]
STEP_OBS = ["step.outcome", "step.alpha", "step.stock", "step.demand", "step.count", "step.production", "step.unmet", "step.clock",
            "step.status", "step.rid", "step.dmg", "step.hdmg", "step.arb", "step.ledger_i", "step.ledger_h"]
ECON_OBS = ECON_OBS + STEP_OBS
INIT_OBS = ["init.X0", "init.Z0", "init.Y0", "init.tech", "init.zdist", "init.mask", "init.inv_duration",
            "init.restoration", "init.capital", "init.stock", "init.scalars"]
INGEST_OBS = ["ingest.Z", "ingest.Y", "ingest.x", "ingest.capital"]
CREATE_OBS = ["reb.create.reject", "reb.create.indus", "reb.create.house",
              "create.accept", "create.schedule", "create.status", "create.rid", "create.dmg", "create.hdmg", "create.arb",
              "create.ledger_i", "create.ledger_h", "create.dmg0", "create.hdmg0", "create.arb0"]


def _p(files, props, facts=()):
    return dict(coq_files=BASE_FILES + files + props + [f"Gen/Facts{f}.v" for f in facts], props_files=props)


REGISTRY = {
    "C03": dict(**_p(["Proofs/C03Proofs.v"], ["Props/C03.v"], ["Consts"]),
                theorems=["C03_statement_holds"],
                corr=["cap", "opt", "constraints", "production", "limiting", "dtot.coherent", "delta.total", "delta.capital",
                      "init.capital", "init.inv_duration", "init.tech", "init.mask", "init.stock", "init.X0"],
                monitors=[M.mon_c03]),
    "C04": dict(**_p(["Proofs/C04Proofs.v"], ["Props/C04.v"], ["Layout"]),
                theorems=["C04_statement_holds"],
                corr=["deliver.matrix", "deliver.unmet", "deliver.rebuild_prod", "distribute.pre"],
                monitors=[M.mon_c04]),
    "C05": dict(**_p(["Proofs/C05Proofs.v"], ["Props/C05.v"]),
                theorems=["C05_accounting_holds", "C05_crash_holds", "C05_infinite_holds"],
                corr=["stock.update", "stock.crash", "stock.infinite", "deliver.matrix", "production",
                      "init.stock", "init.tech", "init.inv_duration"],
                monitors=[M.mon_c05], extra=X.extra_c05),
    "C06": dict(**_p(["Proofs/C06Proofs.v"], ["Props/C06.v"], ["Divide"]),
                theorems=["C06_statement_holds"],
                corr=["orders", "dtot.coherent", "init.restoration", "init.inv_duration", "init.zdist", "init.Z0", "init.tech", "init.X0"],
                monitors=[M.mon_c06]),
    "C14": dict(**_p(["Proofs/C14Proofs.v"], ["Props/C14.v"], ["Phases"]),
                theorems=["C14_bounds_holds", "C14_rise_holds", "C14_scarcity_holds"],
                corr=["overprod", "dtot.coherent", "init.scalars", "phase.overprod", "phase.alpha_kept"],
                monitors=[M.mon_c14]),
}

EV_FILES = ["Model/Tracker.v", "Model/RecoveryFns.v", "Spec/StatementsEv.v"]
REGISTRY.update({
    "C07": dict(**_p(EV_FILES + ["Proofs/C07Proofs.v"], ["Props/C07.v"], ["Arb"]),
                theorems=["C07_formula_holds", "C07_range_holds", "C07_support_holds", "C07_reject_holds", "C07_perm_holds"],
                corr=["delta.exceeded", "delta.capital", "delta.arbitrary", "delta.total", "cap", "init.capital", "ingest.capital",
                      "create.dmg0", "create.arb0", "create.dmg", "create.arb",
                      "reb.dmg", "rec.dmg", "rec.arb", "step.dmg", "step.arb"],
                monitors=[M.mon_c07]),
    "C08": dict(**_p(EV_FILES + ["Proofs/C08Proofs.v"], ["Props/C08.v"], ["Layout", "Ledger"]),
                theorems=["C08_ledger_cell_holds", "C08_ledger_monotone_holds", "C08_receive_holds", "C08_presented_holds",
                          "C08_creation_holds", "C08_creation_total_holds", "C08_creation_rejects_holds"],
                corr=["reb.blocks", "reb.ledger_i", "reb.ledger_h", "reb.dmg", "reb.hdmg", "reb.status", "deliver.rebuild_prod",
                      "reb.carry"] + CREATE_OBS,
                monitors=[M.mon_c08]),
    "C09": dict(**_p(EV_FILES + ["Proofs/C08Proofs.v", "Proofs/C09Proofs.v"], ["Props/C09.v"], ["Ledger", "Arb", "Consts"]),
                theorems=["C09_recover_holds", "C09_rounding_holds", "C09_linear_shape_holds", "C09_convexe_shape_holds"],
                corr=["rec.status", "rec.dmg", "rec.hdmg", "rec.arb", "sched.status", "delta.total", "create.dmg0", "create.hdmg0", "create.arb0"],
                monitors=[M.mon_c09], extra=X.extra_c09),
    "C10": dict(**_p(EV_FILES + ["Proofs/C10Proofs.v", "Proofs/C10SessionProofs.v", "Spec/StatementsInit.v", "Spec/StatementsLate.v",
                                "Proofs/C16Proofs.v", "Proofs/C10LateRunProofs.v"], ["Props/C10.v"], ["Phases", "Arb"]),
                theorems=["C10_activate_holds", "C10_start_holds", "C10_ledgers_monotone_holds", "C10_step_monotone_holds",
                          "C10_prefix_holds", "C10_session_holds", "C10_late_registration_holds", "C10_late_registration_any_id_refuted",
                          "C10_late_run_holds", "C10_late_creation_holds"],
                corr=["sched.status", "sched.rid", "sched.count", "delta.total", "rec.status", "reb.status",
                      "reg.status", "reg.rid", "reg.dmg", "reg.hdmg", "reg.arb", "reg.ledger_i", "reg.ledger_h", "reg.fresh",
                      "create.accept", "create.schedule", "create.status", "create.rid",
                      "step.outcome", "step.clock", "step.status", "step.rid"],
                monitors=[M.mon_c10], extra=X.extra_c10),
    "C11": dict(**_p(EV_FILES + ["Proofs/C07Proofs.v", "Proofs/C11Proofs.v"], ["Props/C11.v"], ["Layout", "Ctor"]),
                theorems=["C11_ids_activate_holds", "C11_ids_start_holds", "C11_ids_ledgers_holds", "C11_ids_step_holds",
                          "C11_no_internal_error_holds", "C07_perm_holds"],
                corr=["sched.status", "sched.rid", "sched.count", "reb.status", "reb.rid", "reb.count", "reb.blocks", "reb.carry",
                      "reb.ledger_i", "reb.ledger_h", "reb.dmg", "reb.hdmg", "deliver.rebuild_prod",
                      "delta.capital", "delta.arbitrary", "events.error", "rec.oracle"] + CREATE_OBS + STEP_OBS,
                monitors=[M.mon_run_ok("C11"), M.mon_c08_as("C11"), M.mon_c07_as("C11")], extra=X.extra_c11),
})

RUN_FILES = ["Model/InitSim.v", "Spec/StatementsRun.v"]


def _select_eventfree(tr):
    return not tr["scenario"].get("events")


REGISTRY.update({
    "C01": dict(**_p(RUN_FILES + ["Proofs/C01Aux.v", "Proofs/C01Proofs.v"], ["Props/C01.v"], ["Divide", "Phases"]),
                theorems=["C01_step_holds", "C01_run_holds", "C01_zdist_holds"],
                corr=ECON_OBS + INIT_OBS, corr_select=_select_eventfree,
                monitors=[M.mon_c01], select=_select_eventfree, extra=X.extra_c01),
    "C02": dict(**_p(["Spec/ArioSpec.v", "Spec/StatementsSpec.v", "Proofs/C02Proofs.v"], ["Props/C02.v"], ["Phases", "Consts"]),
                theorems=["C02_refines_holds", "C02_orders_holds", "C02_compose_holds"],
                corr=ECON_OBS,
                monitors=[M.mon_c03, M.mon_c04, M.mon_c05, M.mon_c06, M.mon_c14]),
    "C12": dict(**_p(["Model/Ctor.v", "Spec/StatementsIO.v", "Corr/CheckIO.v", "Proofs/C12Proofs.v", "Proofs/C12LblProofs.v"], ["Props/C12.v"]),
                theorems=["C12_total_holds", "C12_proportions_holds", "C12_positive_holds", "C12_product_holds", "C12_reject_holds",
                          "C12_labelled_holds"],
                corr=[], monitors=[], extra=X.extra_c12, no_suite=True),
    "C13": dict(**_p(EV_FILES + ["Spec/StatementsScale.v", "Proofs/C08Proofs.v", "Proofs/C13ScaleProofs.v"], ["Props/C13.v"], ["Ledger"]),
                theorems=["C13_conversion_holds", "C13_scale_cap_holds", "C13_scale_opt_holds", "C13_scale_production_holds",
                          "C13_scale_deliver_holds", "C13_scale_overprod_holds", "C13_scale_stock_holds", "C13_scale_orders_holds"],
                corr=["reb.ledger_i", "reb.ledger_h", "rec.dmg", "rec.hdmg", "reb.dmg", "reb.hdmg"] + CREATE_OBS,
                monitors=[M.mon_c08], extra=X.extra_c13),
    "C15": dict(**_p(["Model/Ingest.v", "Spec/StatementsIO.v", "Proofs/C15Proofs.v"], ["Props/C15.v"]),
                theorems=["C15_canon_holds", "C15_sorted_holds", "C15_canon_mat_rows_holds", "C15_canon_mat_cols_holds"],
                corr=INGEST_OBS + ["init.inv_duration", "init.restoration", "init.capital"], monitors=[], extra=X.extra_c15),
    "C16": dict(**_p(RUN_FILES + ["Proofs/C16Proofs.v"], ["Props/C16.v"], ["Records", "Phases"]),
                theorems=["C16_compose_holds", "C16_prefix_holds", "C16_rows_holds", "C16_length_holds"],
                corr=[], monitors=[], extra=X.extra_c16, no_suite=True),
    "C17": dict(**_p(["Model/Process.v", "Proofs/C17Proofs.v"], ["Props/C17.v"], ["Defaults"]),
                theorems=["C17_paths", "C17_shared_default_refuted"],
                corr=[], monitors=[], extra=X.extra_c17, no_suite=True),
    "C18": dict(**_p(["Proofs/C18Proofs.v"], ["Props/C18.v"], ["Consts"]),
                theorems=["C18_psi1_holds", "C18_alt_noalt_holds"],
                corr=["constraints", "orders", "production", "init.restoration", "init.inv_duration", "init.scalars"], monitors=[], extra=X.extra_c18),
    "C19": dict(**_p(RUN_FILES + ["Spec/StatementsShift.v", "Proofs/C19Aux.v", "Proofs/C19Proofs.v"], ["Props/C19.v"], ["Phases"]),
                theorems=["C19_step_equivariant_holds", "C19_shift_holds"],
                corr=["sched.status", "rec.status", "overprod", "phase.overprod", "phase.alpha_kept"] + STEP_OBS, monitors=[], extra=X.extra_c19),
    "C20": dict(**_p(EV_FILES + RUN_FILES + ["Spec/StatementsWF.v", "Spec/StatementsInit.v", "Proofs/C20Aux.v", "Proofs/C20Proofs.v",
                                          "Proofs/C20InitProofs.v", "Proofs/C10SessionProofs.v", "Proofs/C16Proofs.v",
                                          "Spec/StatementsLate.v", "Proofs/C10LateRunProofs.v", "Proofs/NonVacuity.v"], ["Props/C20.v"], ["Divide"]),
                theorems=["C20_wf_step_holds", "C20_wf_run_holds", "C20_obs_holds", "C20_wf_create_holds", "C20_wf_create_all_holds",
                          "C20_wf_init_holds", "C20_builtin_rf_holds", "C20_accepted_run_holds"],
                corr=ECON_OBS + INIT_OBS + ["delta.total", "reb.ledger_i", "reb.ledger_h", "rec.dmg", "rec.arb"] + CREATE_OBS,
                monitors=[M.mon_finite], extra=X.extra_c20),
})
REGISTRY["C09"]["coq_files"] += ["Model/Ctor.v", "Corr/CheckIO.v"]
REGISTRY["C16"]["coq_files"] += ["Model/Records.v", "Spec/StatementsRec.v", "Proofs/C16RecProofs.v"]
REGISTRY["C16"]["theorems"] += ["C16_recorded_holds", "C16_recorded_length_holds", "C16_recorded_prefix_holds", "C16_run_records_holds"]
REGISTRY["C11"]["coq_files"] += ["Spec/StatementsCarry.v", "Proofs/C11CarryProofs.v"]
REGISTRY["C11"]["theorems"] += ["C11_carry_ids_holds", "C11_carry_blocks_holds"]
REGISTRY["C05"]["coq_files"] += RUN_FILES + ["Proofs/C16Proofs.v"]
REGISTRY["C05"]["theorems"] += ["C05_nonneg_step_holds", "C05_nonneg_run_holds", "C05_stops_holds"]
REGISTRY["C14"]["coq_files"] += EV_FILES + RUN_FILES + ["Spec/StatementsWF.v", "Proofs/C20Aux.v", "Proofs/C20Proofs.v"]
REGISTRY["C14"]["theorems"] += ["C14_invariant_holds"]


def branch_vector(init, st):
    """What regime a recorded step was in (for counting distinct non-trivial cases)."""
    v = []
    try:
        pre = st.get("prod_pre")
        if pre is not None and "prod_post" in st:
            x, dtot, cap = st["prod_post"], pre["dtot"], st["cap"]
            v.append(("short", bool(np.any(st["limiting"]))))
            v.append(("demand-bound", bool(np.any(dtot < cap))))
            v.append(("cap-bound", bool(np.any(cap < dtot))))
            v.append(("rationing", bool(np.any(x < dtot * (1 - 1e-12)))))
            v.append(("alpha>base", bool(np.any(pre["alpha"] > init["a_base"]))))
            v.append(("delta>0", bool(np.any(pre["delta"] > 0))))
        if "dist_pre" in st and "dist_post" in st:
            v.append(("skip-stock-update", bool(np.array_equal(st["dist_pre"]["stock"], st["dist_post"]["stock"]))))
            v.append(("crash", st.get("dist_crash") is not None))
            v.append(("nE", st["dist_pre"]["nE"]))
        v.append(("statuses", tuple(sorted(Counter(t["status"] for t in st.get("ev_post", []) or []).items()))))
    except Exception:  # noqa: BLE001
        pass
    return tuple(v)


def scenario_class(trace):
    from harness import gen
    d = gen.describe(trace["scenario"])
    return (d["sparsity"], d["cls"], d["order"], d["psi"], d["dt"], d["inv_mode"], d["capital"],
            tuple(sorted(e[0] for e in d["events"])))


def evaluate(prop, spec, seed, tier, log):
    from harness import suite
    if spec.get("no_suite"):
        res = {"traces": [], "verdicts": [], "info": [], "key": suite.repo_hash()}
    else:
        res = suite.run_suite(seed, tier, log=log)
    traces = res["traces"]
    scenarios = {t["scenario"]["id"]: t["scenario"] for t in traces}
    obligations = []
    failures = []
    # (b) correspondence
    want = set(spec.get("corr", []))
    by_ob = {}
    from harness import ties as _ties
    tie_cache = {}
    by_id = {t["scenario"]["id"]: t for t in traces}

    def is_tie(tag):
        ob = tag["ob"]
        fam = "reb" if ob.startswith("reb.") and not ob.startswith("reb.blocks") and not ob.startswith("reb.create") else \
              ("rec" if ob.startswith("rec.") else ("step" if ob.startswith("step.") else None))
        if fam is None or tag["scn"] not in by_id:
            return False
        if tag["scn"] not in tie_cache:
            tie_cache[tag["scn"]] = _ties.tie_steps(by_id[tag["scn"]])
        return (tag["t"], fam) in tie_cache[tag["scn"]]
    n_ties = 0
    csel = spec.get("corr_select")
    allowed = None if csel is None else {t["scenario"]["id"] for t in traces if csel(t)}
    for tag, code, detail in res["verdicts"]:
        if allowed is not None and tag["scn"] not in allowed:
            continue
        if tag["ob"] in want:
            by_ob.setdefault(tag["ob"], []).append((tag, code, detail))
    bad_scn = {}
    corr_summary = {}
    for ob in sorted(want):
        vs = by_ob.get(ob, [])
        bad0 = [(t, c, d) for t, c, d in vs if c != 0]
        bad = [(t, c, d) for t, c, d in bad0 if not (c in (1, 2, 3) and is_tie(t))]
        n_ties += len(bad0) - len(bad)
        corr_summary[ob] = dict(cases=len(vs), disagreements=len(bad), rounding_ties=len(bad0) - len(bad))
        name = f"corr:{ob}"
        if bad:
            bad_scn[name] = {t["scn"] for t, _, _ in bad}
            detail = "; ".join(f"{t['scn']}@t={t['t']}:{suite_code(c)}" for t, c, _ in bad[:5])
            if any(c == 9 for _, c, _ in bad):
                detail += " | " + [d for _, c, d in bad if c == 9][0][-300:]
            obligations.append((name, False, f"{len(bad)}/{len(vs)} cases disagree: {detail}"))
        else:
            obligations.append((name, True, f"{len(vs)} cases agree"))
    # (c) monitors
    sel = spec.get("select")
    n_traces = 0
    for tr in traces:
        if sel is not None and not sel(tr):
            continue
        n_traces += 1
        for mon in spec.get("monitors", []):
            try:
                failures.extend(mon(tr))
            except Exception as e:  # noqa: BLE001
                failures.append(dict(property=prop, scn=tr["scenario"]["id"], t=None,
                                     what=f"monitor {mon.__name__} raised {type(e).__name__}: {e}", sig="monitor-error"))
    # property-specific differential runs
    extra_eval = 0
    extra_samples = []
    if spec.get("extra"):
        ex = spec["extra"](seed, tier, log)
        failures.extend(ex["failures"])
        for name, okx, detail in ex.get("obligations", []):
            obligations.append((name, okx, detail))
        extra_eval = ex.get("evaluations", 0)
        extra_samples = ex.get("samples", [])
        scenarios.update(ex.get("scenarios", {}))
    # coverage accounting
    classes = set()
    steps = 0
    for tr, info in zip(traces, res["info"]):
        if tr["init"] is None:
            continue
        sc = scenario_class(tr)
        checked = set(info["steps_checked"])
        for st in tr["steps"]:
            if st["t"] in checked:
                steps += 1
                classes.add((sc, branch_vector(tr["init"], st)))
    evaluations = sum(v["cases"] for v in corr_summary.values()) + extra_eval
    from harness import gen
    dist = Counter()
    for tr in traces:
        d = gen.describe(tr["scenario"])
        for k in ("sparsity", "cls", "order", "dt", "inv_mode", "capital"):
            dist[f"{k}={d[k]}"] += 1
        dist[f"events={len(d['events'])}"] += 1
        dist["run-raised" if tr.get("error") else ("crashed" if tr.get("crashed") else "completed")] += 1
    samples = []
    for tr in traces[:3]:
        samples.append(dict(scenario=gen.describe(tr["scenario"]), steps_run=len(tr["steps"]),
                            error=(tr.get("error") or {}).get("root_msg")))
    samples.extend(extra_samples[:3])

    def explains(name, fls):
        scn = bad_scn.get(name, set())
        return bool(scn) and scn <= {f.get("scn") for f in fls}

    return dict(obligations=obligations, failures=failures, scenarios=scenarios,
                evaluations=max(1, evaluations), distinct_nontrivial=len(classes) + extra_eval,
                rule="cases = (phase, recorded step) pairs of generated scenarios evaluated by the Coq model; "
                     "distinct_nontrivial = number of distinct (scenario class, regime vector) pairs among the checked steps "
                     "(regime: shortage / demand- or capacity-bound / rationing / overproduction active / capacity loss / "
                     "stock update skipped / crash / number of rebuilding events / tracker statuses) plus property-specific differential runs",
                samples=samples, traces=n_traces, corr_summary=corr_summary, distribution=dict(dist),
                explains=explains, repo_hash=res["key"][:16])


def suite_code(c):
    from harness import cases
    return cases.VERDICT.get(c, str(c))


def replay(prop, spec, path):
    """Re-run the scenario of a replay file against /repo's current tree and re-evaluate the monitors."""
    from harness import drive
    with open(path) as f:
        payload = json.load(f)
    print(json.dumps({k: payload[k] for k in payload if k != "scenario"}, indent=1)[:3000])
    scn = payload.get("scenario")
    if not scn:
        print("replay names a broken obligation; no concrete input recorded")
        return 1
    tr = drive.run(scn)
    fails = []
    for mon in spec.get("monitors", []):
        fails.extend(mon(tr))
    if tr.get("error"):
        print("run raised:", tr["error"]["root_class"], tr["error"]["root_msg"])
    for fl in fails[:10]:
        print("FAIL", json.dumps(fl, default=str))
    if fails:
        print(f"VIOLATION property={prop} replay={path}")
        return 1
    print("no failure on the current tree")
    return 0
