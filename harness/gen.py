"""Scenario generator.  Every choice derives from one random.Random(seed).

Profiles select the part of the input space a property's theorem talks about;
the generator prints the distribution it produced into the evidence.
"""
from __future__ import annotations

import itertools
import math
import random

REGION_NAMES = ["R1", "R10", "R2", "ab", "Ab", "zz", "a_b"]
SECTOR_NAMES = ["s1", "s10", "s2", "agri", "Manu", "serv", "x"]
CAT_NAMES = ["Final consumption expenditure by households", "gov", "Zcat"]


def _logu(rng, lo, hi):
    return math.exp(rng.uniform(math.log(lo), math.log(hi)))


def gen_table(rng, nR, nS, nC, sparsity="dense", scale=None, shuffle=False):
    regions = rng.sample(REGION_NAMES, nR)
    sectors = rng.sample(SECTOR_NAMES, nS)
    cats = rng.sample(CAT_NAMES, nC)
    inds = [(r, s) for r in sorted(regions) for s in sorted(sectors)]
    fds = [(r, c) for r in sorted(regions) for c in sorted(cats)]
    N, F = len(inds), len(fds)
    if scale is None:
        scale = _logu(rng, 1e-1, 1e7)
    spread = rng.choice([3.0, 30.0, 1000.0])
    Z = [[_logu(rng, 1.0, spread) for _ in range(N)] for _ in range(N)]
    Yw = [[_logu(rng, 1.0, spread) for _ in range(F)] for _ in range(N)]
    zero_out = None
    info = {"sparsity": sparsity}
    if sparsity == "random_zeros":
        p = rng.uniform(0.1, 0.5)
        for i in range(N):
            for j in range(N):
                if rng.random() < p:
                    Z[i][j] = 0.0
    elif sparsity == "unused_input":
        f = rng.randrange(N)
        p = rng.randrange(nS)
        for r in range(nR):
            Z[r * nS + p][f] = 0.0
        info["unused"] = [p, f]
    elif sparsity == "tiny_input":
        # flows so small that the input is not a "real" input (Z_C <= X_0 * 1e-5 per step), yet not zero
        f = rng.randrange(N)
        p = rng.randrange(nS)
        for r in range(nR):
            Z[r * nS + p][f] = _logu(rng, 1e-12, 1e-10)
        info["tiny"] = [p, f]
    elif sparsity == "zero_output":
        zero_out = rng.randrange(N)
        for j in range(N):
            Z[zero_out][j] = 0.0
            Z[j][zero_out] = 0.0
        info["zero_output"] = zero_out
    elif sparsity == "no_intermediate_sales":
        p = rng.randrange(nS)
        for r in range(nR):
            for j in range(N):
                Z[r * nS + p][j] = 0.0
        info["no_sales"] = p
    elif sparsity == "partial_final":
        for i in range(N):
            for c in range(F):
                if rng.random() < 0.4:
                    Yw[i][c] = 0.0
        for i in range(N):
            if not any(Yw[i]):
                Yw[i][rng.randrange(F)] = 1.0
    # balance: x_j = rowsum Z + rowsum Y >= colsum Z * (1 + va)
    col = [sum(Z[i][j] for i in range(N)) for j in range(N)]
    row = [sum(Z[j]) for j in range(N)]
    Y = [[0.0] * F for _ in range(N)]
    for j in range(N):
        if j == zero_out:
            continue
        va = rng.uniform(0.05, 1.5)
        ysum = max(col[j] * (1 + va) - row[j], rng.uniform(0.2, 2.0) * (row[j] + 1.0))
        w = Yw[j]
        sw = sum(w)
        for c in range(F):
            Y[j][c] = ysum * w[c] / sw
    Z = [[v * scale for v in r_] for r_ in Z]
    Y = [[v * scale for v in r_] for r_ in Y]
    rows, cols, ycols = list(range(N)), list(range(N)), list(range(F))
    if shuffle:
        # the same permutation on rows and columns (pymrio.calc_A pairs x with the
        # columns positionally, so a table with differently ordered axes is not a
        # valid pymrio system in the first place)
        rng.shuffle(rows)
        cols = list(rows)
        rng.shuffle(ycols)
    import math as _m
    xcanon = [_m.fsum(Z[i]) + _m.fsum(Y[i]) for i in range(N)]   # gross output: part of the input data
    t = dict(
        x=[xcanon[i] for i in rows],
        regions=sorted(regions), sectors=sorted(sectors), fdcats=sorted(cats),
        row_labels=[list(inds[i]) for i in rows], col_labels=[list(inds[j]) for j in cols],
        ycol_labels=[list(fds[c]) for c in ycols],
        Z=[[Z[i][j] for j in cols] for i in rows],
        Y=[[Y[i][c] for c in ycols] for i in rows],
        info=info,
    )
    return t


def table_sorted(t):
    """Z, Y in lexicographic order + helper vectors (yearly units)."""
    inds = [(r, s) for r in t["regions"] for s in t["sectors"]]
    fds = [(r, c) for r in t["regions"] for c in t["fdcats"]]
    ri = {tuple(l): k for k, l in enumerate(t["row_labels"])}
    ci = {tuple(l): k for k, l in enumerate(t["col_labels"])}
    yi = {tuple(l): k for k, l in enumerate(t["ycol_labels"])}
    Z = [[t["Z"][ri[a]][ci[b]] for b in inds] for a in inds]
    Y = [[t["Y"][ri[a]][yi[b]] for b in fds] for a in inds]
    x = [t["x"][ri[a]] for a in inds] if t.get("x") is not None else [sum(Z[i]) + sum(Y[i]) for i in range(len(inds))]
    col = [sum(Z[i][j] for i in range(len(inds))) for j in range(len(inds))]
    va = [max(0.0, x[j] - col[j]) for j in range(len(inds))]
    return inds, fds, Z, Y, x, va


def gen_model(rng, t, profile):
    sectors = t["sectors"]
    m = {}
    m["class"] = profile.get("class") or rng.choice(["psi", "psi", "base"])
    m["order_type"] = profile.get("order_type") or rng.choice(["alt", "noalt"])
    m["alpha_max"] = rng.choice(profile.get("alpha_max_choices") or [1.0, 1.25, 1.1, 2.0])
    m["alpha_base"] = 1.0 if rng.random() < 0.7 else round(rng.uniform(1.0, m["alpha_max"]), 3)
    if profile.get("alpha_base_one"):
        m["alpha_base"] = 1.0
    m["alpha_tau"] = rng.choice(profile.get("alpha_tau_choices") or [1, 30, 365])
    m["dt"] = profile.get("dt") or rng.choice(profile.get("dt_choices") or [1, 1, 1, 2, 7])
    if m["alpha_tau"] < m["dt"] and rng.random() < 0.5:
        m["alpha_tau"] = m["dt"]        # otherwise: a step longer than the characteristic time (rate > 1)
    m["rebuild_tau"] = rng.choice([10, 60, 365])
    m["year_factor"] = rng.choice([365, 365, 365, 52, 12])      # temporal units per year of the table (accepted with a warning)
    m["monetary_factor"] = rng.choice([1, 10**3, 10**6])
    inv_mode = profile.get("inv_mode") or rng.choice(["default", "short", "dict", "inf_list", "inf_dict", "le_dt", "dict_inf_list"])
    m["main_inv_dur"] = rng.choice([90, 30, 10])
    if inv_mode == "short":
        m["main_inv_dur"] = rng.choice([2, 3, 5]) * m["dt"]
    elif inv_mode == "dict":
        items = [[s, rng.choice([3, 7, 30, 90, 120]) * m["dt"]] for s in sectors]
        rng.shuffle(items)
        m["inventory_dict"] = items
    elif inv_mode == "inf_list":
        m["infinite_inventories_sect"] = rng.sample(sectors, rng.randint(1, max(1, len(sectors) - 1)))
    elif inv_mode == "inf_dict":
        items = [[s, rng.choice([5, 30, 90]) * m["dt"]] for s in sectors]
        items[rng.randrange(len(items))][1] = rng.choice(["inf", "Infinity"])
        rng.shuffle(items)
        m["inventory_dict"] = items
    elif inv_mode == "dict_inf_list":
        # a full dictionary of durations AND a list of inputs declared infinite that names some of its keys
        items = [[s, rng.choice([5, 30, 90]) * m["dt"]] for s in sectors]
        rng.shuffle(items)
        m["inventory_dict"] = items
        m["infinite_inventories_sect"] = rng.sample(sectors, rng.randint(1, max(1, len(sectors) - 1)))
    elif inv_mode == "le_dt":
        items = [[s, rng.choice([30, 90]) * m["dt"]] for s in sectors]
        items[rng.randrange(len(items))][1] = m["dt"]
        m["inventory_dict"] = items
    m["inv_mode"] = inv_mode
    if m["class"] == "psi":
        m["psi"] = profile.get("psi") or rng.choice([0.1, 0.5, 0.8, 0.8, 1.0])
        m["psi_form"] = rng.choice(["float", "float", "str_dot", "str_us", "int"])
        if rng.random() < 0.6:
            m["inventory_restoration_tau"] = rng.choice([1, 10, 60]) * m["dt"]
        else:
            items = [[s, rng.choice([1, 5, 60]) * m["dt"]] for s in sectors]
            rng.shuffle(items)
            m["inventory_restoration_tau"] = items
    return m


def gen_capital(rng, t, profile):
    kind = profile.get("capital") or rng.choice(profile.get("capital_choices") or ["default", "default", "ratio_dict", "ndarray", "series", "df_col", "df_row", "list"])
    if kind == "default":
        return None, None
    inds, fds, Z, Y, x, va = table_sorted(t)
    zero_cap = profile.get("zero_capital") and rng.random() < 0.7
    if kind == "ratio_dict":
        items = [[s, rng.choice([1.0, 2.5, 4.0, 6.0])] for s in t["sectors"]]
        if zero_cap:
            items[rng.randrange(len(items))][1] = 0.0       # a sector declared to own no capital
        ratio = {s: v for s, v in items}
        rng.shuffle(items)
        K = [va[k] * ratio[inds[k][1]] for k in range(len(inds))]
        return {"kind": "ratio_dict", "dict_items": items}, K
    K = [max(va[k], 0.05 * x[k]) * rng.uniform(1.0, 6.0) for k in range(len(inds))]
    if zero_cap:
        for k in rng.sample(range(len(inds)), rng.randint(1, 2)):
            K[k] = 0.0                                       # industries owning no capital
    order = list(range(len(inds)))
    if kind in ("series", "df_col", "df_row") and (profile.get("shuffle_capital") or rng.random() < 0.5):
        rng.shuffle(order)
    cap = {"kind": kind, "labels": [list(inds[k]) for k in order], "values": [K[k] for k in order]}
    return cap, K


def _impact_pairs(rng, inds, K, conv, nmax=3, frac_hi=0.6, frac_lo=0.02, overkill=0.0, scale=1.0):
    n = rng.randint(1, min(nmax, len(inds)))
    cand = [k for k in range(len(inds)) if K[k] > 0]
    ks = rng.sample(cand, min(n, len(cand)))
    pairs = []
    for k in sorted(ks):
        frac = _logu(rng, frac_lo, frac_hi) if frac_lo < 0.01 else rng.uniform(frac_lo, frac_hi)
        pairs.append([list(inds[k]), K[k] * frac * conv])
    if (overkill and rng.random() < overkill) or not pairs:
        # malformed stream: more capital destroyed than the industry owns (must be rejected when
        # the event occurs); industries owning no capital at all preferred when there are some
        zeros = [k for k in range(len(inds)) if K[k] <= 0]
        k = rng.choice(zeros) if zeros and rng.random() < 0.7 else rng.randrange(len(inds))
        amount = K[k] * 3 * rng.uniform(1.02, 2.5) if K[k] > 0 else scale * _logu(rng, 1e-6, 1e-1)
        pairs = [p for p in pairs if p[0] != list(inds[k])] + [[list(inds[k]), amount * conv]]
        pairs.sort(key=lambda p: p[0])
    return pairs


def gen_event(rng, t, m, K, horizon, kind=None, profile=None):
    profile = profile or {}
    inds, fds, Z, Y, x, va = table_sorted(t)
    kind = kind or rng.choice(["rebuild", "recovery", "arbitrary"])
    dt = m["dt"]
    e = {"type": kind}
    # schedule: occ in [1, horizon-1], occ+dur <= horizon ; multiples of dt so events land on steps
    occ = rng.randint(1, max(1, (horizon - 2) // dt // 2)) * dt if dt > 1 else rng.randint(1, max(1, horizon // 2))
    occ = max(1, min(occ, horizon - 1))
    dur = rng.randint(1, max(1, min(6, horizon - occ)))
    if dt > 1 and not profile.get("on_grid"):
        u = rng.random()
        if u < 0.15:
            occ, dur = 1, 1                     # the documented default timing, whatever the step length
        elif u < 0.45:
            # occurrences and durations off the step grid
            occ = rng.randint(1, max(1, horizon // 2))
            dur = rng.randint(1, max(1, min(3 * dt, horizon - occ)))
    if profile.get("occ_max"):
        occ = rng.randint(1, min(profile["occ_max"], horizon - 1))
    if profile.get("rec_dur"):
        dur = rng.randint(profile["rec_dur"][0], max(profile["rec_dur"][0], min(profile["rec_dur"][1], horizon - occ)))
    e["occ"], e["dur"] = occ, dur
    u = rng.random()
    if u < 0.12 and occ > 1:
        e["redate"] = rng.randint(1, occ - 1)        # built earlier, moved later with the occurrence setter
    elif u < 0.2:
        e["relength"] = rng.randint(1, 3)             # built longer, shortened with the duration setter
    if kind in ("rebuild", "recovery"):
        mu = m["monetary_factor"]
        emf = rng.choice([None, None, 1, 10**3, 10**6]) if not profile.get("emf_same") else mu
        eff = 1 if emf is None else emf
        e["emf"] = emf
        conv = mu / eff  # event units per model unit
        e["impact"] = _impact_pairs(rng, inds, K, conv, frac_hi=profile.get("frac_hi", 0.5), frac_lo=profile.get("frac_lo", 0.02),
                                    overkill=profile.get("overkill", 0.0), scale=max(x))
        if rng.random() < profile.get("p_house", 0.4):
            hh = rng.sample(fds, rng.randint(1, min(2, len(fds))))
            tot = sum(v for _, v in e["impact"])
            lo_h, hi_h = profile.get("house_mult") or (0.1, 0.8)
            if profile.get("house_mult_alt") and rng.random() < 0.7:
                lo_h, hi_h = profile["house_mult_alt"]
            e["households"] = [[list(h), tot * rng.uniform(lo_h, hi_h)] for h in sorted(hh)]
    if kind in ("rebuild", "recovery") and rng.random() < profile.get("p_scalar_ctor", 0.2) and len(e["impact"]) >= 1:
        # the same impact handed over through the scalar constructor (total + affected industries + weights)
        vals = [v for _, v in e["impact"]]
        tot = math.fsum(vals)
        e["ctor"] = "scalar_industries"
        e["scalar"] = tot
        e["industries"] = [lab for lab, _ in e["impact"]]
        if rng.random() < 0.5 and len(vals) > 1:
            e["distrib"] = [[lab, v] for lab, v in e["impact"]]
            sw = sum(vals)
            e["impact"] = [[lab, tot * (v / sw)] for lab, v in e["impact"]]
        else:
            e["distrib"] = "equal"
            e["impact"] = [[lab, tot / len(vals)] for lab, _ in e["impact"]]
    if kind == "rebuild":
        e["tau"] = rng.choice(profile.get("reb_tau") or [dt * 5, dt * 20, 60, 365, max(1, dt - 2), max(1, dt // 2)])
        if profile.get("reb_tau_rel"):
            a_, b_ = rng.choice(profile["reb_tau_rel"])
            e["tau"] = max(1, dt * a_ // b_)
        ns = rng.randint(1, min(3, len(t["sectors"])))
        secs = rng.sample(t["sectors"], ns)
        if ns == 1:
            shares = [1.0]
        else:
            raw = [rng.randint(1, 9) for _ in secs]
            shares = [v / sum(raw) for v in raw]
            shares[-1] = 1.0 - sum(shares[:-1])
        e["rebuilding_sectors"] = [[s, sh] for s, sh in zip(secs, shares)]
        e["rs_kind"] = rng.choice(["dict", "series"])
        e["factor"] = rng.choice([1.0, 1.0, 0.5, 1.7])
    elif kind == "recovery":
        e["tau"] = rng.choice(profile.get("rec_tau") or [1, 3, 10, 40])
        e["recovery_function"] = rng.choice(["linear", "convexe", "convexe noscale", "concave", "user", "user_fixed"])
    else:
        n = rng.randint(1, min(3, len(inds)))
        ks = sorted(rng.sample(range(len(inds)), n))
        tiny = t["info"].get("tiny")
        p_hit = profile.get("hit_tiny_suppliers")
        if tiny is not None and p_hit and rng.random() < (0.8 if p_hit is True else float(p_hit)):
            # hit every producer of the product that some industry uses only marginally
            nS_ = len(t["sectors"])
            ks = [k_ for k_ in range(len(inds)) if k_ % nS_ == tiny[0]]
        lo_, hi_ = profile.get("arb_hi") or (0.05, 0.9)
        e["impact"] = [[list(inds[k]), round(rng.uniform(lo_, hi_), 3)] for k in ks]
        e["tau"] = rng.choice(profile.get("rec_tau") or [1, 3, 10])
        e["recovery_function"] = rng.choice(["linear", "convexe", "convexe noscale", "concave", "user", "user_fixed"])
    return e


def default_K(t, ratio=4.0):
    inds, fds, Z, Y, x, va = table_sorted(t)
    return [v * ratio for v in va]


PROFILES = {
    # event-free equilibrium runs over the whole table / parameter grid
    "equilibrium": dict(events=0, horizon=(8, 25), sparsity=None),
    # mixed event histories (default for step-refinement style properties)
    "mixed": dict(events=(0, 4), horizon=(10, 25)),
    "rebuild": dict(events=(1, 3), kinds=["rebuild"], horizon=(12, 25), p_house=0.6),
    "recover": dict(events=(1, 3), kinds=["recovery", "arbitrary"], horizon=(10, 25)),
    # small, quickly rebuilt damages: events finish while others are still rebuilding / start later
    "rebuild_finish": dict(events=(2, 4), kinds=["rebuild", "rebuild", "rebuild", "recovery"], horizon=(30, 60),
                           p_house=0.8, reb_tau=[1, 2, 3], frac_lo=2e-6, frac_hi=2e-3, dt=1, emf_same=False,
                           house_mult_alt=(3.0, 30.0)),
    # strong, quickly recovered shocks followed by a long tail: capacity is back (no capacity
    # loss) while overproduction factors are still uneven
    "aftermath": dict(events=(1, 2), kinds=["recovery", "arbitrary", "recovery"], horizon=(25, 40),
                      frac_hi=0.9, rec_tau=[1, 2, 3], rec_dur=(1, 3), occ_max=4, dt=1,
                      alpha_tau_choices=[1, 5, 30], alpha_max_choices=[1.25, 2.0], alpha_base_one=True,
                      psi_choices=[0.5, 0.8, 1.0]),
    # inventories far below one step of use at the shortage threshold (psi * s < 1) and a long,
    # deep supply shock: stocks are exhausted, possibly without any industry being "in shortage"
    "exhaust": dict(events=(1, 2), kinds=["arbitrary", "recovery"], horizon=(20, 35), inv_mode="short",
                    psi_choices=[0.05, 0.1, 0.3], frac_hi=0.95, arb_hi=(0.7, 0.97), rec_tau=[20, 40], rec_dur=(3, 8),
                    occ_max=3, dt=1, sparsity_choices=["dense", "tiny_input", "tiny_input", "partial_final"], hit_tiny_suppliers=True,
                    **{"class": "psi"}),
    # an input used only marginally (below the technology threshold) whose producers are hit hard:
    # its inventory runs out although it never constrains production
    "nonreal": dict(events=(1, 2), kinds=["arbitrary", "arbitrary", "recovery"], horizon=(20, 35), inv_mode="short",
                    psi_choices=[0.3, 0.5, 0.8, 1.0], frac_hi=0.9, arb_hi=(0.6, 0.97), rec_tau=[20, 40], rec_dur=(4, 10),
                    occ_max=3, dt=1, sparsity="tiny_input", hit_tiny_suppliers=1.0),
    # reconstruction faster than a step (rebuilding time below the step length): the demand presented
    # in one step exceeds what remains, deliveries overshoot, the books must stay at zero
    "fast_rebuild": dict(events=(1, 2), kinds=["rebuild"], horizon=(10, 20), p_house=0.9, dt_choices=[2, 7, 7],
                         reb_tau_rel=[(1, 3), (1, 2), (2, 3), (1, 1)], frac_lo=1e-4, frac_hi=5e-2, house_mult=(0.5, 4.0),
                         occ_max=9, alpha_max_choices=[1.25, 2.0], sparsity_choices=["dense", "dense", "partial_final", "random_zeros"]),
    # relays: an event occurring exactly when (or one or two steps after) another one has just finished
    "relay": dict(events=2, kinds=["recovery"], horizon=(20, 30), relay=True, rec_tau=[1, 2, 3, 4], rec_dur=(1, 3), occ_max=4,
                  frac_hi=0.5),
    # capital specifications with industries owning nothing, and events destroying more than is owned
    "overkill": dict(events=(1, 3), kinds=["rebuild", "recovery", "recovery"], horizon=(10, 20), overkill=0.6, zero_capital=True,
                     sparsity_choices=["dense", "zero_output", "zero_output", "random_zeros", "partial_final"],
                     capital_choices=["default", "ratio_dict", "ndarray", "series", "df_col", "list"]),
    "shortage": dict(events=(1, 2), kinds=["recovery", "arbitrary", "rebuild"], horizon=(15, 30),
                     inv_mode="short", psi_choices=[0.1, 0.5], frac_hi=0.9,
                     sparsity_choices=["dense", "tiny_input", "random_zeros", "tiny_input", "partial_final"], hit_tiny_suppliers=True),
}

SPARSITIES = ["dense", "dense", "random_zeros", "unused_input", "zero_output", "no_intermediate_sales", "partial_final", "tiny_input"]


def gen_scenario(seed, profile_name="mixed", overrides=None):
    rng = random.Random(seed)
    prof = dict(PROFILES[profile_name])
    if overrides:
        prof.update(overrides)
    nR = prof.get("nR") or rng.choice([1, 2, 2, 3])
    nS = prof.get("nS") or rng.choice([2, 2, 3, 4])
    if nR * nS > 9:
        nS = 3
    nC = prof.get("nC") or rng.choice([1, 1, 2])
    sparsity = prof.get("sparsity") or rng.choice(prof.get("sparsity_choices") or SPARSITIES)
    t = gen_table(rng, nR, nS, nC, sparsity=sparsity, shuffle=(rng.random() < 0.5 or bool(prof.get("shuffle"))))
    if prof.get("psi_choices"):
        prof["psi"] = rng.choice(prof["psi_choices"])
    m = gen_model(rng, t, prof)
    cap, K = gen_capital(rng, t, prof)
    if cap is not None:
        m["capital"] = cap
    if K is None:
        K = default_K(t)
    lo, hi = prof.get("horizon", (10, 25))
    steps = rng.randint(lo, hi)
    n = steps * m["dt"]
    ev_spec = prof.get("events", 0)
    ne = ev_spec if isinstance(ev_spec, int) else rng.randint(*ev_spec)
    events = []
    # keep the summed capital damage of simultaneous events below K
    Kleft = list(K)
    for k in range(ne):
        kind = rng.choice(prof.get("kinds") or ["rebuild", "recovery", "arbitrary"])
        e = gen_event(rng, t, m, [v / max(1, ne) for v in Kleft], n, kind=kind, profile=prof)
        e["name"] = f"ev{k}"
        events.append(e)
    if prof.get("relay") and len(events) == 2:
        a, b = events
        a["recovery_function"] = "linear"            # gone exactly tau temporal units after recovery starts
        dt_ = m["dt"]
        fin = a["occ"] + a["dur"] + a["tau"]
        fin_step = -(-fin // dt_) * dt_               # the step at which the first event is found finished
        b["occ"] = min(n - 2, fin_step + rng.choice([-dt_, 0, 0, dt_, dt_, 2 * dt_]))
        b["occ"] = max(1, b["occ"])
        b["dur"] = max(1, min(b["dur"], n - b["occ"]))
        b.pop("redate", None)
    scn = dict(
        id=f"{profile_name}-{seed}", seed=seed, profile=profile_name, table=t, model=m,
        sim=dict(n=n, register_stocks=bool(prof.get("register_stocks", rng.random() < 0.3))), events=events,
    )
    rng2 = random.Random(f"late-{seed}")        # separate stream: the scenarios drawn before are unchanged
    if events and rng2.random() < prof.get("p_late", 0.25):
        late = late_registration(rng2, events, m["dt"])
        if late:
            scn["sim"]["late"] = late
    elif events and rng2.random() < prof.get("p_reuse", 0.25):
        scn["sim"]["reuse"] = True       # Event objects that already served in another simulation
    return scn


def late_registration(rng, events, dt, first=None):
    """Register the tail of the event list while the simulation is running, before any of them occurs."""
    if first is None:
        # prefer a split where some event registered from the start is already under way when the
        # others are added
        cands = list(range(len(events)))
        rng.shuffle(cands)
        first = cands[0]
        for c in cands:
            if c > 0 and min(e["occ"] for e in events[c:]) - 1 >= min(e["occ"] for e in events[:c]) + dt:
                first = c
                break
    kmax = (min(e["occ"] for e in events[first:]) - 1) // dt
    if kmax < 0:
        return None
    k = kmax if rng.random() < 0.7 else rng.randint(min(1, kmax), kmax)
    return dict(first=first, k=k, api=rng.choice(["add_events", "add_events", "add_event"]))


def describe(scn):
    t, m = scn["table"], scn["model"]
    return dict(
        id=scn["id"], nR=len(t["regions"]), nS=len(t["sectors"]), nC=len(t["fdcats"]),
        sparsity=t["info"]["sparsity"], cls=m["class"], order=m["order_type"], psi=m.get("psi"),
        dt=m["dt"], inv_mode=m.get("inv_mode"), alpha=(m["alpha_base"], m["alpha_max"], m["alpha_tau"]),
        capital=(m.get("capital") or {}).get("kind", "default"), n=scn["sim"]["n"],
        events=[(e["type"], e["occ"], e["dur"], e.get("tau"), e.get("recovery_function"),
                 len(e.get("rebuilding_sectors", [])), bool(e.get("households"))) for e in scn["events"]],
        late=scn["sim"].get("late"), reuse=bool(scn["sim"].get("reuse")),
    )
