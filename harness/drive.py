"""Run the real implementation on a scenario and record what it did.

The driver wraps, *in this process only*, the bound methods that make up a step
(`_check_happening_events`, `calc_overproduction`, `calc_production`,
`distribute_production`, `rebuild_events`, `recover_events`, `calc_orders`) with
snapshotting wrappers, and then calls the real `Simulation.next_step()`; pre- and
post-states are therefore captured inside the real composition.
"""
from __future__ import annotations

import copy
import logging
import shutil
import tempfile
import traceback

import numpy as np

from harness import scen
from harness.scen import boario


def _arr(x):
    if x is None:
        return None
    return np.array(x, dtype=float, copy=True)


def snap_econ(m):
    d = dict(
        alpha=_arr(m.overprod),
        stock=_arr(m.inputs_stock),
        dem=_arr(m._entire_demand),
        dtot=_arr(m._entire_demand_tot),
        prod=_arr(m.production),
        delta=_arr(getattr(m, "_prod_cap_delta_tot", None)),
        klost=_arr(m._productive_capital_lost),
        arb=_arr(m._prod_cap_delta_arbitrary),
        nE=int(m._n_rebuilding_events),
        unmet=_arr(m.final_demand_not_met),
        rprod=_arr(m._rebuild_prod),
    )
    return d


def _kind(ev):
    from boario import event as bev
    if isinstance(ev, bev.EventKapitalRebuild):
        return "rebuild"
    if isinstance(ev, bev.EventKapitalRecover):
        return "recovery"
    if isinstance(ev, bev.EventArbitraryProd):
        return "arbitrary"
    return "other"


def snap_tracker(tr):
    def df(x):
        return None if x is None else np.array(x.values, dtype=float, copy=True)

    ev = tr.event
    kind = _kind(ev)
    d = dict(
        kind=kind, occ=int(ev.occurrence), dur=int(ev.duration),
        status=tr._status,
        rid=tr._rebuild_id,
        dmg=df(tr._indus_dmg),
        hdmg=df(tr._house_dmg),
        arb=df(tr._prod_delta_from_arb),
        rem_i=df(tr._distributed_reb_dem_indus),
        rem_h=df(tr._distributed_reb_dem_house),
        dmg0=df(tr._indus_dmg_0), hdmg0=df(tr._house_dmg_0), arb0=df(tr._prod_delta_from_arb_0),
    )
    if kind == "rebuild":
        d["tau"] = ev.rebuild_tau if ev.rebuild_tau else tr.sim.model.rebuild_tau
        d["phi"] = float(ev.rebuilding_factor)
    return d


def oracle_recovery(tr, t):
    """What the event's *declared* recovery callable gives at this step for each book: the callable
    the user passed (or the built-in the name stands for) evaluated on the initial damage of the
    book, independently of how the tracker wires it."""
    ev = tr.event
    e = t - (ev.occurrence + ev.duration)
    out = {"e": int(e)}
    try:
        f = getattr(ev, "recovery_function", None)
        tau = getattr(ev, "recovery_tau", None)
        if f is None:
            return out
        if tr._indus_dmg_0 is not None and _kind(ev) == "recovery":
            out["d"] = np.array(f(e, init_impact_stock=tr._indus_dmg_0.copy(), recovery_tau=tau), dtype=float)
        if tr._house_dmg_0 is not None and _kind(ev) == "recovery":
            out["h"] = np.array(f(e, init_impact_stock=tr._house_dmg_0.copy(), recovery_tau=tau), dtype=float)
        if tr._prod_delta_from_arb_0 is not None and _kind(ev) == "arbitrary":
            out["a"] = np.array(f(e, init_impact_stock=tr._prod_delta_from_arb_0.copy(), recovery_tau=tau), dtype=float)
    except Exception as ex:  # noqa: BLE001
        out["error"] = repr(ex)
    return out


def snap_trackers(sim):
    return [snap_tracker(tr) for tr in sim._event_tracking]


def snap_init(m):
    d = dict(
        nR=int(m.n_regions), nS=int(m.n_sectors), nC=int(m.n_fd_cat),
        regions=[str(x) for x in m.regions], sectors=[str(x) for x in m.sectors],
        fdcats=[str(x) for x in m.final_demand_cat],
        X0=_arr(m.X_0), Z0=_arr(m.Z_0), Y0=_arr(m.Y_0), tech=_arr(m.tech_mat),
        Z_distrib=_arr(m.Z_distrib), mask=np.array(m.threshold_not_input, dtype=bool, copy=True),
        inv_duration=_arr(m.inv_duration), K=_arr(np.asarray(m.productive_capital).flatten()),
        VA0=_arr(m.VA_0),
        psi=float(getattr(m, "psi", 1.0)),
        rho=_arr(getattr(m, "restoration_tau", np.ones(m.n_sectors))),
        is_psi=hasattr(m, "psi"),
        alt=(m.order_type == "alt"), order_type=m.order_type,
        a_base=float(m.overprod_base), a_max=float(m.overprod_max), a_rate=float(m.overprod_tau),
        dt=m.n_temporal_units_by_step, mu=m.monetary_factor, rebuild_tau=m.rebuild_tau,
        stock0=_arr(m.inputs_stock_0),
        Zy=_arr(m.mriot.Z.to_numpy()), Yy=_arr(m.mriot.Y.to_numpy()),
        xy=_arr(np.asarray(m.mriot.x).flatten()), Ay=_arr(m.mriot.A.to_numpy()),
    )
    d["state0"] = snap_econ(m)
    return d


class Tap:
    """Snapshots around every phase of every real next_step()."""

    def __init__(self, sim, light=False):
        self.sim = sim
        self.steps = []
        self.cur = None
        self.light = light
        self._install()

    def _install(self):
        sim, m = self.sim, self.sim.model
        tap = self

        o_che = sim._check_happening_events

        def che():
            tap.cur = {"t": int(sim.current_temporal_unit), "phases": []}
            tap.steps.append(tap.cur)
            tap.cur["ev_pre"] = snap_trackers(sim)
            tap.cur["econ_pre_events"] = snap_econ(m)
            tap.cur["phases"].append("events")
            try:
                o_che()
            except Exception as ex:  # noqa: BLE001
                tap.cur["ev_error"] = {"class": type(ex).__name__, "msg": str(ex)[:200]}
                tap.cur["ev_post"] = snap_trackers(sim)
                tap.cur["econ_post_events"] = snap_econ(m)
                raise
            tap.cur["ev_error"] = None
            tap.cur["ev_post"] = snap_trackers(sim)
            tap.cur["econ_post_events"] = snap_econ(m)

        sim._check_happening_events = che

        o_over = m.calc_overproduction

        def over():
            tap.cur["over_pre"] = snap_econ(m)
            tap.cur["phases"].append("overprod")
            o_over()
            tap.cur["over_post_alpha"] = _arr(m.overprod)

        m.calc_overproduction = over

        o_prod = m.calc_production

        def prod(t):
            tap.cur["prod_pre"] = snap_econ(m)
            tap.cur["cap"] = _arr(m.production_cap)
            tap.cur["opt"] = _arr(m.production_opt)
            tap.cur["cons"] = _arr(m.inventory_constraints_opt)
            tap.cur["phases"].append("production")
            r = o_prod(t)
            tap.cur["prod_post"] = _arr(m.production)
            tap.cur["limiting"] = np.array(r, dtype=bool, copy=True)
            return r

        m.calc_production = prod

        o_dist = m.distribute_production

        def dist(*a, **k):
            tap.cur["dist_pre"] = snap_econ(m)
            tap.cur["phases"].append("distribute")
            m._verif_distributed_production = None
            try:
                o_dist(*a, **k)
            except RuntimeError as e:
                tap.cur["dist_crash"] = str(e)
                tap.cur["dist_post"] = snap_econ(m)
                tap.cur["delivered"] = _arr(getattr(m, "_verif_distributed_production", None))
                raise
            tap.cur["dist_crash"] = None
            tap.cur["dist_post"] = snap_econ(m)
            tap.cur["delivered"] = _arr(getattr(m, "_verif_distributed_production", None))

        m.distribute_production = dist

        o_reb = sim.rebuild_events

        def reb():
            tap.cur["reb_pre"] = snap_trackers(sim)
            tap.cur["reb_pre_nE"] = int(m._n_rebuilding_events)
            tap.cur["reb_rprod"] = _arr(m._rebuild_prod)
            tap.cur["phases"].append("rebuild")
            o_reb()
            tap.cur["reb_post"] = snap_trackers(sim)
            tap.cur["reb_post_nE"] = int(m._n_rebuilding_events)

        sim.rebuild_events = reb

        o_rec = sim.recover_events

        def rec():
            tap.cur["rec_pre"] = snap_trackers(sim)
            tap.cur["rec_oracle"] = [oracle_recovery(tr, int(sim.current_temporal_unit))
                                     if tr._status == "recovering" else None
                                     for tr in sim._event_tracking]
            tap.cur["phases"].append("recover")
            o_rec()
            tap.cur["rec_post"] = snap_trackers(sim)

        sim.recover_events = rec

        o_ord = m.calc_orders

        def orders():
            tap.cur["ord_pre"] = snap_econ(m)
            tap.cur["phases"].append("orders")
            o_ord()
            tap.cur["ord_post"] = _arr(m.intermediate_demand)
            tap.cur["econ_end"] = snap_econ(m)

        m.calc_orders = orders


RECORDS = [
    "production_realised", "production_capacity", "final_demand", "intermediate_demand",
    "rebuild_demand", "overproduction", "final_demand_unmet", "rebuild_prod",
    "limiting_inputs", "productive_capital_to_recover",
]
REC_ATTR = {
    "production_realised": "_production_evolution",
    "production_capacity": "_production_cap_evolution",
    "final_demand": "_final_demand_evolution",
    "intermediate_demand": "_io_demand_evolution",
    "rebuild_demand": "_rebuild_demand_evolution",
    "overproduction": "_overproduction_evolution",
    "final_demand_unmet": "_final_demand_unmet_evolution",
    "rebuild_prod": "_rebuild_production_evolution",
    "inputs_stocks": "_inputs_evolution",
    "limiting_inputs": "_limiting_inputs_evolution",
    "productive_capital_to_recover": "_regional_sectoral_productive_capital_destroyed_evolution",
}


def close_log_handlers():
    for h in list(boario.logger.handlers):
        if isinstance(h, logging.FileHandler):
            try:
                h.close()
            except Exception:
                pass
            boario.logger.removeHandler(h)


def snap_records(sim):
    out = {}
    for rec, attr in REC_ATTR.items():
        a = getattr(sim, attr, None)
        if a is None or getattr(a, "size", 0) == 0:
            out[rec] = None
        else:
            out[rec] = np.array(a, copy=True)
    return out


PUBLIC = {"production_realised": "production_realised", "production_capacity": "production_capacity", "final_demand": "final_demand",
          "intermediate_demand": "intermediate_demand", "rebuild_demand": "rebuild_demand", "overproduction": "overproduction",
          "final_demand_unmet": "final_demand_unmet", "rebuild_prod": "rebuild_prod", "inputs_stocks": "inputs_stocks",
          "limiting_inputs": "limiting_inputs", "productive_capital_to_recover": "productive_capital_to_recover"}


def observe(sim):
    """The record DataFrames as the public properties return them (None when a property raises)."""
    out = {}
    for rec, prop in PUBLIC.items():
        try:
            df = getattr(sim, prop)
            out[rec] = None if df is None else np.array(df.to_numpy(), copy=True)
        except Exception:  # noqa: BLE001
            out[rec] = None
    return out


def exc_info(e):
    root = e
    while root.__cause__ is not None:
        root = root.__cause__
    return {"class": type(e).__name__, "msg": str(e)[:300], "root_class": type(root).__name__,
            "root_msg": str(root)[:300]}


def run(scn, mode="step", tap=True, events_mode="add", max_steps=None, outdir=None, keep_sim=False, loop_kwargs=None,
        observe_at=None):
    """Build and run one scenario.  mode = "step" (manual next_step loop) or "loop"."""
    res = {"scenario": scn, "error": None, "steps": [], "init": None, "stage": "build",
           "crashed": False, "n_steps": 0}
    own_dir = None
    sim = None
    try:
        if outdir is None:
            own_dir = tempfile.mkdtemp(prefix="verif_boario_")
            outdir = own_dir
        res["stage"] = "table"
        mriot = scen.build_mriot(scn)
        res["stage"] = "model"
        model = scen.build_model(scn, mriot)
        res["init"] = snap_init(model)
        res["stage"] = "sim"
        late = scn.get("sim", {}).get("late")
        late_events = []
        prebuilt = None
        if scn.get("sim", {}).get("reuse") and scn.get("events") and not late:
            # the Event objects have already served in another simulation (of another model built
            # from the same inputs) that ran for a few steps and is still alive
            prebuilt = [scen.build_event(e) for e in scn["events"]]
            decoy_dir = tempfile.mkdtemp(prefix="verif_boario_decoy_")
            try:
                decoy = scen.build_sim(scn, scen.build_model(scn, scen.build_mriot(scn)), outdir=decoy_dir,
                                       events_mode=events_mode, events=list(prebuilt))
                for _ in range(3):
                    decoy.next_step()
                res["decoy"] = decoy
            finally:
                shutil.rmtree(decoy_dir, ignore_errors=True)
        if late:
            # events[first:] are registered while the simulation is running, after `k` steps
            head = dict(scn, events=scn["events"][:late["first"]])
            sim = scen.build_sim(head, model, outdir=outdir, events_mode=events_mode)
            late_events = [scen.build_event(e) for e in scn["events"][late["first"]:]]
            res["registrations"] = []
        else:
            sim = scen.build_sim(scn, model, outdir=outdir, events_mode=events_mode, events=prebuilt)
        res["stage"] = "run"
        t = Tap(sim) if tap else None
        n = scn.get("sim", {}).get("n", 20)
        dt = model.n_temporal_units_by_step
        try:
            if mode == "loop":
                sim.loop(**(loop_kwargs or {}))
            else:
                k = 0
                stepped_crash = False
                for _ in range(0, n, int(dt)):
                    if max_steps is not None and k >= max_steps:
                        break
                    if late_events and k == late["k"]:
                        reg = {"k": k, "t": int(sim.current_temporal_unit), "pre": snap_trackers(sim), "api": late.get("api", "add_events")}
                        res["registrations"].append(reg)
                        if late.get("api", "add_events") == "add_events":
                            sim.add_events(late_events)
                        else:
                            for ev_ in late_events:
                                sim.add_event(ev_)
                        late_events = []
                        reg["post"] = snap_trackers(sim)
                    r = sim.next_step()       # driven exactly as a user would: nothing else is touched
                    k += 1
                    if observe_at and k in observe_at:
                        # a user looking at the results while the simulation is running (public properties only)
                        res.setdefault("observed", {})[k] = observe(sim)
                    if r == 1:
                        stepped_crash = True
                        break
        finally:
            if t is not None:
                res["steps"] = t.steps
            res["crashed"] = bool(sim.has_crashed) or bool(locals().get("stepped_crash"))
            res["n_steps"] = int(sim.current_temporal_unit)
            res["records"] = snap_records(sim)
            if observe_at:
                try:
                    res.setdefault("observed", {})["end"] = observe(sim)
                except Exception as ex:  # noqa: BLE001
                    res["observe_error"] = repr(ex)
            res["final"] = snap_econ(model)
            res["trackers"] = snap_trackers(sim)
        res["stage"] = "done"
    except Exception as e:  # noqa: BLE001
        res["error"] = exc_info(e)
        res["error"]["stage"] = res["stage"]
        res["error"]["tb"] = traceback.format_exc()[-1500:]
    finally:
        res.pop("decoy", None)
        close_log_handlers()
        if keep_sim:
            res["sim"] = sim
        if own_dir is not None and not keep_sim:
            shutil.rmtree(own_dir, ignore_errors=True)
    return res
