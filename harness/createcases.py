"""Correspondence cases for EventTracker.__init__ as a whole (coq/Corr/CheckCreate.v, Model/Create.v)."""
from __future__ import annotations

import numpy as np

from harness.cases import NonFinite, qnum
from harness.evcases import KIND, tracker_expr

CREATE_TRACKER_OBS = ["create.accept", "create.schedule", "create.status", "create.rid", "create.dmg", "create.hdmg",
                      "create.arb", "create.ledger_i", "create.ledger_h", "create.dmg0", "create.hdmg0", "create.arb0"]


def spec_expr(cf, init, e):
    """The event as the user described it (labels resolved to positions in sorted order)."""
    secs = init["sectors"]
    inds = [(r, s) for r in init["regions"] for s in secs]
    fds = [(r, c) for r in init["regions"] for c in init["fdcats"]]
    imp = np.zeros(len(inds))
    for lab, v in e["impact"]:
        imp[inds.index(tuple(lab))] += v
    house = "None"
    if e.get("households"):
        h = np.zeros(len(fds))
        for lab, v in e["households"]:
            h[fds.index(tuple(lab))] += v
        house = "(Some " + cf.vec(h) + ")"
    shares = "[]"
    tau = e.get("tau") or 1
    phi = 1.0
    if e["type"] == "rebuild":
        shares = "[" + "; ".join(f"({secs.index(s)}%nat, {qnum(sh)})" for s, sh in e["rebuilding_sectors"]) + "]"
        tau = e.get("tau") or init["rebuild_tau"]
        phi = e.get("factor", 1.0)
    eps = e.get("emf") or 1
    return ("{| " + f"v_kind := {KIND[e['type']]}; v_occ := {int(e['occ'])}%nat; v_dur := {int(e['dur'])}%nat; v_tau := {qnum(tau)}; "
            f"v_phi := {qnum(phi)}; v_rf := (fun _ v => v); v_eps := {qnum(eps)}; v_impact := {cf.vec(imp)}; v_house := {house}; "
            f"v_shares := {shares}" + " |}")


def create_tracker_checks(cf, P, trace, sid):
    init = trace["init"]
    if init is None or init.get("Zy") is None:
        return
    scn = trace["scenario"]
    evs = [e for e in scn.get("events", [])]
    if not evs or any(e.get("ctor", "series") not in ("series", "scalar_industries") for e in evs):
        return
    tags = [{"scn": sid, "t": -1, "ob": o} for o in CREATE_TRACKER_OBS]
    err = trace.get("error")
    try:
        Zy, Yy = cf.mat(init["Zy"]), cf.mat(init["Yy"])
        mu = qnum(init["mu"])
        if err is not None:
            if "Cannot distribute the rebuilding demand" in err.get("root_msg", "") and err.get("stage") == "sim":
                specs = "[" + "; ".join(spec_expr(cf, init, e) for e in evs) + "]"
                cf.check(tags[0], f"(match create_all {init['nR']}%nat {init['nS']}%nat {init['nC']}%nat {Zy} {Yy} {mu} {specs} "
                                  f"with None => 0 | Some _ => 3 end)%nat")
            if not trace["steps"]:
                return
        if not trace["steps"]:
            return
        first = list(trace["steps"][0].get("ev_pre") or [])
        for reg in trace.get("registrations") or []:
            first += (reg.get("post") or [])[len(first):]
        for i, tr in enumerate(first):
            if i >= len(evs):
                break
            cf.check(tags, f"chk_create_tracker {P} {Zy} {Yy} {mu} {spec_expr(cf, init, evs[i])} (Some {tracker_expr(cf, tr)})")
    except NonFinite as e:
        cf.pre.append((tags[0], 4, str(e)))
