"""Property-specific differential runs on the implementation (used for the
failing-input search, for clauses that are about Python-level behaviour, and as a
cross-check of the theorems' reading of the property)."""
from __future__ import annotations

import copy
import itertools
import math
import multiprocessing as mp
import collections
import os
import random
import sys

import numpy as np

ROOT = os.path.dirname(os.path.dirname(os.path.abspath(__file__)))


def _fail(prop, scn, what, sig=None, **kw):
    d = dict(property=prop, scn=scn["id"] if scn else None, t=kw.pop("t", None), what=what, sig=sig or what)
    d.update(kw)
    return d


def compare_runs(a, b, bitwise=True, tol=1e-9, records=None):
    """Differences between two traces' outcomes and records (list of strings)."""
    out = []
    ea, eb = a.get("error"), b.get("error")
    if (ea is None) != (eb is None):
        out.append(f"one run raised ({(ea or eb)['root_class']}: {(ea or eb)['root_msg'][:100]}) and the other did not")
        return out
    if ea is not None:
        if ea["root_class"] != eb["root_class"]:
            out.append(f"different exceptions {ea['root_class']} / {eb['root_class']}")
        return out
    if a.get("crashed") != b.get("crashed") or a.get("n_steps") != b.get("n_steps"):
        out.append(f"crash flag / steps simulated differ: {a.get('crashed')},{a.get('n_steps')} vs {b.get('crashed')},{b.get('n_steps')}")
    ra, rb = a.get("records") or {}, b.get("records") or {}
    for name in sorted(set(ra) | set(rb)):
        if records is not None and name not in records:
            continue
        x, y = ra.get(name), rb.get(name)
        if x is None and y is None:
            continue
        if x is None or y is None or x.shape != y.shape:
            out.append(f"record {name}: present/shape differs")
            continue
        if bitwise:
            same = np.array_equal(x, y, equal_nan=True)
        else:
            with np.errstate(invalid="ignore"):
                xn, yn = np.isnan(x), np.isnan(y)
                sc = np.maximum(np.abs(np.nan_to_num(x)), np.abs(np.nan_to_num(y)))
                scale = max(1e-300, float(np.nanmax(sc)) if sc.size else 0.0)
                same = np.array_equal(xn, yn) and bool(np.all(np.abs(np.nan_to_num(x) - np.nan_to_num(y)) <= tol * np.maximum(sc, scale * 1e-6)))
        if not same:
            with np.errstate(invalid="ignore"):
                d = np.abs(np.nan_to_num(x.astype(float)) - np.nan_to_num(y.astype(float)))
            idx = np.unravel_index(int(np.argmax(d)), d.shape)
            out.append(f"record {name} differs at {tuple(int(i) for i in idx)}: {x[idx]!r} vs {y[idx]!r}")
    return out


def _run(args):
    scn, kw = args
    sys.path.insert(0, ROOT)
    from harness import drive
    return drive.run(scn, tap=kw.pop("tap", False), **kw)


def run_many(jobs, nproc=16):
    """jobs: list of (scn, kwargs).  Runs the implementation in a process pool."""
    if not jobs:
        return []
    with mp.get_context("fork").Pool(min(nproc, len(jobs))) as pool:
        return pool.map(_run, jobs, chunksize=1)


def n_for(tier, quick, thorough):
    return thorough if tier == "thorough" else quick


def _ledger_tie_before_divergence(s, s2, ra, rb):
    """Two runs that should agree differ: is there, in either of them, a ledger cell sitting at a rounding
    midpoint (within 1e-6 quantum, `ties.py`) at or before the first step where they part?  The binary64
    sum that decides such a tie depends on the position of the event's block, i.e. on the order of
    addition; the property accepts either outcome of an exact tie."""
    from harness import drive, ties
    first = None
    for name, x in (ra.get("records") or {}).items():
        y = (rb.get("records") or {}).get(name)
        if x is None or y is None or x.shape != y.shape or name == "limiting_inputs":
            continue
        xf, yf = np.nan_to_num(x.astype(float)), np.nan_to_num(y.astype(float))
        sc = max(float(np.abs(xf).max()), 1e-300)
        rows = np.flatnonzero((np.abs(xf - yf).reshape(xf.shape[0], -1) > 1e-9 * sc).any(axis=1))
        if rows.size:
            first = int(rows[0]) if first is None else min(first, int(rows[0]))
    if first is None:
        return False
    for scn in (s, s2):
        tr = drive.run(scn, tap=True)
        if any(t <= first for (t, fam) in ties.tie_steps(tr) if fam in ("reb", "rec")):
            return True
    return False


# ---------------------------------------------------------------------------
def extra_c11(seed, tier, log):
    """Events passed at construction / as a list / one by one, and in any order, give the same records."""
    from harness import gen
    rng = random.Random(f"c11-{seed}-{tier}")
    scns = []
    for prof in ("mixed", "rebuild_finish", "rebuild"):
        for _ in range(n_for(tier, 3, 15)):
            for _try in range(20):
                s = gen.gen_scenario(rng.randrange(10**9), prof, dict(p_late=0.0, p_reuse=0.0, p_scalar_ctor=0.0))
                if len(s["events"]) >= 2:
                    scns.append(s)
                    break
    jobs, meta = [], []
    for s in scns:
        for mode in ("add", "list", "ctor"):
            jobs.append((s, dict(events_mode=mode)))
            meta.append((s, "mode", mode))
        perms = list(itertools.permutations(range(len(s["events"]))))[1:]
        rng.shuffle(perms)
        for p in perms[: n_for(tier, 2, 5)]:
            s2 = copy.deepcopy(s)
            s2["events"] = [s["events"][i] for i in p]
            s2["id"] = s["id"] + "-perm" + "".join(map(str, p))
            jobs.append((s2, dict(events_mode="add")))
            meta.append((s, "perm", s2))
    res = run_many(jobs)
    failures, scenarios, samples = [], {}, []
    base = {}
    n_tie_perm = 0
    for (s, kind, x), tr in zip(meta, res):
        scenarios[s["id"]] = s
        if kind == "mode" and x == "add":
            base[s["id"]] = tr
    for (s, kind, x), tr in zip(meta, res):
        b = base[s["id"]]
        if kind == "mode" and x != "add":
            diffs = compare_runs(b, tr, bitwise=True)
            if diffs:
                failures.append(_fail("C11", s, f"events passed with mode '{x}' behave differently from add_event one by one: {diffs[0]}",
                                      sig=f"events-mode-{x}-differs", mode=x))
        if kind == "perm":
            diffs = compare_runs(b, tr, bitwise=False, tol=1e-9)
            if diffs and _ledger_tie_before_divergence(s, x, b, tr):
                n_tie_perm += 1
                diffs = []
            if diffs:
                scenarios[x["id"]] = x
                failures.append(_fail("C11", s, f"outcome depends on the order in which events were added: {diffs[0]}",
                                      sig="event-order-dependence", permuted=x["id"]))
    samples.append(dict(kind="events passed by ctor/list/add and in permuted order", scenarios=len(scns), runs=len(jobs),
                        permutations_differing_only_after_a_ledger_rounding_tie=n_tie_perm))
    return dict(failures=failures, evaluations=len(jobs), samples=samples, scenarios=scenarios, obligations=[])


# ---------------------------------------------------------------------------
def _gen_many(seed, tier, tag, profiles, nq, nt, pred=None, overrides=None):
    from harness import gen
    rng = random.Random(f"{tag}-{seed}-{tier}")
    out = []
    for prof in profiles:
        for _ in range(n_for(tier, nq, nt)):
            for _try in range(30):
                # the differential runs derive twins from the scenario: late registration (which names
                # events by position) is exercised by the shared suite and by extra_c10 only
                s = gen.gen_scenario(rng.randrange(10**9), prof, dict(overrides or {}, p_late=(overrides or {}).get("p_late", 0.0), p_reuse=(overrides or {}).get("p_reuse", 0.0),
                                                                        p_scalar_ctor=(overrides or {}).get("p_scalar_ctor", 0.0)))
                if pred is None or pred(s):
                    out.append(s)
                    break
    return out, rng


def extra_c18(seed, tier, log):
    """psi = 1 with restoration time of one step == base class, bit for bit;
    alt == noalt orders in event-free runs."""
    scns, rng = _gen_many(seed, tier, "c18", ["mixed", "shortage", "rebuild_finish"], 3, 12)
    jobs, meta = [], []
    for s in scns:
        a = copy.deepcopy(s)
        a["model"]["class"] = "psi"
        a["model"]["psi"] = 1.0
        a["model"]["inventory_restoration_tau"] = int(a["model"]["dt"])
        a["id"] = s["id"] + "-psi1"
        b = copy.deepcopy(a)
        b["model"]["class"] = "base"
        b["model"].pop("psi", None)
        b["model"].pop("inventory_restoration_tau", None)
        b["id"] = s["id"] + "-base"
        jobs += [(a, {}), (b, {})]
        meta.append(("psi1", a, b))
    eq, _ = _gen_many(seed, tier, "c18eq", ["equilibrium"], 4, 16)
    for s in eq:
        a = copy.deepcopy(s); a["model"]["order_type"] = "alt"; a["id"] = s["id"] + "-alt"
        b = copy.deepcopy(s); b["model"]["order_type"] = "noalt"; b["id"] = s["id"] + "-noalt"
        jobs += [(a, {}), (b, {})]
        meta.append(("altnoalt", a, b))
    res = run_many(jobs)
    failures, scenarios = [], {}
    for k, (kind, a, b) in enumerate(meta):
        ta, tb = res[2 * k], res[2 * k + 1]
        scenarios[a["id"]] = a
        if kind == "psi1":
            diffs = compare_runs(ta, tb, bitwise=True)
            if diffs:
                failures.append(_fail("C18", a, f"psi=1 / restoration time of one step differs from the base model: {diffs[0]}",
                                      sig="psi1-differs-from-base"))
        else:
            # "the same orders (to within rounding)": compare orders, production, capacity, overproduction
            # (unmet demand is a difference of equal quantities: its rounding noise has no relative scale)
            diffs = compare_runs(ta, tb, bitwise=False, tol=1e-9,
                                 records=["intermediate_demand", "production_realised", "production_capacity", "overproduction"])
            if diffs:
                failures.append(_fail("C18", a, f"order variants differ in an event-free run: {diffs[0]}", sig="alt-noalt-differ"))
    return dict(failures=failures, evaluations=len(jobs), scenarios=scenarios, obligations=[],
                samples=[dict(kind="psi=1,tau=dt vs base (bitwise); alt vs noalt event-free (1e-9)", pairs=len(meta))])


def extra_c05(seed, tier, log):
    """Every way of driving a run stops at the first negative inventory: loop(), loop(show_progress=True)
    and manual stepping report the crash at the same step with the same records, and none goes on."""
    scns, rng = _gen_many(seed, tier, "c05", ["exhaust", "nonreal", "shortage"], 3, 10)
    jobs, meta = [], []
    for s in scns:
        sp = copy.deepcopy(s)
        sp["sim"]["show_progress"] = True
        sp["id"] = s["id"] + "-progress"
        jobs += [(s, dict(mode="step")), (s, dict(mode="loop")), (sp, dict(mode="loop"))]
        meta.append(s)
    res = run_many(jobs)
    failures, scenarios, n_crash = [], {}, 0
    for i, s in enumerate(meta):
        a, b, c = res[3 * i], res[3 * i + 1], res[3 * i + 2]
        scenarios[s["id"]] = s
        if a.get("crashed"):
            n_crash += 1
        for name, tr in (("loop()", b), ("loop() of a simulation built with show_progress=True", c)):
            d = compare_runs(a, tr, bitwise=True)
            if d:
                failures.append(_fail("C05", s, f"{name} does not behave as manual stepping: {d[0]}", sig="driving-mode-differs"))
    return dict(failures=failures, evaluations=len(jobs), scenarios=scenarios, obligations=[],
                samples=[dict(kind="manual stepping vs loop() vs loop(show_progress=True)", scenarios=len(meta), crashed=n_crash)])


def extra_c10(seed, tier, log):
    """Events registered while the simulation is running, before they occur (add_events / add_event
    after some manual steps), behave exactly as if they had been registered from the start
    (theorem C10_late_registration on the implementation: bitwise equal records and final books)."""
    from harness import gen
    scns, rng = _gen_many(seed, tier, "c10", ["mixed", "rebuild", "recover", "rebuild_finish"], 3, 12,
                          pred=lambda s: len(s["events"]) >= 2, overrides=dict(p_late=0.0))
    jobs, meta = [], []
    n_active = 0
    for s in scns:
        # the event occurring last is registered late, as late as possible; the others from the start
        order = sorted(range(len(s["events"])), key=lambda i: s["events"][i]["occ"])
        a = copy.deepcopy(s)
        a["events"] = [s["events"][i] for i in order]
        a["sim"].pop("late", None)
        jobs.append((a, {}))
        meta.append((a, None))
        for api in ("add_events", "add_event"):
            first = rng.randint(1, len(order) - 1)
            late = gen.late_registration(rng, a["events"], a["model"]["dt"], first=first)
            if not late:
                continue
            late["api"] = api
            b = copy.deepcopy(a)
            b["sim"]["late"] = late
            b["id"] = a["id"] + f"-late{first}-{api}"
            jobs.append((b, {}))
            meta.append((a, b))
            if late["k"] * a["model"]["dt"] >= a["events"][0]["occ"]:
                n_active += 1
    res = run_many(jobs)
    failures, scenarios = [], {}
    base = {}
    for (a, b), tr in zip(meta, res):
        if b is None:
            base[a["id"]] = tr
            scenarios[a["id"]] = a
    def books(tr):
        return [(t_["status"], t_["rid"], None if t_["dmg"] is None else t_["dmg"].tobytes(),
                 None if t_["rem_i"] is None else t_["rem_i"].tobytes()) for t_ in tr.get("trackers") or []]
    for (a, b), tr in zip(meta, res):
        if b is None:
            continue
        scenarios[b["id"]] = b
        diffs = compare_runs(base[a["id"]], tr, bitwise=True)
        if not diffs and base[a["id"]].get("error") is None and books(base[a["id"]]) != books(tr):
            diffs = ["final statuses / books of the events differ"]
        if diffs:
            failures.append(_fail("C10", b, f"events registered with {b['sim']['late']['api']} after {b['sim']['late']['k']} steps (before they occur) "
                                  f"do not behave as when registered from the start: {diffs[0]}", sig="late-registration-differs"))
    return dict(failures=failures, evaluations=len(jobs), scenarios=scenarios, obligations=[],
                samples=[dict(kind="late registration (add_events / add_event after k manual steps) vs registration from the start, bitwise",
                              pairs=len(jobs) - len(base), with_an_event_already_under_way=n_active)])


def extra_c19(seed, tier, log):
    """Delaying all events by k steps delays every record by k rows."""
    scns, rng = _gen_many(seed, tier, "c19", ["mixed", "rebuild_finish", "recover", "aftermath"], 2, 10,
                          pred=lambda s: len(s["events"]) >= 1)
    jobs, meta = [], []
    for s in scns:
        dt = s["model"]["dt"]
        for k in (1, rng.choice([2, 3, 7])):
            b = copy.deepcopy(s)
            b["sim"]["n"] = s["sim"]["n"] + k * dt
            for e in b["events"]:
                e["occ"] = e["occ"] + k * dt
            b["id"] = s["id"] + f"-shift{k}"
            jobs += [(s, {}), (b, {})]
            meta.append((s, b, k))
    # one long run: the same events placed after the periodic equilibrium check (every 182 temporal units)
    for s in [x for x in scns if x["model"]["dt"] == 1][: n_for(tier, 2, 5)]:
        k = 190
        b = copy.deepcopy(s)
        b["sim"]["n"] = s["sim"]["n"] + k
        for e in b["events"]:
            e["occ"] = e["occ"] + k
        b["id"] = s["id"] + f"-shift{k}"
        jobs += [(s, {}), (b, {})]
        meta.append((s, b, k))
    res = run_many(jobs)
    failures, scenarios = [], {}
    for i, (s, b, k) in enumerate(meta):
        ta, tb = res[2 * i], res[2 * i + 1]
        scenarios[s["id"]] = s
        scenarios[b["id"]] = b
        if (ta.get("error") is None) != (tb.get("error") is None):
            failures.append(_fail("C19", b, "a run raises only when shifted (or only when not shifted)", sig="shift-changes-error", shift=k))
            continue
        if ta.get("error") is not None:
            continue
        dt = s["model"]["dt"]
        n = s["sim"]["n"]
        if ta.get("crashed") or tb.get("crashed"):
            continue
        for name, x in (ta.get("records") or {}).items():
            y = (tb.get("records") or {}).get(name)
            if x is None or y is None or name == "limiting_inputs":
                continue      # the limiting flag is a strict test that sits at an exact tie at equilibrium (psi = 1)
            xs, ys = x[:n:1], y[k * dt:k * dt + n]
            # rows are indexed by temporal unit; only multiples of dt are written
            xs, ys = xs[::dt], ys[::dt]
            with np.errstate(invalid="ignore"):
                sc = np.maximum(np.abs(np.nan_to_num(xs.astype(float))), np.abs(np.nan_to_num(ys.astype(float))))
                m = float(sc.max()) if sc.size else 0.0
                ok = (np.isnan(xs.astype(float)) == np.isnan(ys.astype(float))) & \
                     (np.abs(np.nan_to_num(xs.astype(float)) - np.nan_to_num(ys.astype(float))) <= 1e-9 * np.maximum(sc, m * 1e-3))
            if not np.all(ok):
                idx = tuple(int(v) for v in np.argwhere(~ok)[0])
                failures.append(_fail("C19", b, f"record {name} is not the unshifted trajectory delayed by {k} steps "
                                      f"(row {idx[0]} of the response: {ys[idx]!r} vs {xs[idx]!r})", sig="shift-variance", shift=k))
                break
    return dict(failures=failures, evaluations=len(jobs), scenarios=scenarios, obligations=[],
                samples=[dict(kind="all events delayed by k steps", pairs=len(meta))])


def shuffled_twin(s, rng):
    """Same scenario with every labelled input given in another order."""
    b = copy.deepcopy(s)
    t = b["table"]
    N = len(t["row_labels"])
    perm = list(range(N))
    rng.shuffle(perm)
    yperm = list(range(len(t["ycol_labels"])))
    rng.shuffle(yperm)
    t["Z"] = [[t["Z"][i][j] for j in perm] for i in perm]
    t["Y"] = [[t["Y"][i][c] for c in yperm] for i in perm]
    if t.get("x") is not None:
        t["x"] = [t["x"][i] for i in perm]
    t["row_labels"] = [t["row_labels"][i] for i in perm]
    t["col_labels"] = [t["col_labels"][i] for i in perm]
    t["ycol_labels"] = [t["ycol_labels"][c] for c in yperm]
    m = b["model"]
    for key in ("inventory_dict",):
        if isinstance(m.get(key), list):
            rng.shuffle(m[key])
    if isinstance(m.get("inventory_restoration_tau"), list):
        rng.shuffle(m["inventory_restoration_tau"])
    cap = m.get("capital")
    if cap:
        if cap["kind"] == "ratio_dict":
            rng.shuffle(cap["dict_items"])
        elif cap["kind"] in ("series", "df_col", "df_row"):
            p = list(range(len(cap["labels"])))
            rng.shuffle(p)
            cap["labels"] = [cap["labels"][i] for i in p]
            cap["values"] = [cap["values"][i] for i in p]
    for e in b["events"]:
        for key in ("regions", "sectors", "regional_distrib", "sectoral_distrib", "industries", "distrib"):
            if isinstance(e.get(key), list):
                rng.shuffle(e[key])
        if "impact" in e:
            rng.shuffle(e["impact"])
        if e.get("households"):
            rng.shuffle(e["households"])
        if e.get("rebuilding_sectors"):
            rng.shuffle(e["rebuilding_sectors"])
    b["id"] = s["id"] + "-shuffled"
    return b


def extra_c15(seed, tier, log):
    """Permuting every labelled axis of every input gives bit-identical results."""
    scns, rng = _gen_many(seed, tier, "c15", ["mixed", "rebuild", "equilibrium"], 4, 20)
    # make sure the label-carrying capital containers are exercised
    more, _ = _gen_many(seed, tier, "c15cap", ["mixed", "rebuild"], 2, 8, overrides=None)
    for k, s in enumerate(more):
        from harness import gen
        cap, K = gen.gen_capital(rng, s["table"], {"capital": ["series", "df_col", "df_row", "ratio_dict"][k % 4], "shuffle_capital": True})
        if cap is not None:
            s["model"]["capital"] = cap
            s["id"] += "-cap" + cap["kind"]
            s["events"] = []   # capital changed: keep the run simple (events were sized for the other capital)
            from harness import gen as g2
            ev = g2.gen_event(rng, s["table"], s["model"], K, s["sim"]["n"], kind="recovery")
            ev["name"] = "ev0"
            s["events"] = [ev]
    scns += more
    # events built from a scalar over regions x sectors (or a list of industries) with weights:
    # the twin lists regions, sectors, industries and weight entries in another order
    sc, _ = _gen_many(seed, tier, "c15sc", ["mixed"], 3, 10, overrides=dict(events=0, sparsity="dense"))
    for s in sc:
        regs, secs = s["table"]["regions"], s["table"]["sectors"]
        K = sum(sum(r) for r in s["table"]["Y"]) * 0.01
        nr, ns = rng.randint(1, len(regs)), rng.randint(2, len(secs)) if len(secs) > 1 else 1
        ar, asec = rng.sample(regs, nr), rng.sample(secs, ns)
        ev = dict(type="recovery", ctor="scalar_regions_sectors", scalar=K, regions=ar, sectors=asec,
                  regional_distrib=[[r, rng.choice([1.0, 2.0, 5.0])] for r in ar],
                  sectoral_distrib=[[x, rng.choice([1.0, 3.0, 7.0])] for x in asec],
                  occ=2, dur=2, tau=5, recovery_function="linear", emf=s["model"]["monetary_factor"], name="sc")
        inds = [(r, x) for r in ar for x in asec]
        ev2 = dict(type="recovery", ctor="scalar_industries", scalar=K, industries=[list(i) for i in inds],
                   distrib=[[list(i), rng.choice([1.0, 2.0, 4.0])] for i in inds],
                   occ=3, dur=1, tau=4, recovery_function="linear", emf=s["model"]["monetary_factor"], name="si")
        s["events"] = [ev, ev2]
        s["id"] += "-scalar"
    scns += sc
    jobs, meta = [], []
    for s in scns:
        for r in range(n_for(tier, 1, 3)):
            b = shuffled_twin(s, rng)
            b["id"] += str(r)
            jobs += [(s, {}), (b, {})]
            meta.append((s, b))
    res = run_many(jobs)
    failures, scenarios = [], {}
    for i, (s, b) in enumerate(meta):
        ta, tb = res[2 * i], res[2 * i + 1]
        scenarios[s["id"]] = s
        scenarios[b["id"]] = b
        diffs = compare_runs(ta, tb, bitwise=True)
        if diffs:
            failures.append(_fail("C15", b, f"result depends on the order in which labelled inputs are given: {diffs[0]}",
                                  sig="input-order-dependence:" + (s["model"].get("capital") or {}).get("kind", "-"), base=s["id"]))
        # reported order is lexicographic
        for tr in (ta, tb):
            ini = tr.get("init")
            if ini and (ini["regions"] != sorted(ini["regions"]) or ini["sectors"] != sorted(ini["sectors"])):
                failures.append(_fail("C15", b, "industries are not reported in lexicographic order", sig="not-lexicographic"))
    return dict(failures=failures, evaluations=len(jobs), scenarios=scenarios, obligations=[],
                samples=[dict(kind="scenario vs twin with all labelled inputs shuffled (bitwise)", pairs=len(meta))])


# ---------------------------------------------------------------------------
def _records_of(sim):
    from harness import drive
    return drive.snap_records(sim)


def _rec_equal(a, b):
    return (a is None and b is None) or (a is not None and b is not None and a.shape == b.shape
                                         and np.array_equal(a, b, equal_nan=True))


def extra_c16(seed, tier, log):
    """Records: row t = model value at step t, fill elsewhere, memory == file, any subset,
    loop == manual stepping, rows survive an early stop, JSON artefacts describe the run."""
    import json
    import shutil
    import tempfile
    from harness import drive, gen, scen
    failures, scenarios, evals = [], {}, 0
    scns, rng = _gen_many(seed, tier, "c16", ["mixed", "rebuild_finish", "shortage"], 2, 8)
    RECS = list(drive.REC_ATTR)
    for s in scns:
        s = copy.deepcopy(s)
        s["sim"]["register_stocks"] = True
        scenarios[s["id"]] = s
        # (1) in-memory run, stepping, with the tap: rows vs observed states
        tr = drive.run(s, mode="step", tap=True)
        evals += 1
        if tr.get("error") is not None or tr["init"] is None:
            continue
        init = tr["init"]
        N = init["nR"] * init["nS"]
        F = init["nR"] * init["nC"]
        rec = tr["records"]
        nsteps = len(tr["steps"])
        def row(name, t):
            a = rec.get(name)
            return None if a is None else a[t]
        for st in tr["steps"]:
            t = st["t"]
            want = {}
            if "prod_post" in st:
                want["production_realised"] = st["prod_post"]
                want["production_capacity"] = st["cap"]
                want["overproduction"] = st["prod_pre"]["alpha"]
                want["inputs_stocks"] = st["prod_pre"]["stock"]
                want["limiting_inputs"] = st["limiting"].astype(float)
                d = st["prod_pre"]["dem"]
                want["intermediate_demand"] = d[:, :N].sum(axis=1)
                want["final_demand"] = d[:, N:N + F].sum(axis=1)
                want["rebuild_demand"] = d[:, N + F:].sum(axis=1)
                kl = st["prod_pre"]["klost"]
                if kl is not None:
                    want["productive_capital_to_recover"] = kl
            if "dist_post" in st and st.get("dist_crash") is None:
                want["final_demand_unmet"] = st["dist_post"]["unmet"]
                rp = st["dist_post"]["rprod"]
                want["rebuild_prod"] = rp.sum(axis=1) if rp is not None and rp.size else np.zeros(N)
            for name, w in want.items():
                g = row(name, t)
                if g is None:
                    failures.append(_fail("C16", s, f"record {name} missing", sig=f"record-missing:{name}"))
                    continue
                g = np.asarray(g, dtype=float)
                w = np.asarray(w, dtype=float)
                with np.errstate(invalid="ignore"):
                    sc = np.maximum(np.abs(np.nan_to_num(g, posinf=0)), np.abs(np.nan_to_num(w, posinf=0)))
                    ok = np.where(np.isinf(w) | np.isinf(g), g == w,
                                  np.abs(np.nan_to_num(g, posinf=0) - np.nan_to_num(w, posinf=0)) <= 1e-9 * np.maximum(sc, 1e-300)) & ~np.isnan(g)
                if g.shape != w.shape or not np.all(ok):
                    failures.append(_fail("C16", s, f"row {t} of record {name} is not the model's value at step {t}",
                                          sig=f"record-row-wrong:{name}", t=t))
        dt = int(init["dt"])
        written = {st["t"] for st in tr["steps"]}
        for name, a in rec.items():
            if a is None:
                continue
            fillv = -1 if name == "limiting_inputs" else np.nan
            for t in range(a.shape[0]):
                if t in written:
                    continue
                r_ = np.asarray(a[t], dtype=float)
                okfill = np.all(np.isnan(r_)) if np.isnan(fillv) else np.all(r_ == fillv)
                if not okfill:
                    failures.append(_fail("C16", s, f"row {t} of record {name} was not simulated but does not hold the fill value",
                                          sig=f"fill-overwritten:{name}", t=t))
                    break
        # (2) loop == stepping
        tr2 = drive.run(s, mode="loop", tap=False)
        evals += 1
        d = compare_runs(tr, tr2, bitwise=True)
        if d:
            failures.append(_fail("C16", s, f"loop() and manual stepping give different records: {d[0]}", sig="loop-vs-step"))
        # (3) files == memory, for subsets of the saved records
        subsets = [RECS, rng.sample(RECS, 4), [rng.choice(RECS)]]
        if tier == "thorough":
            subsets += [rng.sample(RECS, k) for k in (2, 6, 9)]
        for sub in subsets:
            outdir = tempfile.mkdtemp(prefix="verif_c16_")
            try:
                s3 = copy.deepcopy(s)
                s3["sim"]["save_records"] = list(sub)
                s3["sim"]["results_dir_name"] = "res"
                tr3 = drive.run(s3, mode="loop", tap=False, outdir=outdir, keep_sim=True)
                evals += 1
                sim = tr3.pop("sim", None)
                if tr3.get("error") is not None:
                    failures.append(_fail("C16", s, f"run with save_records={sub} raised {tr3['error']['root_msg'][:100]}", sig="save-records-raises"))
                    continue
                d = compare_runs(tr2, tr3, bitwise=True)
                if d:
                    failures.append(_fail("C16", s, f"records depend on which of them are saved to files ({sub}): {d[0]}",
                                          sig="records-depend-on-storage"))
                recdir = os.path.join(outdir, "res", "records")
                n = s["sim"]["n"]
                for name in sub:
                    path = os.path.join(recdir, name)
                    if not os.path.exists(path):
                        failures.append(_fail("C16", s, f"saved record file {name} missing", sig=f"file-missing:{name}"))
                        continue
                    dtype = "byte" if name == "limiting_inputs" else "float64"
                    shape = (n, init["nS"], N) if name in ("inputs_stocks", "limiting_inputs") else (n, N)
                    try:
                        back = np.array(np.memmap(path, mode="r", dtype=dtype, shape=shape))
                    except Exception as ex:  # noqa: BLE001
                        failures.append(_fail("C16", s, f"record file {name} cannot be read back with the documented dtype/shape: {ex}",
                                              sig=f"file-unreadable:{name}"))
                        continue
                    mem = tr2["records"].get(name)
                    if mem is None or not np.array_equal(back.astype(float), np.asarray(mem, dtype=float), equal_nan=True):
                        failures.append(_fail("C16", s, f"record file {name} differs from the in-memory record", sig=f"file-differs:{name}"))
                # JSON artefacts
                jdir = os.path.join(outdir, "res", "jsons")
                try:
                    params = json.load(open(os.path.join(jdir, "simulated_params.json")))
                    events = json.load(open(os.path.join(jdir, "simulated_events.json")))
                    idx = json.load(open(os.path.join(jdir, "indexes.json")))
                    m = s["model"]
                    chk = {
                        "n_temporal_units_to_sim": s["sim"]["n"], "order_type": m["order_type"],
                        "alpha_base": m["alpha_base"], "alpha_max": m["alpha_max"], "alpha_tau": m["alpha_tau"],
                        "rebuild_tau": m["rebuild_tau"], "n_temporal_units_by_step": m["dt"],
                        "has_crashed": bool(tr3["crashed"]), "n_temporal_units_simulated": tr3["n_steps"],
                    }
                    if m["class"] == "psi":
                        chk["psi_param"] = m["psi"]
                    for k_, v_ in chk.items():
                        got = params.get(k_)
                        if got is None or (isinstance(v_, (int, float)) and not isinstance(v_, bool) and abs(float(got) - float(v_)) > 1e-9 * max(1, abs(v_))) \
                                or (isinstance(v_, (str, bool)) and got != v_):
                            failures.append(_fail("C16", s, f"saved parameter {k_} = {got!r} does not describe the run ({v_!r})",
                                                  sig=f"json-param:{k_}"))
                    if len(events) != len(s["events"]) or any(ev["occurrence"] != e["occ"] or ev["duration"] != e["dur"]
                                                               for ev, e in zip(events, s["events"])):
                        failures.append(_fail("C16", s, "saved events do not describe the simulated events", sig="json-events"))
                    if idx.get("regions") != init["regions"] or idx.get("sectors") != init["sectors"] or idx.get("n_industries") != N:
                        failures.append(_fail("C16", s, "saved indexes do not describe the model", sig="json-indexes"))
                except FileNotFoundError as ex:
                    failures.append(_fail("C16", s, f"JSON artefact missing: {ex}", sig="json-missing"))
            finally:
                drive.close_log_handlers()
                shutil.rmtree(outdir, ignore_errors=True)
        # (4) early stop: an exception raised inside step k leaves rows < k intact
        kstop = rng.randint(1, max(1, nsteps - 1))
        tr4 = drive.run(s, mode="step", tap=False, max_steps=kstop)
        evals += 1
        for name, a in (tr4.get("records") or {}).items():
            b = tr2["records"].get(name)
            if a is None or b is None:
                continue
            rows = [st["t"] for st in tr["steps"][:kstop]]
            if not all(np.array_equal(a[t], b[t], equal_nan=True) for t in rows):
                failures.append(_fail("C16", s, f"rows written before an early stop differ from the full run (record {name})", sig="prefix-not-intact"))
                break
    # (5) histories: what an earlier simulation of the same process chose to save or to register does not
    # change what a later one records (save_records="all" without stocks, then stocks registered / saved)
    n_hist = 0
    for s in scns[: n_for(tier, 2, 6)]:
        s = copy.deepcopy(s)
        s["sim"]["register_stocks"] = True
        ref = drive.run(s, mode="step", tap=False)
        a = copy.deepcopy(s); a["sim"]["register_stocks"] = False; a["sim"]["save_records"] = "all"; a["id"] = s["id"] + "-all-nostock"
        drive.run(a, mode="step", tap=False)
        b = drive.run(s, mode="step", tap=False)
        c = copy.deepcopy(s); c["sim"]["save_records"] = ["inputs_stocks", "production_realised"]; c["id"] = s["id"] + "-save-stocks"
        trc = drive.run(c, mode="step", tap=False)
        evals += 4
        n_hist += 1
        if ref.get("error") is not None:
            continue
        d = compare_runs(ref, b, bitwise=True)
        if d:
            failures.append(_fail("C16", s, f"records differ after another simulation saved all records without registering stocks: {d[0]}",
                                  sig="records-depend-on-history"))
        d = compare_runs(ref, trc, bitwise=True)
        if d:
            scenarios[c["id"]] = c
            failures.append(_fail("C16", c, f"saving the stocks record to a file after another simulation ran without stocks: {d[0]}",
                                  sig="records-depend-on-history"))
    # (6) looking at the results while the simulation is running (public properties, twice or more) neither
    # changes nor freezes them: the last look equals the underlying records and an identical run looked at once
    n_obs = 0
    for s in scns[: n_for(tier, 3, 8)]:
        s = copy.deepcopy(s)
        s["sim"]["register_stocks"] = True
        for store in ("memory", "files"):
            s2 = copy.deepcopy(s)
            if store == "files":
                s2["sim"]["save_records"] = list(drive.REC_ATTR)
                s2["id"] = s["id"] + "-obs-files"
            nst = max(2, s["sim"]["n"] // max(1, int(s["model"]["dt"])))
            ks = sorted({max(1, nst // 3), max(2, (2 * nst) // 3)})
            once = drive.run(s2, mode="step", tap=False, observe_at=[10**9])
            many = drive.run(s2, mode="step", tap=False, observe_at=ks)
            evals += 2
            n_obs += 1
            if once.get("error") is not None or many.get("error") is not None:
                continue
            scenarios[s2["id"]] = s2
            end1, end2 = (once.get("observed") or {}).get("end") or {}, (many.get("observed") or {}).get("end") or {}
            for name, a in end2.items():
                b = end1.get(name)
                raw = (many.get("records") or {}).get(name)
                if a is None or b is None:
                    if (a is None) != (b is None):
                        failures.append(_fail("C16", s2, f"record {name} can be read after one look but not after several (or conversely)",
                                              sig=f"observation-changes-availability:{name}"))
                    continue
                if a.shape != b.shape or not np.array_equal(a.astype(float), b.astype(float), equal_nan=True):
                    failures.append(_fail("C16", s2, f"record {name} ({store}) read at the end differs after it was also read at steps {ks}",
                                          sig=f"observation-changes-record:{name}"))
                    continue
                if raw is not None and not np.array_equal(a.astype(float).reshape(-1), np.asarray(raw, dtype=float).reshape(-1), equal_nan=True):
                    failures.append(_fail("C16", s2, f"record {name} ({store}) as returned by the public property differs from the stored record",
                                          sig=f"property-differs-from-record:{name}"))
    return dict(failures=failures, evaluations=evals, scenarios=scenarios, obligations=[],
                samples=[dict(kind="row t vs observed state; fill; loop vs step; file vs memory for subsets; JSON artefacts; early stop; histories; repeated observation",
                              scenarios=len(scns), histories=n_hist, observed_runs=n_obs)])


def extra_c17(seed, tier, log):
    """Determinism, isolation between simulations, inputs left untouched, Event reuse."""
    import shutil
    import tempfile
    import pandas as pd
    from harness import drive, scen
    failures, scenarios, evals = [], {}, 0
    scns, rng = _gen_many(seed, tier, "c17", ["mixed", "rebuild"], 3, 10, pred=lambda s: len(s["events"]) >= 1)
    # every kind of parameter container at least once: a dictionary of durations together with a list of
    # inputs declared infinite, restoration times as a dictionary, capital as a labelled object
    more, _ = _gen_many(seed, tier, "c17b", ["mixed"], 2, 4, pred=lambda s: len(s["events"]) >= 1,
                        overrides={"inv_mode": "dict_inf_list", "class": "psi"})
    scns = scns + more
    for s in scns:
        scenarios[s["id"]] = s
        solo = drive.run(s, tap=False)
        again = drive.run(s, tap=False)
        evals += 2
        d = compare_runs(solo, again, bitwise=True)
        if d:
            failures.append(_fail("C17", s, f"same inputs, different results: {d[0]}", sig="non-deterministic"))
        # other simulations created, run and kept alive in between
        others = [o for o in scns if o is not s][:2]
        alive = [drive.run(o, tap=False, keep_sim=True) for o in others]
        evals += len(alive)
        mixed = drive.run(s, tap=False)
        evals += 1
        d = compare_runs(solo, mixed, bitwise=True)
        if d:
            failures.append(_fail("C17", s, f"result depends on other simulations alive in the process: {d[0]}", sig="not-isolated"))
        for a in alive:
            a.pop("sim", None)
        # inputs untouched
        mriot = scen.build_mriot(s)
        snap = {k: getattr(mriot, k).copy(deep=True) for k in ("Z", "Y", "x", "A")}
        kw_model = copy.deepcopy(s["model"])
        cls_, kw_user = scen.model_kwargs(s)
        kw_before = copy.deepcopy(kw_user)
        model = cls_(mriot, **kw_user)

        def same_container(a, b):
            if hasattr(a, "equals"):
                return a.equals(b) and list(a.index) == list(b.index)
            if isinstance(a, np.ndarray):
                return np.array_equal(a, b)
            if isinstance(a, dict):
                return list(a.items()) == list(b.items())
            return a == b
        for k_ in kw_user:
            if not same_container(kw_user[k_], kw_before[k_]):
                failures.append(_fail("C17", s, f"building a model modified the caller's argument {k_}: {kw_before[k_]!r} -> {kw_user[k_]!r}"[:300],
                                      sig=f"model-argument-mutated:{k_}"))
        for k, v in snap.items():
            cur = getattr(mriot, k)
            if not (cur.equals(v) and list(cur.index) == list(v.index) and list(cur.columns) == list(v.columns)):
                failures.append(_fail("C17", s, f"building a model modified the caller's table ({k})", sig=f"table-mutated:{k}"))
        if kw_model != s["model"]:
            failures.append(_fail("C17", s, "building a model modified the caller's parameter containers", sig="params-mutated"))
        for e in s["events"]:
            if e.get("ctor", "series") != "series":
                continue
            imp = scen._series(e["impact"], ["region", "sector"])
            # hand over in the caller's own (unsorted) order, with the caller's own index names
            imp.index = imp.index.set_names(["r", "s"])
            imp0 = imp.copy(deep=True)
            hh = hh0 = None
            kw = dict(event_type=e["type"], occurrence=e["occ"], duration=e["dur"])
            if e["type"] in ("rebuild", "recovery") and e.get("households"):
                hh = scen._series(list(reversed(e["households"])), ["region", "category"])
                hh.index = hh.index.set_names(["a", "b"])
                hh0 = hh.copy(deep=True)
                kw["households_impact"] = hh
            if e["type"] == "rebuild":
                rs = dict(e["rebuilding_sectors"])
                rs0 = dict(rs)
                kw.update(rebuild_tau=e["tau"], rebuilding_sectors=rs, rebuilding_factor=e.get("factor", 1.0))
            else:
                kw.update(recovery_tau=e["tau"])
            if e["type"] != "arbitrary" and e.get("emf") is not None:
                kw["event_monetary_factor"] = e["emf"]
            try:
                ev = scen.bev.from_series(imp, **kw)
            except Exception:  # noqa: BLE001
                continue
            evals += 1
            def same(a, b):
                return a.equals(b) and list(a.index) == list(b.index) and list(a.index.names) == list(b.index.names)
            if not same(imp, imp0):
                failures.append(_fail("C17", s, "building an event modified the caller's impact Series (order or index names)",
                                      sig="impact-series-mutated"))
            if hh is not None and not same(hh, hh0):
                failures.append(_fail("C17", s, "building an event modified the caller's household-impact Series (order or index names)",
                                      sig="household-series-mutated"))
            if e["type"] == "rebuild" and rs != rs0:
                failures.append(_fail("C17", s, "building an event modified the caller's rebuilding-sector shares", sig="shares-mutated"))
            # one Event object in two simulations
            try:
                recs = []
                for _ in range(2):
                    m2 = scen.build_model(s)
                    d_ = tempfile.mkdtemp(prefix="verif_c17_")
                    sim = scen.Simulation(m2, n_temporal_units_to_sim=s["sim"]["n"], boario_output_dir=d_)
                    sim.add_event(ev)
                    sim.loop()
                    recs.append(drive.snap_records(sim))
                    drive.close_log_handlers()
                    shutil.rmtree(d_, ignore_errors=True)
                evals += 2
                if any(not _rec_equal(recs[0][k], recs[1][k]) for k in recs[0]):
                    failures.append(_fail("C17", s, "one Event object used in two simulations gives different results", sig="event-reuse"))
            except Exception as ex:  # noqa: BLE001
                drive.close_log_handlers()
                if "Cannot distribute" not in str(ex.__cause__ or ex) and "capital lost" not in str(ex.__cause__ or ex):
                    failures.append(_fail("C17", s, f"one Event object cannot be used in two simulations: {type(ex).__name__}: {ex}",
                                          sig="event-reuse-raises"))
    # models of the same shape but with different real-input masks, run one after the other in
    # shortage regimes, must not influence each other (shared scratch buffers, caches ...)
    sh, _ = _gen_many(seed, tier, "c17sh", ["exhaust", "shortage"], 3, 8, pred=lambda s: len(s["table"]["sectors"]) >= 2)
    for s in sh:
        # same table and events, different sets of never-constraining inputs (hence different masks)
        variants = []
        for k in (0, -1):
            v = copy.deepcopy(s)
            v["model"].pop("inventory_dict", None)
            v["model"]["infinite_inventories_sect"] = [s["table"]["sectors"][k]]
            v["model"]["main_inv_dur"] = 2 * s["model"]["dt"]
            v["id"] = s["id"] + f"-inf{k}"
            variants.append(v)
        w = copy.deepcopy(s)
        w["model"].pop("inventory_dict", None)
        w["model"].pop("infinite_inventories_sect", None)
        w["model"]["main_inv_dur"] = 2 * s["model"]["dt"]
        w["id"] = s["id"] + "-noinf"
        variants.append(w)
        solos = [drive.run(v, tap=False) for v in variants]
        evals += len(variants)
        for i, v in enumerate(variants):
            scenarios[v["id"]] = v
            for j, o in enumerate(variants):
                if i == j:
                    continue
                drive.run(o, tap=False)
                after = drive.run(v, tap=False)
                evals += 2
                d = compare_runs(solos[i], after, bitwise=True)
                if d:
                    failures.append(_fail("C17", v, f"result depends on a model of the same shape run earlier in the process ({o['id']}): {d[0]}",
                                          sig="not-isolated-same-shape"))
                    break
    # default arguments: two simulations saving records must not share files
    s = scns[0]
    try:
        sims = []
        for k in range(2):
            m_ = scen.build_model(scns[min(k, len(scns) - 1)])
            sims.append(scen.Simulation(m_, n_temporal_units_to_sim=6, save_records=["production_realised"]))
        evals += 2
        p0 = sims[0].records_storage.resolve()
        p1 = sims[1].records_storage.resolve()
        if p0 == p1:
            failures.append(_fail("C17", s, f"two simulations created with default arguments write their records to the same files ({p0})",
                                  sig="default-output-dir-shared"))
        else:
            sims[0].loop()
            a = np.array(sims[0]._production_evolution, copy=True)
            sims[1].loop()
            b = np.array(sims[0]._production_evolution, copy=True)
            if not np.array_equal(a, b, equal_nan=True):
                failures.append(_fail("C17", s, "running a second simulation overwrote the first one's recorded results", sig="records-overwritten"))
        for sm in sims:
            shutil.rmtree(str(sm.output_dir), ignore_errors=True)
    except Exception as ex:  # noqa: BLE001
        failures.append(_fail("C17", s, f"default-argument simulations raised {type(ex).__name__}: {ex}", sig="default-args-raise"))
    finally:
        drive.close_log_handlers()
    return dict(failures=failures, evaluations=evals, scenarios=scenarios, obligations=[],
                samples=[dict(kind="repeat / interleave with live simulations / caller-owned inputs compared before-after / Event reuse / default dirs",
                              scenarios=len(scns))])


# ---------------------------------------------------------------------------
def extra_c12(seed, tier, log):
    """Scalar-impact constructors: total, shares, support, rejections; and the Coq model of
    distribute_scalar evaluated on the same arguments (obligation ctor.scalar)."""
    import pandas as pd
    from harness import cases, scen
    rng = random.Random(f"c12-{seed}-{tier}")
    regions = ["R1", "R10", "R2", "ab"]
    sectors = ["s1", "s10", "s2", "x"]
    failures, evals = [], 0
    cf = cases.CaseFile()
    cf.defs.append("Require Import Boario.Model.Ctor Boario.Corr.CheckIO.")
    samples = []

    def q(x):
        return cases.qnum(float(x))

    def ws_expr(ws):
        if ws is None:
            return "None"
        return "(Some [" + "; ".join("None" if w is None else f"(Some {q(w)})" for w in ws) + "])"

    def impl_expr(v):
        if v is None:
            return "None"
        return "(Some [" + "; ".join(q(x) for x in v) + "])"

    n_cases = n_for(tier, 40, 300)
    for k in range(n_cases):
        malformed = rng.random() < 0.3
        I = rng.choice([1.0, 3.5, 1e6, 123456.789, 0.25]) * (1 if not malformed or rng.random() < 0.6 else rng.choice([0.0, -1.0]))
        if rng.random() < 0.55:
            # list of industries
            allind = [(r, s) for r in regions for s in sectors]
            n = rng.randint(1, 5) if not (malformed and rng.random() < 0.2) else 0
            aff = rng.sample(allind, n)
            mode = rng.choice(["equal", "series", "series"])
            ws = None
            distrib = "equal"
            if mode == "series":
                cover = list(aff)
                extra = [x for x in allind if x not in aff]
                cover += rng.sample(extra, rng.randint(0, 3))
                if malformed and aff and rng.random() < 0.5:
                    cover.remove(rng.choice(aff))          # weights do not cover the affected set
                w = {c: rng.choice([1.0, 2.0, 0.5, 7.25, 1e-3]) for c in cover}
                if malformed and rng.random() < 0.3 and cover:
                    w[rng.choice(cover)] = -1.0           # a negative weight -> negative impact entry
                items = list(w.items())
                rng.shuffle(items)
                distrib = pd.Series([v for _, v in items], index=pd.MultiIndex.from_tuples([c for c, _ in items], names=["region", "sector"]))
                ws = [w.get(a) for a in aff]
            got = None
            err = None
            try:
                ev = scen.bev.from_scalar_industries(I, event_type="recovery", affected_industries=list(aff),
                                                     impact_distrib=distrib, recovery_tau=5)
                got = ev.impact
            except Exception as ex:  # noqa: BLE001
                err = ex
            evals += 1
            desc = dict(kind="industries", I=I, affected=aff, mode=mode, ws=ws)
            impl_list = None
            if got is not None:
                # the model drops zero entries; order of the affected list restricted to the kept labels
                impl_list = [float(got[a]) for a in aff if a in got.index]
                tot = float(got.sum())
                if abs(tot - I) > 1e-9 * abs(I):
                    failures.append(_fail("C12", None, f"impacts add up to {tot!r}, not the scalar {I!r} ({desc})", sig="scalar-total"))
                if set(got.index) != set(aff) and all((w_ or 0) > 0 for w_ in (ws or [1] * len(aff))):
                    failures.append(_fail("C12", None, f"support {sorted(got.index)} is not the requested set {sorted(aff)}", sig="scalar-support"))
                if (got <= 0).any():
                    failures.append(_fail("C12", None, f"non-positive entry in the impact built from a scalar ({desc})", sig="scalar-nonpositive"))
                if ws is not None and all(w_ is not None and w_ > 0 for w_ in ws):
                    sw = sum(ws)
                    for a, w_ in zip(aff, ws):
                        if abs(float(got[a]) - I * w_ / sw) > 1e-9 * I:
                            failures.append(_fail("C12", None, f"share of {a} is not proportional to its weight ({desc})", sig="scalar-shares"))
                            break
                if ws is None and len(aff):
                    if any(abs(float(got[a]) - I / len(aff)) > 1e-9 * I for a in aff):
                        failures.append(_fail("C12", None, f"equal shares expected ({desc})", sig="scalar-equal-shares"))
            else:
                bad = I <= 0 or len(aff) == 0 or (ws is not None and (any(w_ is None for w_ in ws) or any(w_ < 0 for w_ in ws if w_ is not None)))
                if not bad:
                    failures.append(_fail("C12", None, f"valid scalar impact rejected: {type(err).__name__}: {err} ({desc})", sig="scalar-valid-rejected"))
            try:
                cf.check({"scn": f"ctor-{k}", "t": 0, "ob": "ctor.scalar", "desc": str(desc)[:300]},
                         f"chk_scalar {q(I)} {len(aff)}%nat {ws_expr(ws)} {impl_expr(impl_list)}")
            except cases.NonFinite:
                pass
            if k < 3:
                samples.append(desc | {"result": None if got is None else [float(v) for v in got.values], "error": None if err is None else type(err).__name__})
        else:
            nr, ns = rng.randint(1, 3), rng.randint(1, 3)
            regs, secs = rng.sample(regions, nr), rng.sample(sectors, ns)
            wr = ws_ = None
            rd = sd = "equal"
            if rng.random() < 0.6:
                w = {r: rng.choice([1.0, 2.0, 5.5]) for r in regs + rng.sample([x for x in regions if x not in regs], rng.randint(0, 1))}
                rd = pd.Series(w)
                wr = [w.get(r) for r in regs]
            if rng.random() < 0.6:
                w = {s: rng.choice([1.0, 3.0, 0.25]) for s in secs}
                if malformed and rng.random() < 0.4:
                    w.pop(rng.choice(secs))
                sd = pd.Series(w) if w else pd.Series(dtype=float)
                ws_ = [w.get(s) for s in secs]
            got = err = None
            try:
                ev = scen.bev.from_scalar_regions_sectors(I, event_type="recovery", affected_regions=list(regs), affected_sectors=list(secs),
                                                          impact_regional_distrib=rd, impact_sectoral_distrib=sd, recovery_tau=5)
                got = ev.impact
            except Exception as ex:  # noqa: BLE001
                err = ex
            evals += 1
            desc = dict(kind="regions x sectors", I=I, regions=regs, sectors=secs, wr=wr, ws=ws_)
            impl_list = None
            if got is not None:
                impl_list = [float(got[(r, s)]) for r in regs for s in secs if (r, s) in got.index]
                tot = float(got.sum())
                if abs(tot - I) > 1e-9 * abs(I):
                    failures.append(_fail("C12", None, f"impacts add up to {tot!r}, not the scalar {I!r} ({desc})", sig="scalar-total"))
                if set(got.index) != {(r, s) for r in regs for s in secs}:
                    failures.append(_fail("C12", None, f"support is not regions x sectors ({desc})", sig="scalar-support"))
                a = [1.0] * nr if wr is None else wr
                b = [1.0] * ns if ws_ is None else ws_
                if all(x is not None for x in a + b):
                    for i, r in enumerate(regs):
                        for j, s in enumerate(secs):
                            want = I * a[i] / sum(a) * b[j] / sum(b)
                            if abs(float(got[(r, s)]) - want) > 1e-9 * I:
                                failures.append(_fail("C12", None, f"share of {(r, s)} is not regional x sectoral weight ({desc})", sig="scalar-product-shares"))
            else:
                bad = I <= 0 or any(x is None for x in (wr or [])) or any(x is None for x in (ws_ or []))
                if not bad:
                    failures.append(_fail("C12", None, f"valid scalar impact rejected: {type(err).__name__}: {err} ({desc})", sig="scalar-valid-rejected"))
            try:
                cf.check({"scn": f"ctor-{k}", "t": 0, "ob": "ctor.scalar", "desc": str(desc)[:300]},
                         f"chk_regsec {q(I)} {nr}%nat {ns}%nat {ws_expr(wr)} {ws_expr(ws_)} {impl_expr(impl_list)}")
            except cases.NonFinite:
                pass
    # ---- labelled calls: labels listed several times, weights looked up by label (ctor.labelled)
    rid = {r: i for i, r in enumerate(regions)}
    sid_ = {s_: i for i, s_ in enumerate(sectors)}

    def lbl(a):
        return rid[a[0]] * 1000 + sid_[a[1]]

    def nl(ids):
        return "[" + "; ".join(f"{i}%nat" for i in ids) + "]"

    def wl(w, key):
        if w is None:
            return "None"
        return "(Some [" + "; ".join(f"({key(k_)}%nat, {q(v_)})" for k_, v_ in w) + "])"

    def il(got, key=lbl):
        if got is None:
            return "None"
        return "(Some [" + "; ".join(f"({key(k_)}%nat, {q(v_)})" for k_, v_ in got.items()) + "])"

    dup_stats = collections.Counter()
    for k in range(n_for(tier, 40, 300)):
        I = rng.choice([1.0, 3.5, 1e6, 123456.789, 0.25])
        dup = rng.random() < 0.6
        if rng.random() < 0.5:
            allind = [(r, s_) for r in regions for s_ in sectors]
            aff = rng.sample(allind, rng.randint(1, 5))
            if dup:
                aff = aff + [rng.choice(aff) for _ in range(rng.randint(1, 2))]
                rng.shuffle(aff)
            w = None
            distrib = "equal"
            if rng.random() < 0.6:
                cover = list(dict.fromkeys(aff)) + rng.sample([x for x in allind if x not in aff], rng.randint(0, 2))
                if rng.random() < 0.15:
                    cover.remove(rng.choice(cover[:len(set(aff))]))
                w = [(c, rng.choice([1.0, 2.0, 0.5, 7.25])) for c in cover]
                rng.shuffle(w)
                distrib = pd.Series([v for _, v in w], index=pd.MultiIndex.from_tuples([c for c, _ in w], names=["region", "sector"]))
            got = err = None
            try:
                got = scen.bev.from_scalar_industries(I, event_type="recovery", affected_industries=list(aff),
                                                      impact_distrib=distrib, recovery_tau=5).impact
            except Exception as ex:  # noqa: BLE001
                err = ex
            evals += 1
            dup_stats["industries" + ("+dup" if dup else "")] += 1
            desc = dict(kind="industries (labelled)", I=I, affected=aff, weights=w)
            distinct = list(dict.fromkeys(aff))
            if got is not None:
                if sorted(got.index) != sorted(distinct):
                    failures.append(_fail("C12", None, f"impact entries {list(got.index)} are not the distinct listed industries ({desc})", sig="scalar-support-dup"))
                elif abs(float(got.sum()) - I) > 1e-9 * I:
                    failures.append(_fail("C12", None, f"impacts add up to {float(got.sum())!r}, not the scalar {I!r} ({desc})", sig="scalar-total"))
                else:
                    wd = dict(w) if w is not None else {a: 1.0 for a in distinct}
                    sw = sum(wd[a] for a in distinct)
                    if any(abs(float(got[a]) - I * wd[a] / sw) > 1e-9 * I for a in distinct):
                        failures.append(_fail("C12", None, f"shares not proportional to the weights of the distinct listed industries ({desc})", sig="scalar-shares-dup"))
            cf.check({"scn": f"ctorl-{k}", "t": 0, "ob": "ctor.labelled", "desc": str(desc)[:300]},
                     f"chk_scalar_lbl {q(I)} {nl([lbl(a) for a in aff])} {wl(w, lbl)} {il(got)}")
        else:
            regs, secs = rng.sample(regions, rng.randint(1, 3)), rng.sample(sectors, rng.randint(1, 3))
            if dup:
                which = rng.choice(["r", "s", "rs"])
                if "r" in which:
                    regs = regs + [rng.choice(regs)]
                    rng.shuffle(regs)
                if "s" in which:
                    secs = secs + [rng.choice(secs) for _ in range(rng.randint(1, 2))]
                    rng.shuffle(secs)
            wr = ws_ = None
            rd = sd = "equal"
            if rng.random() < 0.5:
                wr = [(r, rng.choice([1.0, 2.0, 5.5])) for r in list(dict.fromkeys(regs)) + rng.sample([x for x in regions if x not in regs], rng.randint(0, 1))]
                rng.shuffle(wr)
                rd = pd.Series(dict(wr))
            if rng.random() < 0.5:
                ws_ = [(s_, rng.choice([1.0, 3.0, 0.25])) for s_ in dict.fromkeys(secs)]
                if rng.random() < 0.15:
                    ws_.pop(rng.randrange(len(ws_)))
                rng.shuffle(ws_)
                sd = pd.Series(dict(ws_)) if ws_ else pd.Series(dtype=float)
            got = err = None
            try:
                got = scen.bev.from_scalar_regions_sectors(I, event_type="recovery", affected_regions=list(regs), affected_sectors=list(secs),
                                                           impact_regional_distrib=rd, impact_sectoral_distrib=sd, recovery_tau=5).impact
            except Exception as ex:  # noqa: BLE001
                err = ex
            evals += 1
            dup_stats["regions x sectors" + ("+dup" if dup else "")] += 1
            desc = dict(kind="regions x sectors (labelled)", I=I, regions=regs, sectors=secs, wr=wr, ws=ws_)
            dr, ds = list(dict.fromkeys(regs)), list(dict.fromkeys(secs))
            if got is not None:
                if sorted(got.index) != sorted((r, s_) for r in dr for s_ in ds):
                    failures.append(_fail("C12", None, f"impact entries {list(got.index)} are not the product of the distinct listed regions and sectors ({desc})",
                                          sig="scalar-support-dup"))
                elif abs(float(got.sum()) - I) > 1e-9 * I:
                    failures.append(_fail("C12", None, f"impacts add up to {float(got.sum())!r}, not the scalar {I!r} ({desc})", sig="scalar-total"))
                else:
                    a = dict(wr) if wr is not None else {r: 1.0 for r in dr}
                    b = dict(ws_) if ws_ is not None else {s_: 1.0 for s_ in ds}
                    sa, sb = sum(a[r] for r in dr), sum(b[s_] for s_ in ds)
                    if any(abs(float(got[(r, s_)]) - I * a[r] / sa * b[s_] / sb) > 1e-9 * I for r in dr for s_ in ds):
                        failures.append(_fail("C12", None, f"shares are not regional x sectoral weights over the distinct listed labels ({desc})",
                                              sig="scalar-product-shares-dup"))
            cf.check({"scn": f"ctorl-{k}", "t": 0, "ob": "ctor.labelled", "desc": str(desc)[:300]},
                     f"chk_regsec_lbl {q(I)} {nl([rid[r] for r in regs])} {nl([sid_[s_] for s_ in secs])} "
                     f"{wl(wr, lambda r: rid[r])} {wl(ws_, lambda s_: sid_[s_])} {il(got)}")
    # ---- malformed stream: weights covering the affected set with a positive total but a negative entry
    # (the per-industry impact would be negative: must be rejected, never produce an event)
    n_neg = 0
    for k in range(n_for(tier, 10, 60)):
        I = rng.choice([1.0, 1000.0, 123456.789])
        allind = [(r, s_) for r in regions for s_ in sectors]
        aff = rng.sample(allind, rng.randint(2, 5))
        w = [(c, rng.choice([1.0, 2.0, 5.0, 7.25])) for c in aff]
        j = rng.randrange(len(w))
        w[j] = (w[j][0], -rng.choice([0.25, 0.5, 0.9]))          # total stays positive
        rng.shuffle(w)
        if rng.random() < 0.5:
            distrib = pd.Series([v for _, v in w], index=pd.MultiIndex.from_tuples([c for c, _ in w], names=["region", "sector"]))
            got = err = None
            try:
                got = scen.bev.from_scalar_industries(I, event_type=rng.choice(["recovery", "rebuild"]), affected_industries=list(aff),
                                                      impact_distrib=distrib, recovery_tau=5, rebuild_tau=5,
                                                      rebuilding_sectors={"s1": 1.0}).impact
            except TypeError:
                try:
                    got = scen.bev.from_scalar_industries(I, event_type="recovery", affected_industries=list(aff),
                                                          impact_distrib=distrib, recovery_tau=5).impact
                except Exception as ex:  # noqa: BLE001
                    err = ex
            except Exception as ex:  # noqa: BLE001
                err = ex
            evals += 1
            n_neg += 1
            desc = dict(kind="industries, a negative weight", I=I, affected=aff, weights=w)
            if got is not None:
                failures.append(_fail("C12", None, f"weights with a negative entry accepted: impact {[float(v) for v in got.values]} ({desc})",
                                      sig="scalar-negative-accepted"))
            cf.check({"scn": f"ctorn-{k}", "t": 0, "ob": "ctor.labelled", "desc": str(desc)[:300]},
                     f"chk_scalar_lbl {q(I)} {nl([lbl(a) for a in aff])} {wl(w, lbl)} {il(got)}")
        else:
            regs, secs = rng.sample(regions, rng.randint(1, 3)), rng.sample(sectors, rng.randint(2, 3))
            ws_ = [(s_, rng.choice([1.0, 3.0, 4.0])) for s_ in secs]
            j = rng.randrange(len(ws_))
            ws_[j] = (ws_[j][0], -0.5)
            got = err = None
            try:
                got = scen.bev.from_scalar_regions_sectors(I, event_type="recovery", affected_regions=list(regs), affected_sectors=list(secs),
                                                           impact_regional_distrib="equal", impact_sectoral_distrib=pd.Series(dict(ws_)),
                                                           recovery_tau=5).impact
            except Exception as ex:  # noqa: BLE001
                err = ex
            evals += 1
            n_neg += 1
            desc = dict(kind="regions x sectors, a negative sectoral weight", I=I, regions=regs, sectors=secs, ws=ws_)
            if got is not None:
                failures.append(_fail("C12", None, f"weights with a negative entry accepted: impact {[float(v) for v in got.values]} ({desc})",
                                      sig="scalar-negative-accepted"))
            cf.check({"scn": f"ctorn-{k}", "t": 0, "ob": "ctor.labelled", "desc": str(desc)[:300]},
                     f"chk_regsec_lbl {q(I)} {nl([rid[r] for r in regs])} {nl([sid_[s_] for s_ in secs])} "
                     f"None {wl(ws_, lambda s_: sid_[s_])} {il(got)}")
    dup_stats["negative weight (must be rejected)"] = n_neg
    samples.append(dict(kind="labelled constructor calls", counts=dict(dup_stats)))
    verdicts = cases.run_casefiles([(os.path.join(cases.BUILD, f"ctor_{os.getpid()}"), cf)], jobs=1)
    try:
        os.remove(os.path.join(cases.BUILD, f"ctor_{os.getpid()}.v"))
    except OSError:
        pass
    bad = [(t, c, d) for t, c, d in verdicts if c != 0]
    obligations = [("corr:ctor.scalar+ctor.labelled", not bad,
                    f"{len(verdicts)} constructor calls agree with Ctor.distribute_scalar / scalar_labelled / regsec_labelled" if not bad else
                    f"{len(bad)}/{len(verdicts)} disagree: " + "; ".join(f"{t['desc'][:160]} -> {cases.VERDICT.get(c, c)} {d[-200:]}" for t, c, d in bad[:3]))]
    for t, c, d in bad[:3]:
        failures.append(_fail("C12", None, f"constructor disagrees with the model of distribute_scalar: {t['desc'][:200]}", sig="ctor-model-mismatch"))
    return dict(failures=failures, evaluations=evals, scenarios={}, obligations=obligations, samples=samples)


def extra_c13(seed, tier, log):
    """The same event in another monetary unit gives the same simulation; scaling table and
    impacts scales monetary results and leaves ratios unchanged."""
    scns, rng = _gen_many(seed, tier, "c13", ["rebuild", "recover", "rebuild_finish", "mixed"], 2, 8,
                          pred=lambda s: any(e["type"] in ("rebuild", "recovery") for e in s["events"]))
    jobs, meta = [], []
    for s in scns:
        for f2 in (1, 10**3, 10**6):
            b = copy.deepcopy(s)
            for e in b["events"]:
                if e["type"] in ("rebuild", "recovery"):
                    f1 = e.get("emf") or 1
                    if f1 == f2:
                        continue
                    e["impact"] = [[lab, v * f1 / f2] for lab, v in e["impact"]]
                    if e.get("households"):
                        e["households"] = [[lab, v * f1 / f2] for lab, v in e["households"]]
                    e["emf"] = f2
            b["id"] = s["id"] + f"-emf{f2}"
            jobs += [(s, {}), (b, {})]
            meta.append(("unit", s, b, f2))
        lam = rng.choice([10.0, 1e3])       # scaling up: the fixed rounding quantum only gets relatively smaller
        b = copy.deepcopy(s)
        if s["table"].get("x") is not None:
            b["table"]["x"] = [v * lam for v in s["table"]["x"]]
        b["table"]["Z"] = [[v * lam for v in r] for r in s["table"]["Z"]]
        b["table"]["Y"] = [[v * lam for v in r] for r in s["table"]["Y"]]
        cap = b["model"].get("capital")
        if cap and cap["kind"] != "ratio_dict":
            cap["values"] = [v * lam for v in cap["values"]]
        for e in b["events"]:
            if e["type"] in ("rebuild", "recovery"):
                e["impact"] = [[lab, v * lam] for lab, v in e["impact"]]
                if e.get("households"):
                    e["households"] = [[lab, v * lam] for lab, v in e["households"]]
        b["id"] = s["id"] + f"-scale{lam}"
        jobs += [(s, {}), (b, {})]
        meta.append(("scale", s, b, lam))
    res = run_many(jobs)
    failures, scenarios = [], {}
    MON = ["production_realised", "production_capacity", "final_demand", "intermediate_demand", "rebuild_demand",
           "final_demand_unmet", "rebuild_prod", "productive_capital_to_recover"]
    for i, (kind, s, b, par) in enumerate(meta):
        ta, tb = res[2 * i], res[2 * i + 1]
        scenarios[s["id"]] = s
        scenarios[b["id"]] = b
        if (ta.get("error") is None) != (tb.get("error") is None):
            failures.append(_fail("C13", b, f"one of the two equivalent runs raises ({kind} {par})", sig=f"{kind}-changes-error"))
            continue
        if ta.get("error") is not None or ta.get("crashed") or tb.get("crashed"):
            continue
        lam = par if kind == "scale" else 1.0
        # the ledgers are rounded to a quantum fixed by the model's unit (not scale-free): each cell of each
        # ledger is rounded once per step, by at most half a quantum, and the error stays in the book.  The
        # two runs may therefore differ by A = cells x steps x quantum / 2 (model units of the unscaled run)
        # in anything monetary, and by A / (smallest output per step) in ratios.
        mu = s["model"]["monetary_factor"]
        quantum = 10.0 ** (-(int(math.log10(mu)) + 1))
        nst = max(1, s["sim"]["n"] // max(1, int(s["model"]["dt"])))
        Nn = len(s["table"]["row_labels"])
        Ff = len(s["table"]["ycol_labels"])
        nR_ = len(s["table"]["regions"])
        cells = 0
        for e in s["events"]:
            if e["type"] == "rebuild":       # cells of the two demand books that are not identically zero
                cells += nR_ * len(e["rebuilding_sectors"]) * (len(e["impact"]) + len(e.get("households") or []))
            elif e["type"] == "recovery":
                cells += len(e["impact"]) + len(e.get("households") or [])
        A = cells * nst * quantum / 2
        xs_tab = [v for v in (s["table"].get("x") or []) if v > 0]
        xmin = (min(xs_tab) if xs_tab else 1.0) * s["model"]["dt"] / s["model"].get("year_factor", 365)
        for name, x in (ta.get("records") or {}).items():
            y = (tb.get("records") or {}).get(name)
            if x is None or y is None or name in ("limiting_inputs", "inputs_stocks"):
                continue
            f = lam if name in MON else 1.0
            xs, ys = np.nan_to_num(x.astype(float)) * f, np.nan_to_num(y.astype(float))
            m = float(max(np.abs(xs).max(), np.abs(ys).max())) if xs.size else 0.0
            slack_abs = A * lam if name in MON else A / xmin
            if slack_abs > 1e-2 * max(m, 1e-300):
                continue        # the rounding of the books is comparable to the record itself: nothing can be concluded
            floor = m * 1e-2
            if name == "final_demand_unmet":
                # a difference of two nearly equal quantities (demand - deliveries): its rounding-level
                # deviations are measured against the final demand it is derived from
                fd = (tb.get("records") or {}).get("final_demand")
                if fd is not None:
                    floor = max(floor, float(np.nanmax(np.abs(fd.astype(float)))))
            tol = 1e-6 if kind == "scale" else 1e-7
            # (the books' deviation feeds back into demand, production and the next deliveries: a factor 4
            # over the one-way bound covers the feedback observed)
            if not np.all(np.abs(xs - ys) <= tol * np.maximum(np.maximum(np.abs(xs), np.abs(ys)), floor) + 4 * slack_abs):
                idx = np.unravel_index(int(np.argmax(np.abs(xs - ys))), xs.shape)
                what = (f"the same event expressed with monetary factor {par} gives a different simulation"
                        if kind == "unit" else f"scaling table and impacts by {par} does not scale the results")
                failures.append(_fail("C13", b, f"{what}: record {name} at {tuple(int(v) for v in idx)}: {ys[idx]!r} vs {xs[idx]!r}",
                                      sig=f"{kind}-variance"))
                break
    return dict(failures=failures, evaluations=len(jobs), scenarios=scenarios, obligations=[],
                samples=[dict(kind="same event with factors 1 / 1e3 / 1e6; whole table and impacts scaled", pairs=len(meta))])


# ---------------------------------------------------------------------------
def extra_c20(seed, tier, log):
    """Malformed inputs of every documented class must be rejected (an exception or the crash
    flag); near-misses on the valid side must be accepted; nothing non-finite is recorded."""
    from harness import drive, gen
    rng = random.Random(f"c20-{seed}-{tier}")
    failures, scenarios, evals = [], {}, 0
    samples = []

    def base(events=True):
        for _ in range(50):
            s = gen.gen_scenario(rng.randrange(10**9), "mixed", dict(events=0, sparsity="dense", dt=1))
            if s["model"].get("capital") is None:
                return s
        return s

    def ev_rec(s, **kw):
        inds, fds, Z, Y, x, va = gen.table_sorted(s["table"])
        K = [v * 4 for v in va]
        k = max(range(len(K)), key=lambda i: K[i])
        e = dict(type="recovery", occ=2, dur=2, tau=3, recovery_function="linear", emf=s["model"]["monetary_factor"],
                 impact=[[list(inds[k]), K[k] * 0.1]], name="e")
        e.update(kw)
        return e, inds, K, k

    def expect_reject(name, s):
        nonlocal evals
        evals += 1
        tr = drive.run(s, tap=False)
        scenarios[s["id"]] = s
        rejected = tr.get("error") is not None or tr.get("crashed")
        if len(samples) < 4:
            samples.append(dict(malformed=name, rejected=bool(rejected), error=(tr.get("error") or {}).get("root_msg")))
        if not rejected:
            failures.append(_fail("C20", s, f"malformed input accepted silently: {name}", sig=f"accepted:{name}"))

    def expect_accept(name, s):
        nonlocal evals
        evals += 1
        tr = drive.run(s, tap=False)
        scenarios[s["id"]] = s
        if tr.get("error") is not None:
            failures.append(_fail("C20", s, f"valid input rejected ({name}): {tr['error']['root_class']}: {tr['error']['root_msg'][:120]}",
                                  sig=f"rejected:{name}"))
        else:
            from harness import monitors
            failures.extend(monitors.mon_finite(tr, "C20"))

    reps = n_for(tier, 1, 4)
    for rep in range(reps):
        # --- table
        for drop in ("Z", "Y", "x", "A"):
            s = base(); s["table"]["drop"] = drop; s["id"] += f"-no{drop}"
            expect_reject(f"table without {drop}", s)
        s = base(); s["table"]["A_scale"] = 1.01; s["id"] += "-badA"
        expect_reject("technical coefficients inconsistent with Z and x", s)
        # --- model parameters
        s = base(); s["model"]["class"] = "psi"; s["model"]["psi"] = 1.2; s["id"] += "-psi"
        expect_reject("psi above 1", s)
        s = base(); s["model"]["class"] = "psi"; s["model"]["psi"] = 1.0; s["model"]["inventory_restoration_tau"] = 5; s["id"] += "-psi1"
        expect_accept("psi equal to 1", s)
        for form in ("str_dot", "str_us", "int"):
            s = base(); s["model"]["class"] = "psi"; s["model"]["psi"] = 2.0 if form == "int" else 1.2; s["model"]["psi_form"] = form
            s["id"] += f"-psi-{form}"
            expect_reject(f"psi above 1 written as {form}", s)
            s = base(); s["model"]["class"] = "psi"; s["model"]["psi"] = 1.0 if form == "int" else 0.8; s["model"]["psi_form"] = form
            s["model"]["inventory_restoration_tau"] = 5; s["id"] += f"-psiok-{form}"
            expect_accept(f"psi within [0, 1] written as {form}", s)
        # --- events
        for tau in (2.5, 0, -3):
            s = base(); e, *_ = ev_rec(s, tau=tau); s["events"] = [e]; s["id"] += f"-tau{tau}"
            expect_reject(f"recovery tau {tau}", s)
            s = base(); e, *_ = ev_rec(s, type="rebuild", tau=tau, rebuilding_sectors=[[s["table"]["sectors"][0], 1.0]]); e.pop("recovery_function")
            s["events"] = [e]; s["id"] += f"-rtau{tau}"
            expect_reject(f"rebuild tau {tau}", s)
        s = base(); e, inds, K, k = ev_rec(s); e["impact"] = [[list(inds[k]), -5.0]]; s["events"] = [e]; s["id"] += "-neg"
        expect_reject("negative impact", s)
        s = base(); e, inds, K, k = ev_rec(s); e["impact"] = []; s["events"] = [e]; s["id"] += "-empty"
        expect_reject("empty impact", s)
        s = base(); e, inds, K, k = ev_rec(s, type="arbitrary"); e["impact"] = [[list(inds[k]), 1.3]]; e.pop("emf"); s["events"] = [e]; s["id"] += "-arb"
        expect_reject("arbitrary impact above 100%", s)
        s = base(); e, inds, K, k = ev_rec(s, type="arbitrary"); e["impact"] = [[list(inds[k]), 1.0]]; e.pop("emf"); s["events"] = [e]; s["id"] += "-arb1"
        expect_accept("arbitrary impact of exactly 100%", s)
        s = base(); e, inds, K, k = ev_rec(s); e["impact"] = [[list(inds[k]), K[k] * 1.5]]; s["events"] = [e]; s["id"] += "-overK"
        expect_reject("impact larger than the capital stock", s)
        s = base(); e, inds, K, k = ev_rec(s)
        s["model"]["capital"] = {"kind": "ratio_dict", "dict_items": [[sec, 0.0 if sec == inds[k][1] else 4.0] for sec in s["table"]["sectors"]]}
        e["impact"] = [[list(inds[k]), K[k] * 1e-6]]; s["events"] = [e]; s["id"] += "-zeroK"
        expect_reject("impact on an industry owning no capital (zero ratio)", s)
        s = base(); e, inds, K, k = ev_rec(s, type="rebuild", tau=5, rebuilding_sectors=[[s["table"]["sectors"][0], 1.0]]); e.pop("recovery_function")
        vals = [0.0 if i == k else K[i] for i in range(len(K))]
        s["model"]["capital"] = {"kind": "series", "labels": [list(i) for i in inds], "values": vals}
        e["impact"] = [[list(inds[k]), K[k] * 1e-4]]; s["events"] = [e]; s["id"] += "-zeroKvec"
        expect_reject("impact on an industry owning no capital (zero entry in the capital vector)", s)
        s = base(); e, inds, K, k = ev_rec(s); e["impact"] = [[["nowhere", inds[k][1]], 5.0]]; s["events"] = [e]; s["id"] += "-reg"
        expect_reject("unknown region", s)
        s = base(); e, inds, K, k = ev_rec(s); e["impact"] = [[[inds[k][0], "nosector"], 5.0]]; s["events"] = [e]; s["id"] += "-sec"
        expect_reject("unknown sector", s)
        n = base()["sim"]["n"]
        s = base(); e, *_ = ev_rec(s, occ=0); s["events"] = [e]; s["id"] += "-occ0"
        expect_reject("occurrence 0", s)
        s = base(); e, *_ = ev_rec(s, occ=s["sim"]["n"] + 1); s["events"] = [e]; s["id"] += "-occn"
        expect_reject("occurrence beyond the horizon", s)
        s = base(); e, *_ = ev_rec(s, occ=s["sim"]["n"] - 1, dur=3); s["events"] = [e]; s["id"] += "-durn"
        expect_reject("occurrence + duration beyond the horizon", s)
        s = base(); e, *_ = ev_rec(s, occ=s["sim"]["n"] - 2, dur=2); s["events"] = [e]; s["id"] += "-edge"
        expect_accept("occurrence + duration equal to the horizon", s)
        s = base(); e, inds, K, k = ev_rec(s, type="rebuild", tau=5); e.pop("recovery_function")
        secs = s["table"]["sectors"]
        e["rebuilding_sectors"] = [[secs[0], 0.5], [secs[1], 0.4]]; s["events"] = [e]; s["id"] += "-shares"
        expect_reject("rebuilding shares not summing to 1", s)
        s = base(); e, inds, K, k = ev_rec(s, type="rebuild", tau=5); e.pop("recovery_function")
        e["rebuilding_sectors"] = [["nosector", 1.0]]; s["events"] = [e]; s["id"] += "-rsec"
        expect_reject("unknown rebuilding sector", s)
        # --- records
        s = base(); s["sim"]["save_records"] = ["production_realised", "not_a_record"]; s["id"] += "-rec"
        expect_reject("unknown record name", s)
    return dict(failures=failures, evaluations=evals, scenarios=scenarios, obligations=[], samples=samples)


# ---------------------------------------------------------------------------
def extra_c01(seed, tier, log):
    """Long event-free horizons: every recorded row equals the first one (relative 1e-9)."""
    from harness import gen
    rng = random.Random(f"c01-{seed}-{tier}")
    scns = []
    sp = gen.SPARSITIES[1:]
    n = n_for(tier, 8, 40)
    for k in range(n):
        s = gen.gen_scenario(rng.randrange(10**9), "equilibrium",
                             dict(sparsity=sp[k % len(sp)], order_type=["alt", "noalt"][k % 2]))
        steps = n_for(tier, 150, 400)
        s["sim"]["n"] = steps * s["model"]["dt"]
        s["id"] += f"-long{steps}"
        scns.append(s)
    res = run_many([(s, {}) for s in scns])
    failures, scenarios = [], {}
    for s, tr in zip(scns, res):
        scenarios[s["id"]] = s
        if tr.get("error") is not None:
            failures.append(_fail("C01", s, f"event-free run raised {tr['error']['root_class']}: {tr['error']['root_msg'][:120]}",
                                  sig="raised:" + tr["error"]["root_class"]))
            continue
        if tr.get("crashed"):
            failures.append(_fail("C01", s, "event-free run flagged as crashed", sig="crashed"))
            continue
        dt = s["model"]["dt"]
        for name in ("production_realised", "production_capacity", "intermediate_demand", "overproduction", "final_demand_unmet"):
            a = (tr.get("records") or {}).get(name)
            if a is None:
                continue
            rows = a[::dt].astype(float)
            ref = rows[0]
            scale = np.maximum(np.abs(ref), float(np.abs((tr["records"]["production_realised"][0])).max()) * 1e-6)
            if name == "final_demand_unmet":
                ref = np.zeros_like(ref)
                scale = np.abs(tr["records"]["production_realised"][0].astype(float)) + 1e-300
            with np.errstate(invalid="ignore"):
                bad = ~(np.abs(rows - ref) <= 1e-9 * scale) | np.isnan(rows)
            if np.any(bad):
                t, f = (int(v) for v in np.argwhere(bad)[0])
                from harness import monitors as _M
                known = _M.fast_overproduction(s) and t > 20
                failures.append(_fail("C01", s, f"record {name} leaves the equilibrium at step {t} (industry {f}): {rows[t, f]!r} vs {ref[f]!r}",
                                      sig="equilibrium-unstable-fast-overproduction" if known else f"drift:{name}", t=t * dt))
                break
    return dict(failures=failures, evaluations=len(scns), scenarios=scenarios, obligations=[],
                samples=[dict(kind="event-free runs over long horizons, all sparsity classes x order variants", runs=len(scns),
                              steps=n_for(tier, 150, 400))])


# ---------------------------------------------------------------------------
def extra_c09(seed, tier, log):
    """The built-in recovery curves with rational values (linear, convexe, convexe scaled) evaluated
    by the real functions on a grid, against Model/RecoveryFns.v (obligation rec.curves); shape of the
    concave curve (not modelled) checked numerically."""
    from harness import cases, scen
    from boario.utils import recovery_functions as rfm
    import pandas as pd
    cf = cases.CaseFile()
    cf.defs.append("Require Import Boario.Model.RecoveryFns Boario.Model.Ctor Boario.Corr.CheckIO.")
    init = np.array([1.0, 2.5, 1234.5678, 0.0])
    fns = [(0, rfm.linear_recovery), (1, rfm.convexe_recovery), (2, rfm.convexe_recovery_scaled)]
    failures, evals = [], 0
    # (the model's power is a plain product of canonical rationals: exponents beyond ~350 take minutes in vm_compute)
    taus = [1, 2, 3, 5, 10, 40] if tier == "quick" else [1, 2, 3, 4, 5, 6, 7, 8, 10, 15, 20, 30, 40]
    for which, fn in fns:
        for tau in taus:
            for e in sorted(set([0, 1, 2, tau - 1, tau, tau + 1, tau + 5, 2 * tau])):
                if e < 0:
                    continue
                val = np.asarray(fn(e, pd.Series(init), tau), dtype=float)
                evals += 1
                cf.check({"scn": f"curve-{which}-{tau}-{e}", "t": e, "ob": "rec.curves"},
                         f"chk_curve {which}%nat {tau}%nat {e}%nat {cf.vec(init)} {cf.vec(val)}")
    # concave: bounded by the initial damage, non-negative, non-increasing for tau > 2
    for tau in [3, 5, 10, 40, 90]:
        prev = None
        for e in range(0, 3 * tau):
            v = np.asarray(rfm.concave_recovery(e, pd.Series(init), tau), dtype=float)
            evals += 1
            if np.any(v < 0) or np.any(v > init * (1 + 1e-12)) or (prev is not None and np.any(v > prev * (1 + 1e-12))):
                failures.append(_fail("C09", None, f"concave recovery (tau={tau}) out of [0, initial] or increasing at elapsed {e}",
                                      sig="concave-shape"))
                break
            prev = v
    verdicts = cases.run_casefiles([(os.path.join(cases.BUILD, f"curves_{os.getpid()}"), cf)], jobs=1)
    try:
        os.remove(os.path.join(cases.BUILD, f"curves_{os.getpid()}.v"))
    except OSError:
        pass
    bad = [(t, c, d) for t, c, d in verdicts if c != 0]
    obligations = [("corr:rec.curves", not bad, f"{len(verdicts)} curve values agree" if not bad else
                    f"{len(bad)}/{len(verdicts)} disagree: " + "; ".join(f"{t['scn']}:{c} {d[-150:]}" for t, c, d in bad[:4]))]
    for t, c, d in bad[:2]:
        failures.append(_fail("C09", None, f"built-in recovery curve disagrees with its model at {t['scn']} (which-tau-elapsed)", sig="curve-mismatch"))
    return dict(failures=failures, evaluations=evals, scenarios={}, obligations=obligations,
                samples=[dict(kind="linear / convexe / convexe scaled on a (tau, elapsed) grid vs RecoveryFns.v; concave shape numerically", points=evals)])
