"""Correspondence cases for construction: init.derived, reb.create, ingest.canon
(see coq/Corr/CheckInit.v)."""
from __future__ import annotations

import math

import numpy as np

from harness.cases import NonFinite, qnum


def _oq(v):
    return "None" if v is None else f"(Some {qnum(v)})"


def table_expr(cf, init):
    fields = dict(
        t_nR=f"{init['nR']}%nat", t_nS=f"{init['nS']}%nat", t_nC=f"{init['nC']}%nat",
        t_Z=cf.mat(init["Zy"]), t_Y=cf.mat(init["Yy"]), t_x=cf.vec(init["xy"]), t_A=cf.mat(init["Ay"]),
    )
    return cf.raw("{| " + "; ".join(f"{k} := {v}" for k, v in fields.items()) + " |}", "table")


def config_from_scenario(scn, init):
    """What the user's labelled parameters mean, per sector / industry in sorted label order."""
    m = scn["model"]
    sectors = init["sectors"]
    inf = set(m.get("infinite_inventories_sect") or [])
    inv = []
    if m.get("inventory_dict") is not None:
        d = dict(m["inventory_dict"])
        keys = sorted(d.keys())
        # the implementation walks the sorted keys of the dictionary
        for k in keys:
            v = d[k]
            inv.append(None if (v in ["inf", "Inf", "Infinity", "infinity"] or k in inf) else float(v))
    else:
        for s in sectors:
            inv.append(None if s in inf else float(m.get("main_inv_dur", 90)))
    rt = m.get("inventory_restoration_tau", 60)
    if isinstance(rt, list):
        d = dict(rt)
        rest = [float(d[s]) for s in sorted(d.keys())]
    else:
        rest = [float(rt)] * len(sectors)
    cap = m.get("capital")
    if not cap:
        capital = ("default", None)
    elif cap["kind"] == "ratio_dict":
        d = dict(cap["dict_items"])
        capital = ("ratio", [float(d[k]) for k in sorted(d.keys())])
    else:
        pairs = list(zip([tuple(x) for x in cap["labels"]], cap["values"]))
        if cap["kind"] in ("series", "df_col", "df_row"):
            pairs.sort(key=lambda p: p[0])          # labelled: matched by label
        capital = ("vector", [float(v) for _, v in pairs])
    return dict(psi_class=(m.get("class", "psi") == "psi"), alt=(m.get("order_type", "alt") == "alt"),
                dt=float(m.get("dt", 1)), year=float(m.get("year_factor", 365)), inv=inv,
                psi=float(m.get("psi", 0.8)), rest=rest, a_base=float(m.get("alpha_base", 1.0)),
                a_max=float(m.get("alpha_max", 1.25)), a_tau=float(m.get("alpha_tau", 365)), capital=capital)


def config_expr(cf, c):
    if c["capital"][0] == "default":
        cap = "CapDefault"
    elif c["capital"][0] == "ratio":
        cap = "(CapRatio " + cf.vec(c["capital"][1]) + ")"
    else:
        cap = "(CapVector " + cf.vec(c["capital"][1]) + ")"
    fields = dict(
        c_psi_class="true" if c["psi_class"] else "false", c_alt="true" if c["alt"] else "false",
        c_dt=qnum(c["dt"]), c_year=qnum(c["year"]),
        c_inv="[" + "; ".join(_oq(v) for v in c["inv"]) + "]",
        c_psi=qnum(c["psi"]), c_rest_tau=cf.vec(c["rest"]),
        c_a_base=qnum(c["a_base"]), c_a_max=qnum(c["a_max"]), c_a_tau=qnum(c["a_tau"]), c_capital=cap,
    )
    return cf.raw("{| " + "; ".join(f"{k} := {v}" for k, v in fields.items()) + " |}", "config")


INIT_OBS = ["init.X0", "init.Z0", "init.Y0", "init.tech", "init.zdist", "init.mask", "init.inv_duration",
            "init.restoration", "init.capital", "init.stock", "init.scalars"]


def init_checks(cf, trace, sid):
    init = trace["init"]
    if init is None or init.get("Zy") is None:
        return
    from harness.cases import fix_stock

    def tag(ob):
        return {"scn": sid, "t": -1, "ob": ob}
    try:
        T = table_expr(cf, init)
        C = config_expr(cf, config_from_scenario(trace["scenario"], init))
        invd = "[" + "; ".join(_oq(None if math.isinf(v) else v) for v in init["inv_duration"]) + "]"
        stock0, _ = fix_stock(init, init["stock0"])
        zd = np.nan_to_num(init["Z_distrib"], nan=0.0, posinf=0.0, neginf=0.0)
        if not np.all(np.isfinite(init["Z_distrib"])):
            cf.pre.append((tag("init.zdist"), 4, "non-finite market share"))
        expr = (f"chk_init {T} {C} {cf.vec(init['X0'])} {cf.mat(init['Z0'])} {cf.mat(init['Y0'])} {cf.mat(init['tech'])} "
                f"{cf.mat(zd)} {cf.bm(init['mask'])} {invd} {cf.vec(init['rho'])} {cf.vec(init['K'])} {cf.mat(stock0)} "
                f"{qnum(init['psi'])} {qnum(init['a_base'])} {qnum(init['a_max'])} {qnum(init['a_rate'])}")
        cf.check([tag(o) for o in INIT_OBS], expr)
    except NonFinite as e:
        cf.pre.append((tag("init.X0"), 4, str(e)))


def canon_checks(cf, trace, sid):
    """The implementation's sorted arrays are the canonical form of the labelled input."""
    init = trace["init"]
    if init is None or init.get("Zy") is None:
        return
    t = trace["scenario"]["table"]

    def tag(ob):
        return {"scn": sid, "t": -1, "ob": ob}
    try:
        inds = sorted({tuple(l) for l in t["row_labels"]})
        fds = sorted({tuple(l) for l in t["ycol_labels"]})
        rk = {l: i for i, l in enumerate(inds)}
        yk = {l: i for i, l in enumerate(fds)}
        def lab_mat(rows, cols, ckey, data):
            return "[" + ";\n ".join(
                f"({rk[tuple(r)]}%nat, [" + "; ".join(f"({ckey[tuple(c)]}%nat, {qnum(data[i][j])})" for j, c in enumerate(cols)) + "])"
                for i, r in enumerate(rows)) + "]"
        zin = cf.raw(lab_mat(t["row_labels"], t["col_labels"], rk, t["Z"]), "list (nat * list (nat * Qc))")
        yin = cf.raw(lab_mat(t["row_labels"], t["ycol_labels"], yk, t["Y"]), "list (nat * list (nat * Qc))")
        cf.check(tag("ingest.Z"), f"chk_canon_mat {zin} {cf.mat(init['Zy'])}")
        cf.check(tag("ingest.Y"), f"chk_canon_mat {yin} {cf.mat(init['Yy'])}")
        if t.get("x") is not None:
            xin = cf.raw("[" + "; ".join(f"({rk[tuple(r)]}%nat, {qnum(v)})" for r, v in zip(t["row_labels"], t["x"])) + "]",
                         "list (nat * Qc)")
            cf.check(tag("ingest.x"), f"chk_canon_vec {xin} {cf.vec(init['xy'])}")
        cap = trace["scenario"]["model"].get("capital")
        if cap and cap["kind"] in ("series", "df_col", "df_row"):
            kin = cf.raw("[" + "; ".join(f"({rk[tuple(l)]}%nat, {qnum(v)})" for l, v in zip(cap["labels"], cap["values"])) + "]",
                         "list (nat * Qc)")
            cf.check(tag("ingest.capital"), f"chk_canon_vec {kin} {cf.vec(init['K'])}")
    except NonFinite as e:
        cf.pre.append((tag("ingest.Z"), 4, str(e)))


def create_checks(cf, trace, sid):
    """Reconstruction demand at creation (EventTracker.__init__) vs Tracker.mk_rem."""
    init = trace["init"]
    if init is None or init.get("Zy") is None:
        return
    scn = trace["scenario"]
    secs = init["sectors"]
    N = init["nR"] * init["nS"]
    F = init["nR"] * init["nC"]

    def tag(ob):
        return {"scn": sid, "t": -1, "ob": ob}

    def shares_expr(e):
        return "[" + "; ".join(f"({secs.index(s)}%nat, {qnum(sh)})" for s, sh in e["rebuilding_sectors"]) + "]"
    err = trace.get("error")
    rejected = bool(err and "Cannot distribute the rebuilding demand" in err.get("root_msg", ""))
    evs = scn.get("events", [])
    try:
        Zy, Yy = cf.mat(init["Zy"]), cf.mat(init["Yy"])
        if rejected:
            # the model must reject at least one of the rebuilding events too
            inds = [(r, s) for r in init["regions"] for s in secs]
            fds = [(r, c) for r in init["regions"] for c in init["fdcats"]]
            flags = []
            for e in evs:
                if e["type"] != "rebuild" or e.get("ctor", "series") not in ("series", "scalar_industries"):
                    continue
                conv = (e.get("emf") or 1) / init["mu"]
                imp = np.zeros(N)
                for lab, v in e["impact"]:
                    imp[inds.index(tuple(lab))] = v * conv
                flags.append(f"match mk_rem {init['nR']}%nat {init['nS']}%nat {Zy} {N}%nat {shares_expr(e)} {qnum(e.get('factor', 1.0))} "
                             f"{cf.vec(imp)} with None => true | Some _ => false end")
                if e.get("households"):
                    h = np.zeros(F)
                    for lab, v in e["households"]:
                        h[fds.index(tuple(lab))] = v * conv
                    flags.append(f"match mk_rem {init['nR']}%nat {init['nS']}%nat {Yy} {F}%nat {shares_expr(e)} {qnum(e.get('factor', 1.0))} "
                                 f"{cf.vec(h)} with None => true | Some _ => false end")
            cf.check(tag("reb.create.reject"), "(if existsb (fun b : bool => b) [" + "; ".join(flags) + "] then 0 else 3)%nat")
            return
        if not trace["steps"]:
            return
        first = list(trace["steps"][0].get("ev_pre") or [])
        for reg in trace.get("registrations") or []:
            # trackers created while the simulation was running, as they were just after their creation
            first += (reg.get("post") or [])[len(first):]
        for i, tr in enumerate(first):
            if tr["kind"] != "rebuild" or i >= len(evs):
                continue
            e = evs[i]
            him = "None" if tr["hdmg0"] is None else "(Some " + cf.vec(tr["hdmg0"]) + ")"
            ri = "None" if tr["rem_i"] is None else "(Some " + cf.mat(tr["rem_i"]) + ")"
            rh = "None" if tr["rem_h"] is None else "(Some " + cf.mat(tr["rem_h"]) + ")"
            cf.check([tag("reb.create.reject"), tag("reb.create.indus"), tag("reb.create.house")],
                     f"chk_create {init['nR']}%nat {init['nS']}%nat {init['nC']}%nat {Zy} {Yy} {shares_expr(e)} {qnum(tr['phi'])} "
                     f"{cf.vec(tr['dmg0'])} {him} false {ri} {rh}")
    except NonFinite as e:
        cf.pre.append((tag("reb.create.indus"), 4, str(e)))
